"""C12 — the reference server flags exactly the requests that deviate from the test setup; timeout header grammar."""
import itertools
import re
from ..core import Prop, Violation, parse_sx, sx

N_AXES = 3 * 2 * 3 * 2 * 6 * 3      # version, GET/POST, protocol, codec, compression, tls mode (off / on / on+client cert)
N_ACTUAL = 3 * 7 * 2 * 6 * 3        # version, wire shape, codec, compression, tls mode

CODECS = ["proto", "json"]
COMPRESSIONS = ["identity", "gzip", "br", "zstd", "deflate", "snappy"]
CERT = "Conformance Client"
ALPHA14 = "019+- _HMSmunx"
UNITS = "HMSmun"

# request record, field order of C12_Model.request
F = ["pm", "method", "ct", "ge", "cce", "ce", "te", "cto", "gto", "name", "xv", "xm", "xp", "xc", "xz", "xt", "xcert",
     "qenc", "qcomp", "body_empty", "tls", "trailers"]


def axes_code(v, get, p, c, z, t):
    return ((((v * 2 + get) * 3 + p) * 2 + c) * 6 + z) * 3 + t


def actual_code(v, s, c, z, t):
    return (((v * 7 + s) * 2 + c) * 6 + z) * 3 + t


def render(v, s, c, z, t):
    """generator-side rendering (only used to seed mostly-valid general requests)"""
    r = {k: [] for k in F}
    r["pm"] = v + 1
    r["method"] = "GET" if s == 0 else "POST"
    r["body_empty"] = s == 0
    enc = [] if z == 0 else [COMPRESSIONS[z]]
    cn = CODECS[c]
    if s == 0:
        r["qenc"], r["qcomp"] = [cn], enc
    elif s == 1:
        r["ct"], r["ce"] = ["application/" + cn], enc
    elif s == 2:
        r["ct"], r["cce"] = ["application/connect+" + cn], enc
    elif s in (3, 4):
        r["ct"] = ["application/grpc" if (s == 4 and c == 0) else "application/grpc+" + cn]
        r["ge"], r["te"] = enc, ["trailers"]
    else:
        r["ct"] = ["application/grpc-web" if (s == 6 and c == 0) else "application/grpc-web+" + cn]
        r["ge"] = enc
    r["tls"] = [] if t == 0 else [[]] if t == 1 else [[CERT]]
    r["trailers"] = 0
    return r


def expect(r, name, v, get, p, c, z, t):
    r = dict(r)
    r["name"] = [name]
    r["xv"], r["xm"] = [str(v + 1)], ["GET" if get else "POST"]
    r["xp"], r["xc"], r["xz"] = [str(p + 1)], [str(c + 1)], [str(z + 1)]
    r["xt"] = ["true" if t else "false"]
    r["xcert"] = [CERT] if t == 2 else []
    return r


def req_sx(r):
    return [r[k] for k in F]


def boundary_values():
    """digit strings at the length / overflow boundaries x units, signs, blanks"""
    digs = set()
    for n in range(1, 22):
        digs.update(["9" * n, "1" + "0" * (n - 1), "0" * (n - 1) + "1", "0" * n, "0" + "9" * (n - 1)])
    digs.update(["2562047", "2562048", "2562049", "5124095", "5124096", "5124097", "7686143", "7686144", "99999999", "100000000",
                 "153722867", "153722868", "9999999999", "10000000000", "9223372036854", "9223372036855",
                 "9223372036854775807", "9223372036854775808", "18446744073709551616"])
    bnd = []
    for d in sorted(digs):
        bnd.append(d)
        for u in UNITS + "hsUN ":
            bnd.append(d + u)
        bnd.extend(["+" + d, "-" + d, "+" + d + "S", "-" + d + "m", " " + d, d + " ", d + "_" + d + "n", d + ".0S"])
    return bnd


UNIT_NS = {"H": 3600 * 10 ** 9, "M": 60 * 10 ** 9, "S": 10 ** 9, "m": 10 ** 6, "u": 10 ** 3, "n": 1}


def grammar_oracle(p, val):
    """The protocol documents, as a regular expression: accepted duration in ns, or None.  Independent of the
    Coq model AND of the constants read off the compiled code (C12_Consts.v follows the code; this does not)."""
    b = val.encode("latin-1") if isinstance(val, str) else bytes(val)
    if p == 1:
        m = re.fullmatch(rb"[0-9]{1,10}", b)
        return min(int(b) * 10 ** 6, 2 ** 63 - 1) if m else None
    m = re.fullmatch(rb"([0-9]{1,8})([HMSmun])", b)
    return min(int(m.group(1)) * UNIT_NS[m.group(2).decode()], 2 ** 63 - 1) if m else None


SHAPE_AXES = {0: (1, 0), 1: (0, 0), 2: (0, 0), 3: (0, 1), 4: (0, 1), 5: (0, 2), 6: (0, 2)}   # shape -> (get, protocol)
# live transport -> (HTTP version index, TLS mode) as the server sees it; see the harness for the eight transports
MODE_AXES = {0: (0, 0), 1: (0, 1), 2: (0, 2), 3: (1, 1), 4: (1, 2), 5: (1, 0), 6: (0, 0), 7: (0, 1)}
# wire shapes a client would use for a procedure: unary POST (GET only for the idempotent one), streams
PROC_SHAPES = {0: [1, 3, 4, 5, 6], 1: [2, 3, 4, 5, 6], 2: [2, 3, 4, 5, 6], 3: [2, 3, 4, 5, 6], 4: [0, 1, 3, 5]}


class C12(Prop):
    id = "C12"
    props = "C12_Props"
    coq_files = ("Base", "C12_Consts", "C12_Model", "C12_Spec", "C12_Proofs", "C12_ProofsR", "C12_Props")
    models = ("C12_Model",)
    packages = {"rs": "internal/app/referenceserver", "cc": "internal/app/connectconformance"}
    kinds = {"c12.seq": "rs", "c12.matrix": "rs", "c12.render": "rs", "c12.timeouts": "rs", "c12.wire": "rs",
             "c12.events": "rs", "c12.live": "rs", "c12.print": "rs", "c12.runner": "cc", "c12.runlive": "cc"}
    consts = ("rs",)
    rule = ("c12.matrix: the FULL matrix (in chunks of 36 renderings) of 648 announced set-ups (3 HTTP versions x GET/POST x 3 protocols x 2 codecs x 6 compressions x "
            "TLS off/on/on+client-cert) x 756 client renderings (3 versions x 7 wire shapes x 2 codecs x 6 compressions x 3 TLS modes) = "
            "489,888 requests through referenceServerChecks (httptest, recording printer) on every run; c12.render: the harness's "
            "independent renderer against the model's render for every rendering and set-up; c12.timeouts: ALL strings of length <=4 "
            "(quick; <=5 thorough, plus length 6 over {0,9,+,-,space,S,m,x}) over {0,1,9,+,-,space,_,H,M,S,m,u,n,x} for Connect, gRPC and gRPC-Web, boundary digit strings "
            "(9..9, 10..0, leading zeros, int64/hour-overflow neighbours) of lengths 1-21 x six units and bad units, seeded random "
            "strings to length 12; c12.seq: sequences of general requests on one handler (repeats, trailers, duplicated headers and "
            "query parameters, missing name, malformed x-expect-* values, foreign methods, bodies on GET, certificate names); "
            "c12.events: scripts of BEGIN/END events on one handler whose inner handler is parked on a channel (overlaps forced "
            "deterministically): EVERY interleaving of 3 (quick) / 4 (thorough) requests x every assignment of two test names, plus 3000 / 30000 "
            "random scripts of up to 7 general requests over three names - per event what is written during that event; "
            "c12.wire: 600 / 8000 general requests sent by a real Go client over real listeners to referenceServerChecks around a recording "
            "handler (HTTP/1.1, HTTP/1.1+TLS, HTTP/2+TLS, h2c; with and without the client certificate of internal.NewClientCert), so that "
            "ProtoMajor, req.TLS, header canonicalisation, query parsing, body and trailers are what net/http delivers; "
            "c12.live: the servers that createServer builds in reference mode (HTTP/1.1 and HTTP/2, plain / TLS / TLS with required client "
            "certificate = 6 servers, 8 client transports incl. HTTP/1.1 to the h2c and to the HTTP/2+TLS server), ALL five procedures: "
            "transport x procedure x announced version x announced TLS mode systematically (360), 2500 / 12000 requests the unary handlers "
            "answer (timeout_ms and the timeout headers the RPC handler saw, read from the RequestInfo of the decoded response), 28000 / 80000 "
            "cases of 1-3 perturbed requests (30% BidiStream over HTTP/1.1): per request rejected / prefix / feedback as a multiset "
            "(sorted by kind) / whether the RPC handler refused the HTTP version (505); extra: the Go side against a python regular-"
            "expression oracle of the two grammars on ~2400 boundary strings x 3 protocols (independent of the regenerated constants). "
            "Compared: feedback kinds with arguments and prefix, accepted duration in ns, header seen by the inner handler, timeout_ms echoed "
            "by createRequestInfo. "
            "c12.runner (package connectconformance): the real runTestCasesForServer with a scripted server process and a recording client over batches "
            "of test cases sharing one server instance: every (codec, compression, GET) of a first case x every one of a second (576 batches of 3, "
            "the third with a raw request), all 32 instance flag combinations (reference server?, useTLS, useTLSClientCerts, certificate in the "
            "server's response?, client credentials?) x 3 protocols x 3 HTTP versions with batches of 4, 2500 / 30000 random batches of 1-7 "
            "(own headers incl. near-misses of the reserved names, raw requests) - per request handed to the client: test name, the complete request "
            "headers and raw-request headers in order; c12.runlive: such batches (3-6 cases differing in codec / compression / stream type / GET) "
            "through the real in-process reference client to the real in-process reference server (one per batch; HTTP/1.1 and HTTP/2, plain / TLS / "
            "TLS + client certificate, 3 protocols): the x-* headers each case was sent with and whether the server wrote feedback about it "
            "(model: never, for the reference client's rendering). "
            "c12.print: sequences of general requests on one referenceServerChecks handler whose printer is the REAL internal.NewPrinter over a buffer (as "
            "run() wires it to the server's stderr; a tee next to it remembers format and arguments): every one of 28 test names that would be read as a "
            "format (%, %s, %d, %%, %v, %!, explicit argument indexes, flags, trailing %, `: ` inside, leading / trailing blank) x 12 deviations (10 whose "
            "message has format arguments) + repeats, then 1500 / 30000 random sequences over such names and names drawn from the rng - per request "
            "whether the bytes in the buffer are exactly `name: message newline` per message, and the lines read back as server_runner.go reads the "
            "server's stderr (trim, split at the first `: `, look-up among the case's names): (test name, feedback kind) per line, the kind only when the "
            "text after the split is the formatted message. non-trivial = some feedback or an accepted timeout or a sent request")
    trusted_base = ("Coq 8.16.1 kernel (vm_compute used, native_compute not)", "extraction (ExtrOcamlBasic only) + ocaml/driver.ml",
                    "vlib generators/comparator, Go overlay harness (request construction from the record, feedback-kind mapping)",
                    "modelled, sampled by c12.wire / c12.live, not verified: net/http header canonicalisation, url.Values parsing, req.TLS and "
                    "req.Trailer population (HTTP/3 not exercised live); rawResponder, cors, h2c and connect-go are not modelled (the model's "
                    "server = workaround + checks + RPC handler; that the other layers do not touch what the checks read is sampled by c12.live); "
                    "c12.live adds one outermost reporting wrapper to the handler chain (completion signal) and sends an extra id header; "
                    "the runner model (run_batch) covers the header construction of runTestCasesForServer only (start-up exchange: certificate present or not; "
                    "process supervision, results and the client's transfer of request headers to the wire = put_headers are sampled by c12.runner / c12.runlive); "
                    "the reference client sends small GET requests uncompressed, so GET is run live (and claimed for the reference client) under identity only, as in the shipped suites; "
                    "the printer model (prefix_printf) takes the formatted message as given: package fmt is not modelled (c12.print compares with fmt.Sprintf of the recorded format and arguments); "
                    "that createServer hands run()'s printer on to the checks unchanged is sampled by c12.live (with a recording printer), the real printer is driven under referenceServerChecks directly (c12.print); "
                    "the runner's reading end (sideband) is mirrored in the c12.print harness (TrimSpace / SplitN / set look-up, ASCII white space), the real goroutine of runTestCasesForServer is exercised by c12.runlive only on silent runs; "
                    "whitespace trimming of header values and connect.ErrorWriter are outside the model; float64 arithmetic of time.Duration.Hours/Minutes/Seconds enters the theorems as hypothesis "
                    "float_quot_ok (within 1 of the truncated quotient, exact on multiples), exercised at the overflow boundaries")
    assumptions = ("requests reach the checks as net/http delivers them (canonical header keys, parsed query)",
                   "Duration.Hours/Minutes/Seconds are within 1 of the exact quotient and exact on exact multiples")

    level_text = ("Machine-checked proof (Coq) that the model of referenceServerChecks - and of the handler chain createServer builds around "
                  "it, for all five procedures - is silent exactly on matching set-up/rendering pairs and names exactly the deviating aspects "
                  "(over the whole finite matrix; the HTTP/1.1-bidi workaround changes what the RPC handler is told, never what is judged), "
                  "flags a request as repeat iff a request of the same test began earlier (all interleavings of begin/end events), flags "
                  "trailers, rejects nameless requests, and accepts a timeout header iff it follows the protocol grammar (all byte strings), "
                  "with exact/saturating duration, removal and echo; that every request of every batch the runner sends carries exactly the "
                  "headers computed from its own test case (any position, any neighbours), which describe that case's set-up, so that the "
                  "server is silent on it exactly for a client rendering that set-up (the reference client's rendering in particular); "
                  "that the printer run() puts on the server's stderr writes, for every test name (any bytes, verbs included) and every message, exactly "
                  "`name: message newline`, that the model's feedback is, line by line, what reaches stderr (so the theorems above speak about those bytes: "
                  "stderr stays empty exactly on matching pairs) and that the runner's reading end attributes each line to that test with that message; "
                  "the model is tied to the Go code by the full-matrix, bounded-exhaustive "
                  "and live (real createServer) differential run.")
    level_note = ("Trusted: Coq kernel, extraction, OCaml driver, harness; model-code correspondence is tested (full matrix, exhaustive "
                  "short timeout strings, live requests), not proved. The theorems about the matrix range over the 648 x 756 finite domain "
                  "and every test name; those about timeouts, repeats, trailers and nameless requests over all byte strings / requests / "
                  "histories / event interleavings. The documented HTTP/1.1-bidi exemption is empty at the level of feedback (the unchanged code applies "
                  "the workaround after the checks): silent_iff_match holds for all five procedures without exception; the exemption is what "
                  "bidi_exemption_scope / bidi_served_over_http1 state. The line theorems hold for all byte strings as names and messages; attribution by the runner is claimed for names without `: ` inside and not beginning with white space "
                  "(the runner splits at the first `: ` and trims: other names are not attributed by the unchanged code either - stated, with an example, not hidden). "
                  "Nothing is partial. float64 duration conversion is a hypothesis (float_quot_ok), inhabited by the exact quotient.")
    technique = ("Coq proof (per-aspect case analysis over the finite matrix, induction on digit strings, histories and begin/end event "
                 "interleavings, int64 wrap-around arithmetic, refuted variant of the handler order) about a model of checks.go and of "
                 "createServer's handler chain; differential model-vs-Go correspondence incl. live HTTP/TLS requests to the real server")

    def nontrivial(self, case, res):
        return ("(1" in res or "(2" in res or "(3" in res or "(7" in res or "(9" in res or "(" in res[2:]) and len(res) > 8

    def describe(self, case, g, m):
        if case[0] == "c12.timeouts":
            return "timeout header grammar / duration / removal / echo: implementation differs from the proved model"
        return "request checks: implementation differs from the proved model"

    def extra(self, ctx):
        """Go side against the documents' grammar directly (python oracle) on the boundary strings: catches a change of the
        digit limits / unit table with a replayable input even though the regenerated constants make the model follow the code
        (the proofs then fail too, but without a failing input)."""
        vals = boundary_values() + ["", "0", "5", "+5", "-0", "5S", "S", "+5S", "-0m", "1h", "1s", "00000000001", "000000001H"]
        cases = [["c12.timeouts", p, vals[i:i + 200]] for p in (1, 2, 3) for i in range(0, len(vals), 200)]
        g, _ = ctx.eval_both(cases, "oracle")
        out = []
        for c, gr in zip(cases, g):
            res = parse_sx(gr) if gr else []
            for v, r in zip(c[2], res):
                want = grammar_oracle(c[1], v)
                ok = isinstance(r, list) and len(r) == 6 and r[3] == 0 and r[4] == 0
                if ok and want is not None:
                    ok = r[1] == [] and r[2] == [want] and r[5] == [want // 10 ** 6]
                elif ok:
                    ok = r[2] == [] and r[5] == [] and len(r[1]) == 1 and r[1][0][0] in (30, 31, 32, 33, 34, 35)
                if not ok and len(out) < 2:
                    small = ["c12.timeouts", c[1], [v]]
                    body = ("; C12: timeout header: implementation differs from the protocol grammar (python oracle: %s)\n"
                            "; impl : %s\n; replay: ./check C12 --replay <this file>\n%s\n" % (
                                "accept as %d ns" % want if want is not None else "reject with one feedback line, header removed",
                                sx(r), sx([small[0], 0] + small[1:])))
                    out.append(Violation("timeout grammar oracle: %s" % sx(small)[:200], body))
        ctx.notes["oracle_timeout_values"] = 3 * len(vals)
        return out

    # ------------------------------------------------------------------
    def gen_timeouts(self, rng, tier):
        maxlen = 4 if tier == "quick" else 5
        vals = [""]
        for n in range(1, maxlen + 1):
            vals.extend("".join(t) for t in itertools.product(ALPHA14, repeat=n))
        if tier != "quick":   # length 6 exhaustively over a reduced alphabet (sign, blank, two digits, float / integer / bad unit)
            vals.extend("".join(t) for t in itertools.product("09+- Smx", repeat=6))
        bnd = boundary_values()
        rnd = []
        n_rand = 4000 if tier == "quick" else 100000
        for _ in range(n_rand):
            n = rng.randint(1, 12)
            mode = rng.random()
            if mode < 0.5:
                s = "".join(rng.choice("0123456789") for _ in range(n - 1)) + rng.choice(UNITS + "0123456789")
            elif mode < 0.8:
                s = "".join(rng.choice("0123456789" * 3 + "+-_ HMSmunx.") for _ in range(n))
            else:
                s = bytes(rng.randrange(256) for _ in range(n))
            rnd.append(s)
        allv = vals + bnd + rnd
        # small batches: the shrinker drops one list element per round
        for p in (1, 2, 3):
            for i in range(0, len(allv), 20):
                yield ["c12.timeouts", p, allv[i:i + 20]]

    def gen_seq(self, rng, tier):
        for seq in self._seqs(rng, 3000 if tier == "quick" else 60000, lambda: rng.choice(["t", "A/b", "x y"])):
            yield ["c12.seq", seq]

    # test names that would be read as a format if the printer ever used them as one: verbs, flags, "%%", explicit
    # argument indexes, a trailing '%', the runner's own ": " (never attributed: it splits at the FIRST ": ")
    PCT_NAMES = ["Percent Encoding/100%", "50%d", "%s", "%d", "%%", "%v/%v", "%!", "%", "%%%", "100%% sure", "Suite/%41%42/case",
                 "a%!d(MISSING)", "%[1]d", "%[2]v %[1]v", "%-5d|", "%*d", "%T", "%x%X%q", "%+v %#v", "x%", "%d%d%d%d", "%s: %s", "q: %d",
                 "%c%U", "tab\t%d", "%5.2f%%", " %d", "%d "]

    def pct_name(self, rng):
        k = rng.random()
        if k < 0.55:
            return rng.choice(self.PCT_NAMES)
        if k < 0.85:    # from the rng: short strings over verbs, flags, digits, separators
            return "".join(rng.choice("%%%%sdvqxT!#+-[]12 /:.ab") for _ in range(rng.randint(1, 8))).strip() or "%"
        return rng.choice(["t", "A/b", "x y"])

    def gen_print(self, rng, tier):
        """c12.print: sequences on one handler over the REAL internal.NewPrinter (as run() wires it) - every name of
        PCT_NAMES x every deviation whose message has format arguments (and some without), then random sequences
        (the c12.seq perturbations) over such names."""
        def dev(name, k):
            r = render(1, 1, 0, 0, 0)
            e = [1, 0, 0, 0, 0, 0]
            if k == 0:
                e[0] = 0                    # expected HTTP version %d; instead got %d
            elif k == 1:
                e[3] = 1                    # expected codec %v; instead got %v
            elif k == 2:
                e[4] = 3                    # expected compression %v; instead got %v
            elif k == 3:
                e[1] = 1                    # expected HTTP method %q, got %q
            elif k == 4:
                e[2] = 1                    # expected protocol %v; instead got %v
            elif k == 5:
                e[5] = 2                    # expecting TLS request ...: no arguments
            r = expect(r, name, *e)
            if k == 6:
                r["xc"] = ["7"]             # invalid value for %q header: %d is not in range
            elif k == 7:
                r["xv"] = ["x"]             # invalid value for %q header: %q: %v
            elif k == 8:
                r["cto"] = ["+5"]           # invalid numeric value for %q header: %q
            elif k == 9:
                r["ct"] = r["ct"] * 2       # %s header appears %d times; should appear just once
            elif k == 10:
                r["trailers"] = 2           # ... (%d trailer keys found)
            elif k == 11:                   # several lines at once, every aspect off
                r = expect(render(0, 3, 1, 2, 1), name, 2, 1, 0, 0, 4, 0)
            return req_sx(r)
        for name in self.PCT_NAMES:
            for k in range(12):
                yield ["c12.print", [dev(name, k)]]
            # the same test again (client sent another request (#%d) ...), another test in between, a matching request
            other = rng.choice(self.PCT_NAMES)
            yield ["c12.print", [dev(name, 0), dev(other, 1), dev(name, 12), dev(name, 3)]]
        for seq in self._seqs(rng, 1500 if tier == "quick" else 30000, lambda: self.pct_name(rng)):
            yield ["c12.print", seq]

    def _seqs(self, rng, n, pick_name):
        weird_enum = ["0", "4", "7", "+1", "-1", "x", "", "01", "2147483647", "2147483648", "-2147483648", "-2147483649", "1 ", "1_0", "3"]
        weird_bool = ["1", "0", "t", "F", "TRUE", "True", "tRUE", "yes", "", "false ", "T", "f", "False", "FALSE"]
        cts = ["application/grpc", "application/grpc+", "application/grpc+proto", "application/grpc-web", "application/grpc-web+json",
               "application/grpc-webx", "application/grpcx", "application/connect+proto", "application/connect+", "application/json",
               "application/", "application", "text/plain", "", "Application/proto", "application/proto; charset=utf-8"]
        for _ in range(n):
            seq = []
            names = [pick_name() for _ in range(2)]
            for _ in range(rng.randint(1, 4)):
                v, s, c, z, t = rng.randrange(3), rng.randrange(7), rng.randrange(2), rng.randrange(6), rng.randrange(3)
                r = render(v, s, c, z, t)
                get, p = SHAPE_AXES[s]
                ev, eget, ep, ec, ez, et = v, get, p, c, z, t
                # perturb the expectation in 0-2 aspects
                for _ in range(rng.choice([0, 0, 1, 2])):
                    k = rng.randrange(6)
                    if k == 0:
                        ev = rng.randrange(3)
                    elif k == 1:
                        eget = rng.randrange(2)
                    elif k == 2:
                        ep = rng.randrange(3)
                    elif k == 3:
                        ec = rng.randrange(2)
                    elif k == 4:
                        ez = rng.randrange(6)
                    else:
                        et = rng.randrange(3)
                r = expect(r, rng.choice(names), ev, eget, ep, ec, ez, et)
                # malformations of the request itself
                for _ in range(rng.choice([0, 0, 1, 1, 2, 3])):
                    k = rng.randrange(16)
                    if k == 0:
                        r["name"] = rng.choice([[], [""], ["t", "u"], ["", "t"]])
                    elif k == 1:
                        f = rng.choice(["xv", "xp", "xc", "xz"])
                        r[f] = rng.choice([[rng.choice(weird_enum)], [], r[f] + [rng.choice(weird_enum)]])
                    elif k == 2:
                        r["xt"] = rng.choice([[rng.choice(weird_bool)], [], r["xt"] + ["true"]])
                    elif k == 3:
                        r["xcert"] = rng.choice([[], ["Other"], [CERT, CERT], [""]])
                    elif k == 4:
                        r["xm"] = rng.choice([[], ["get"], ["PUT"], r["xm"] * 2, ["POST"], ["GET"]])
                    elif k == 5:
                        r["ct"] = rng.choice([[rng.choice(cts)], [], r["ct"] + [rng.choice(cts)]])
                    elif k == 6:
                        f = rng.choice(["ge", "cce", "ce"])
                        r[f] = rng.choice([[rng.choice(COMPRESSIONS + ["", "GZIP", "x"])], [], ["gzip", "br"]])
                    elif k == 7:
                        r["te"] = rng.choice([[], ["trailers"], ["Trailers"], ["trailers", "x"], ["x", "trailers"], ["trailers, deflate"]])
                    elif k == 8:
                        r["method"] = rng.choice(["GET", "POST", "PUT", "get", "HEAD", ""])
                    elif k == 9:
                        r["body_empty"] = not r["body_empty"]
                    elif k == 10:
                        r["qenc"] = rng.choice([[], ["proto"], ["json"], ["proto", "json"], [""], ["x&y=z"]])
                        r["qcomp"] = rng.choice([[], ["gzip"], ["identity"], ["gzip", "gzip"], ["%"]])
                    elif k == 11:
                        r["tls"] = rng.choice([[], [[]], [[CERT]], [["Other"]], [["", CERT]], [[CERT, "Other"]]])
                    elif k == 12:
                        r["trailers"] = rng.choice([1, 2, 5])
                    elif k == 13:
                        r["pm"] = rng.choice([0, 1, 2, 3, 4])
                    elif k == 14:
                        f = rng.choice(["cto", "gto"])
                        r[f] = rng.choice([["100"], ["5S"], ["+5"], ["-0m"], ["100", "200"], [""], ["99999999H"], ["000000001H"],
                                           ["12345678901"], ["x"], ["5", "x"], ["1n", "2n"]])
                    else:
                        r["cto"] = [str(rng.randrange(0, 10 ** rng.randint(1, 11)))]
                        r["gto"] = [str(rng.randrange(0, 10 ** rng.randint(1, 9))) + rng.choice(UNITS)]
                seq.append(req_sx(r))
            yield seq

    def gen_seq_targeted(self, rng, tier):
        # targeted sequences: n-fold repeat of the same test, interleaved with another name
        base = req_sx(expect(render(1, 1, 0, 0, 0), "rep", 1, 0, 0, 0, 0, 0))
        other = req_sx(expect(render(1, 1, 0, 0, 0), "other", 1, 0, 0, 0, 0, 0))
        yield ["c12.seq", [base, base, other, base, other]]
        yield ["c12.seq", [base] * 6]
        for k in (1, 2, 3):
            r = expect(render(1, 3, 0, 0, 0), "trl", 1, 0, 1, 0, 0, 0)
            r["trailers"] = k
            yield ["c12.seq", [req_sx(r)]]
        for s in range(7):   # no test name, for every wire shape
            r = expect(render(1, s, 0, 0, 0), "x", 1, 0, 0, 0, 0, 0)
            r["name"] = []
            yield ["c12.seq", [req_sx(r)]]

    def gen_wire(self, rng, tier):
        """requests sent by a real Go client over real listeners (HTTP/1.1, HTTP/1.1+TLS, HTTP/2+TLS, h2c; with and without the
        client certificate made by internal.NewClientCert): what net/http delivers (ProtoMajor, req.TLS, canonical headers,
        parsed query, body, trailers) against the record the model reads.  Only values that survive the wire unchanged
        (no surrounding blanks, methods the client does not rewrite, te absent or `trailers`)."""
        n = 600 if tier == "quick" else 8000
        for i in range(n):
            mode = i % 6
            yield ["c12.wire", mode, req_sx(self.live_request(rng, mode, rng.randrange(7)))]

    def live_request(self, rng, mode, s, name=None):
        """one request for a live kind: a rendering that fits the transport, expectation perturbed in HTTP version / TLS,
        then 0-2 malformations that survive the wire (no surrounding blanks, methods the client does not rewrite, te left alone)"""
        weird_enum = ["0", "4", "7", "+1", "-1", "x", "", "01", "2147483648", "3"]
        weird_bool = ["1", "0", "t", "F", "TRUE", "tRUE", "yes", ""]
        cts = ["application/grpc", "application/grpc+proto", "application/grpc-web", "application/grpc-web+json", "application/grpcx",
               "application/connect+proto", "application/json", "application/", "text/plain", "", "application/proto; charset=utf-8"]
        if True:
            v, t = MODE_AXES[mode]
            c, z = rng.randrange(2), rng.randrange(6)
            r = render(v, s, c, z, t)
            get, p = SHAPE_AXES[s]
            ev, et = v, t
            if rng.random() < 0.3:
                ev = rng.randrange(3)
            if rng.random() < 0.4:
                et = rng.randrange(3)
            r = expect(r, name or rng.choice(["t", "A/b"]), ev, get, p, c, z, et)
            for _ in range(rng.choice([0, 0, 1, 2])):
                k = rng.randrange(9)
                if k == 0:
                    r["name"] = rng.choice([[], [""], ["t", "u"]])
                elif k == 1:
                    f = rng.choice(["xv", "xp", "xc", "xz"])
                    r[f] = rng.choice([[rng.choice(weird_enum)], [], r[f] + [rng.choice(weird_enum)]])
                elif k == 2:
                    r["xt"] = rng.choice([[rng.choice(weird_bool)], [], r["xt"] + ["true"]])
                elif k == 3:
                    r["xcert"] = rng.choice([[], ["Other"], [CERT, CERT], [""], [CERT]])
                elif k == 4:
                    r["ct"] = rng.choice([[rng.choice(cts)], [], r["ct"] + [rng.choice(cts)]])
                elif k == 5:
                    r["method"] = rng.choice(["GET", "POST", "PUT"])
                    r["body_empty"] = rng.random() < 0.5
                elif k == 6:
                    r["qenc"] = rng.choice([[], ["proto"], ["json"], ["proto", "json"], [""], ["x&y=z"]])
                    r["qcomp"] = rng.choice([[], ["gzip"], ["identity"], ["gzip", "gzip"], ["%"]])
                elif k == 7:
                    if r["method"] != "GET":
                        r["trailers"] = rng.choice([1, 2, 5])
                        r["body_empty"] = False
                else:
                    f = rng.choice(["cto", "gto"])
                    r[f] = rng.choice([["100"], ["5S"], ["+5"], ["-0m"], ["100", "200"], [""], ["99999999H"], ["000000001H"],
                                       ["12345678901"], ["x"], [str(rng.randrange(10 ** 8)) + rng.choice(UNITS)]])
            if r["trailers"] and r["method"] == "GET":
                r["body_empty"] = False     # Go's client drops an empty body (and its trailers) on GET
            return r

    def gen_live(self, rng, tier):
        """requests sent by real Go clients to the servers that createServer builds in reference mode (HTTP/1.1 and HTTP/2
        servers, plain / TLS / TLS with required client certificate; 8 client transports), for all five procedures."""
        # 1. systematic: transport x procedure x announced HTTP version x announced TLS mode, a rendering that fits the procedure
        for mode in range(8):
            v, t = MODE_AXES[mode]
            for proc in range(5):
                for ev in range(3):
                    for et in range(3):
                        s = rng.choice(PROC_SHAPES[proc])
                        c, z = rng.randrange(2), rng.randrange(6)
                        get, p = SHAPE_AXES[s]
                        r = expect(render(v, s, c, z, t), "t", ev, get, p, c, z, et)
                        yield ["c12.live", mode, proc, [req_sx(r)]]
        # 2. requests the unary handlers answer: the timeout as echoed in the response's RequestInfo
        tvals = ["100", "0", "5", "+5", "-0", "", "x", "9999999999", "00000000001", "9223372036854", "9223372036855", "12345678901"]
        gvals = ["5S", "0n", "1H", "99999999H", "2562047H", "2562048H", "5124096H", "000000001H", "+5S", "-0m", "5", "S", "", "5s",
                 "100m", "99999999u", "1 S"]
        n = 2500 if tier == "quick" else 12000
        for i in range(n):
            mode, proc = rng.randrange(8), rng.choice([0, 4])
            v, t = MODE_AXES[mode]
            web = rng.random() < 0.5
            s = rng.choice([5, 6]) if web else 1
            r = expect(render(v, s, 0, 0, t), "echo", v, 0, 2 if web else 0, 0, 0, t)
            if not web:
                r["body_empty"] = True
            k = rng.random()
            if k < 0.8:
                val = rng.choice(gvals) if web else rng.choice(tvals)
                if rng.random() < 0.3:
                    val = (str(rng.randrange(10 ** rng.randint(1, 9))) + rng.choice(UNITS)) if web else str(rng.randrange(10 ** rng.randint(1, 11)))
                if val == val.strip():
                    r["gto" if web else "cto"] = [val]
            if rng.random() < 0.15:
                r["cto" if web else "gto"] = ["7"]        # the other protocol's header: left alone, ignored
            if rng.random() < 0.1:
                r["xp"] = [rng.choice(["1", "2", "3"])]
            yield ["c12.live", mode, proc, [req_sx(r)]]
        # 3. random: 1-3 requests per case (repeats of a test name on the long-lived server), perturbed
        n = 28000 if tier == "quick" else 80000
        for i in range(n):
            mode, proc = rng.randrange(8), rng.randrange(5)
            if rng.random() < 0.3:
                mode, proc = rng.choice([0, 6, 1, 2, 7]), 3      # BidiStream over HTTP/1.1
            names = [rng.choice(["t", "A/b", "x y"]) for _ in range(2)]
            reqs = []
            for _ in range(rng.choice([1, 1, 2, 3])):
                s = rng.choice(PROC_SHAPES[proc]) if rng.random() < 0.8 else rng.randrange(7)
                reqs.append(req_sx(self.live_request(rng, mode, s, rng.choice(names))))
            yield ["c12.live", mode, proc, reqs]

    def gen_events(self, rng, tier):
        """overlapping requests: scripts of BEGIN / END events on one handler"""
        def simple(name, trailers=0):
            r = expect(render(1, 1, 0, 0, 0), name, 1, 0, 0, 0, 0, 0)
            r["trailers"] = trailers
            if not name:
                r["name"] = []
            return req_sx(r)

        def interleavings(n):
            # begins in order, every end after its begin
            def go(next_begin, open_, acc):
                if next_begin == n and not open_:
                    yield list(acc)
                    return
                if next_begin < n:
                    yield from go(next_begin + 1, open_ + [next_begin], acc + [("b", next_begin)])
                for i in open_:
                    yield from go(next_begin, [j for j in open_ if j != i], acc + [("e", i)])
            yield from go(0, [], [])

        # bounded-exhaustive: every interleaving of n requests x every assignment of two test names (one request with trailers)
        n = 3 if tier == "quick" else 4
        for pattern in itertools.product("ab", repeat=n):
            for il in interleavings(n):
                yield ["c12.events", [[0, simple(pattern[i], trailers=(2 if i == 1 else 0))] if k == "b" else [1, i] for k, i in il]]
        # the seeded interleaving, spelled out: second request of the test while the first is in flight, third afterwards
        yield ["c12.events", [[0, simple("a")], [0, simple("a")], [1, 0], [1, 1], [0, simple("a")], [1, 2]]]
        # a nameless request in between is rejected at once and does not count
        yield ["c12.events", [[0, simple("a")], [0, simple("")], [0, simple("a")], [1, 2], [1, 0]]]
        # random: up to 7 general requests (the c12.live perturbations), three names, not all ended
        m = 3000 if tier == "quick" else 30000
        for _ in range(m):
            k = rng.randint(2, 7)
            names = ["t", "A/b", "x y"]
            evs, open_, begun = [], [], 0
            while begun < k or (open_ and rng.random() < 0.8):
                if begun < k and (not open_ or rng.random() < 0.55):
                    r = self.live_request(rng, rng.randrange(6), rng.randrange(7), rng.choice(names))
                    r["pm"], r["tls"] = rng.choice([1, 2, 2, 3]), rng.choice([[], [[]], [[CERT]]])
                    evs.append([0, req_sx(r)])
                    if r["name"] and r["name"][0] != "":
                        open_.append(begun)
                    begun += 1
                elif open_:
                    i = rng.choice(open_)
                    open_.remove(i)
                    evs.append([1, i])
            yield ["c12.events", evs]

    # ------------------------------------------------------------------
    # the runner's side: batches of test cases sharing one server instance through the real runTestCasesForServer
    OWN = [["X-Own", ["v"]], ["x-data-bin", ["AQID", "BA"]], ["X-Own", ["w", ""]], ["accept-thing", []], ["x-expected", ["no"]],
           ["X-Test-Case-Nam", ["almost"]], ["x-expec", ["t"]]]

    @staticmethod
    def rcase(name, v, p, c, z, st, get, own=(), raw=None):
        return [name, v, p, c, z, st, 1 if get else 0, [list(h) for h in own], [] if raw is None else [[list(h) for h in raw]]]

    def gen_runner(self, rng, tier):
        """c12.runner: scripted server process + recording client.  Instance = (reference server?, useTLS, useTLSClientCerts,
        certificate in the server's response?, client credentials passed?)."""
        # 1. bounded-exhaustive: every (codec, compression, GET) of a first case x every (codec, compression, GET) of a second
        #    one, a third with a raw request behind them - what is carried from one iteration to the next shows here
        combos = [(c, z, g) for c in (1, 2) for z in range(1, 7) for g in (0, 1)]
        k = 0
        for a in combos:
            for b in combos:
                k += 1
                inst = [1, 0, 0, 0, 0] if k % 3 else [1, 1, 1, 1, 1]
                v = 1 + k % 3
                yield ["c12.runner", inst, [
                    self.rcase("s/a", v, 1, a[0], a[1], 1, a[2]),
                    self.rcase("s/b", v, 1, b[0], b[1], 1, b[2], own=[self.OWN[k % len(self.OWN)]]),
                    self.rcase("s/c", v, 1, 1 + k % 2, 1 + k % 6, 1, 0, raw=[self.OWN[(k + 1) % len(self.OWN)]])]]
        # 2. every instance (32) x protocol x version: a batch of four differing in codec / compression / stream type
        for bits in itertools.product((0, 1), repeat=5):
            for p in (1, 2, 3):
                for v in (1, 2, 3):
                    cs = []
                    for j in range(4):
                        st = rng.randint(1, 5)
                        get = p == 1 and st == 1 and rng.random() < 0.5
                        cs.append(self.rcase("t/%d" % j, v, p, rng.randint(1, 2), rng.randint(1, 6), st, get,
                                             own=rng.sample(self.OWN, rng.randint(0, 2)),
                                             raw=rng.sample(self.OWN, rng.randint(0, 2)) if rng.random() < 0.3 else None))
                    yield ["c12.runner", list(bits), cs]
        # 3. random batches of 1-7, names of several shapes, empty batch
        yield ["c12.runner", [1, 0, 0, 0, 0], []]
        n = 2500 if tier == "quick" else 30000
        for _ in range(n):
            bits = [1 if rng.random() < 0.85 else 0] + [rng.randint(0, 1) for _ in range(4)]
            p, v = rng.randint(1, 3), rng.randint(1, 3)
            cs = []
            for j in range(rng.randint(1, 7)):
                st = rng.randint(1, 5)
                get = p == 1 and st == 1 and rng.random() < 0.5
                cs.append(self.rcase(rng.choice(["s/%d", "Suite/sub/case %d", "%d"]) % j, v, p, rng.randint(1, 2), rng.randint(1, 6),
                                     st, get, own=rng.sample(self.OWN, rng.randint(0, 3)),
                                     raw=rng.sample(self.OWN, rng.randint(0, 2)) if rng.random() < 0.25 else None))
            yield ["c12.runner", bits, cs]

    def gen_runlive(self, rng, tier):
        """c12.runlive: the same batches through the real in-process reference client to the real in-process reference
        server (one server per batch): the headers each case was sent with and whether the server wrote feedback."""
        def batch(v, p, tls, k):
            cs = []
            sts = [1, 2, 3, 4] + ([5] if v == 2 else [])
            for j in range(k):
                st = sts[j % len(sts)] if j < len(sts) and rng.random() < 0.7 else rng.choice(sts)
                get = p == 1 and st == 1 and rng.random() < 0.5
                # (GET under identity only, as in the shipped suites: the reference client leaves small GETs uncompressed)
                cs.append(self.rcase("live/%d" % j, v, p, rng.randint(1, 2), 1 if get else rng.randint(1, 6), st, get))
            inst = [1, 1 if tls else 0, 1 if tls == 2 else 0, 1 if tls else 0, 1 if tls == 2 else 0]
            return ["c12.runlive", inst, cs]
        # every instance shape that can be run here (HTTP/1.1 and HTTP/2; gRPC needs HTTP/2) x TLS mode
        shapes = [(v, p, tls) for v in (1, 2) for p in (1, 2, 3) for tls in (0, 1, 2) if not (p == 2 and v == 1)]
        for v, p, tls in shapes:
            yield batch(v, p, tls, 4)
        # Connect GET next to POST under both codecs in one batch (what the first request of a batch must not decide)
        for v in (1, 2):
            yield ["c12.runlive", [1, 0, 0, 0, 0], [self.rcase("g/a", v, 1, 1, 2, 1, 0), self.rcase("g/b", v, 1, 2, 1, 1, 1),
                                                     self.rcase("g/c", v, 1, 1, 1, 1, 1), self.rcase("g/d", v, 1, 2, 4, 3, 0)]]
        n = 12 if tier == "quick" else 300
        for _ in range(n):
            v, p, tls = rng.choice(shapes)
            yield batch(v, p, tls, rng.randint(3, 6))

    def generate(self, rng, tier):
        # chunks of 36 renderings (one version x shape x codec slice): small enough for the shrinker
        for e in range(N_AXES):
            for i in range(0, N_ACTUAL, 36):
                yield ["c12.matrix", e, list(range(i, i + 36))]
        for a in range(N_ACTUAL):
            yield ["c12.render", a, rng.randrange(N_AXES)]
        for e in range(N_AXES):
            yield ["c12.render", rng.randrange(N_ACTUAL), e]
        yield from self.gen_timeouts(rng, tier)
        yield from self.gen_seq(rng, tier)
        yield from self.gen_seq_targeted(rng, tier)
        yield from self.gen_print(rng, tier)
        yield from self.gen_events(rng, tier)
        yield from self.gen_wire(rng, tier)
        yield from self.gen_live(rng, tier)
        yield from self.gen_runner(rng, tier)
        yield from self.gen_runlive(rng, tier)


PROP = C12()
