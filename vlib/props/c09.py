"""C09 — length-prefixed message framing survives any chunking and detects truncation."""
import itertools
import json
import struct
from ..core import Prop

EOF, BLOCK, FAIL = 0, 1, 2


def frame(m):
    return struct.pack(">I", len(m) & 0xFFFFFFFF) + m


def stream(ms):
    return b"".join(frame(m) for m in ms)


def compositions(n):
    """all ways to cut n bytes into consecutive reads (2^(n-1) of them; [[]] for n = 0)"""
    if n == 0:
        yield []
        return
    for bits in range(1 << (n - 1)):
        out, run = [], 1
        for i in range(n - 1):
            if bits >> i & 1:
                out.append(run)
                run = 1
            else:
                run += 1
        out.append(run)
        yield out


def varint(n):
    out = bytearray()
    while True:
        b = n & 0x7F
        n >>= 7
        if n:
            out.append(b | 0x80)
        else:
            out.append(b)
            return bytes(out)


def wire_msg(rng, size_hint):
    """a valid protobuf wire-format message (unknown fields of google.protobuf.Empty) of roughly that size"""
    if size_hint <= 1:
        return b""
    if size_hint == 2:
        return b"\x08" + bytes([rng.randrange(128)])
    n = max(0, size_hint - 2 - (1 if size_hint - 2 > 127 else 0))
    return b"\x0a" + varint(n) + bytes(rng.randrange(256) for _ in range(n))


def rand_sched(rng, n, boundaries=()):
    """a read schedule for about n bytes"""
    mode = rng.randrange(7)
    if mode == 0:
        return []                                   # everything in one read
    if mode == 1 and n <= 600:
        return [1] * n                              # byte by byte
    if mode == 2:                                   # reads ending exactly on frame boundaries
        out, last = [], 0
        for b in boundaries:
            if b > last and rng.random() < 0.8:
                out.append(b - last)
                last = b
        return out
    if mode == 3:                                   # reads spanning several frames
        return [rng.randint(1, max(1, 2 * n)) for _ in range(rng.randint(1, 4))]
    hi = rng.choice([2, 3, 7, 64, 1000])
    out, tot = [], 0
    while tot < n and len(out) < 400:
        k = 0 if (mode >= 5 and rng.random() < 0.25) else rng.randint(1, hi)   # zero-length reads too
        out.append(k)
        tot += k
    return out


def boundaries_of(ms):
    out, p = [], 0
    for m in ms:
        out.append(p + 4)
        p += 4 + len(m)
        out.append(p)
    return out


# ---- JSON values (objects/arrays whose compact form is what json.Marshal prints) ----
def jvalue(rng, depth=0):
    r = rng.random()
    if depth < 3 and r < 0.3:
        keys = sorted(set(rng.choice(["a", "b", "k{", "x]y", "q\\\"", "e\\\\", "n\\n", " s "]) for _ in range(rng.randint(0, 3))))
        return ("obj", [(k, jvalue(rng, depth + 1)) for k in keys])
    if depth < 3 and r < 0.5:
        return ("arr", [jvalue(rng, depth + 1) for _ in range(rng.randint(0, 3))])
    if r < 0.75:
        return ("str", rng.choice(["", "v", "{", "}", "[ ]", "a\\\"b", "\\\\", "tab\\n", "{\\\"k\\\":1}", "  "]))
    if r < 0.85:
        return ("lit", rng.choice(["true", "false", "null"]))
    return ("lit", str(rng.randint(0, 999)))


def jtop(rng):
    v = jvalue(rng, 0)
    while v[0] not in ("obj", "arr"):
        v = jvalue(rng, 0)
    return v


def jtext(rng, v, ws):
    def sp():
        return rng.choice(["", "", " ", "\n", "\t ", "\r\n"]) if ws else ""
    if v[0] == "obj":
        return "{" + sp() + ",".join(sp() + '"' + k + '"' + sp() + ":" + sp() + jtext(rng, x, ws) + sp() for k, x in v[1]) + "}"
    if v[0] == "arr":
        return "[" + sp() + ",".join(sp() + jtext(rng, x, ws) + sp() for x in v[1]) + "]"
    if v[0] == "str":
        return '"' + v[1] + '"'
    return v[1]


# ---- requests for the peers' main loops (c09.client / c09.server) ----
def pb_int(field, v):
    return varint(field << 3) + varint(v)


def pb_str(field, b):
    return varint((field << 3) | 2) + varint(len(b)) + b


SERVICE = "connectrpc.conformance.v1.ConformanceService"


def client_req(name, shape, use_json, rng):
    """one ClientCompatRequest in the wire variant, as (message bytes, test name).  Every shape is
    answered at once: 0 names no HTTP version (error result), 1 a unary call to 127.0.0.1:1, a closed
    port (connection refused), 2 as 0 with another protocol field; JSON shapes vary the spacing
    (3 = the multi-line form protojson itself writes)."""
    n = name.encode()
    if not use_json:
        if shape == 1:
            m = (pb_str(1, n) + pb_int(2, 1) + pb_int(3, 1) + pb_int(4, 1) + pb_str(6, b"127.0.0.1") + pb_int(7, 1) +
                 pb_str(11, SERVICE.encode()) + pb_str(12, b"Unary") + pb_int(13, 1))
        elif shape == 2:
            m = pb_str(1, n) + pb_int(3, rng.choice([1, 2, 3]))
        else:
            m = pb_str(1, n) if n else b""
        return m, n
    if shape == 1:
        t = ('{"testName":"%s","httpVersion":"HTTP_VERSION_1","protocol":"PROTOCOL_CONNECT","codec":"CODEC_PROTO",'
             '"host":"127.0.0.1","port":1,"service":"%s","method":"Unary","streamType":"STREAM_TYPE_UNARY"}' % (name, SERVICE))
    elif shape == 2:
        t = '{"testName": "%s", "protocol": %d}' % (name, rng.choice([1, 2, 3]))
    elif shape == 3:
        t = '{\n  "testName": "%s",\n  "codec": "CODEC_JSON"\n}' % name
    else:
        t = '{"testName":"%s"}' % name if name else rng.choice(["{}", "{ }"])
    return t.encode(), n


def peer_stream(msgs, use_json, rng=None):
    if use_json:
        return b"".join(m + (b"\n" if rng is None else rng.choice([b"\n", b"\n", b"\n\n", b" \n", b"\r\n"])) for m in msgs)
    return stream(msgs)


def peer_bounds(msgs, use_json):
    out, p = [], 0
    for m in msgs:
        p += len(m) + (1 if use_json else 4)
        out.append(p)
    return out


def server_req(ver, limit, use_json, style=0):
    """one ServerCompatRequest and the fields that a probe of the server it starts can see: [http_version, limit]"""
    obs = [ver, limit]
    if not use_json:
        return pb_int(1, 1) + pb_int(2, ver) + (pb_int(6, limit) if limit else b""), obs
    if style == 0:
        t = '{"httpVersion":%d%s}' % (ver, ',"messageReceiveLimit":%d' % limit if limit else "")
    else:
        t = '{\n  "protocol": "PROTOCOL_CONNECT",\n  "httpVersion": "HTTP_VERSION_%d",\n  "messageReceiveLimit": %d\n}' % (ver, limit)
    return t.encode(), obs


BAD_HOSTS = ["%zz", "%z", "a%zz", "%zz%"]


def grpc_client_req(name, shape, use_json, rng):
    """one ClientCompatRequest for the gRPC reference client.  That client dials for EVERY request and waits
    up to 5 s for the connection, so every shape names a host grpc.NewClient refuses at once (an invalid URL
    escape: no resolver, no dial, no timer) - the response is an error result carrying the test name."""
    n = name.encode()
    host = BAD_HOSTS[shape % len(BAD_HOSTS)]
    if not use_json:
        m = (pb_str(1, n) if n else b"") + (pb_int(3, 2) if shape == 2 else b"") + pb_str(6, host.encode())
        if shape == 1:
            m += pb_int(7, 1) + pb_str(11, SERVICE.encode()) + pb_str(12, b"Unary") + pb_int(13, 1)
        return m, n
    if shape == 1:
        t = ('{"testName":"%s","httpVersion":"HTTP_VERSION_2","protocol":"PROTOCOL_GRPC","codec":"CODEC_PROTO",'
             '"host":"%s","port":1,"service":"%s","method":"Unary","streamType":"STREAM_TYPE_UNARY"}' % (name, host, SERVICE))
    elif shape == 2:
        t = '{"testName": "%s", "protocol": 2, "host": "%s"}' % (name, host)
    elif shape == 3:
        t = '{\n  "testName": "%s",\n  "host": "%s",\n  "codec": "CODEC_PROTO"\n}' % (name, host)
    else:
        t = ('{"testName":"%s","host":"%s"}' % (name, host)) if name else '{ "host":"%s"}' % host
    return t.encode(), n


def grpc_server_req(kind, limit, use_json, style=0):
    """one ServerCompatRequest for the gRPC reference server and what a probe of the server it starts can see:
    [kind, limit] with kind 2 = protocol gRPC over HTTP/2 (bare grpc-go server), 1 = gRPC-Web (net/http + h2c)"""
    obs = [kind, limit]
    proto, ver = (2, 2) if kind == 2 else (3, 1 + style % 2)
    if not use_json:
        return pb_int(1, proto) + pb_int(2, ver) + pb_int(6, limit), obs
    if style == 0:
        t = '{"protocol":%d,"httpVersion":%d,"messageReceiveLimit":%d}' % (proto, ver, limit)
    else:
        t = ('{\n  "protocol": "%s",\n  "httpVersion": "HTTP_VERSION_%d",\n  "messageReceiveLimit": %d\n}'
             % ("PROTOCOL_GRPC" if kind == 2 else "PROTOCOL_GRPC_WEB", ver, limit))
    return t.encode(), obs


class C09(Prop):
    id = "C09"
    props = "C09_Props"
    coq_files = ("Base", "C09_Consts", "C09_Model", "C09_Spec", "C09_Proofs", "C09_ProofsW", "C09_ProofsJ", "C09_ProofsS", "C09_ProofsC", "C09_ProofsL", "C09_ProofsG", "C09_Props")
    models = ("C09_Model",)
    consts = ("int", "cc")
    packages = {"int": "internal", "cc": "internal/app/connectconformance",
                "rc": "internal/app/referenceclient", "rs": "internal/app/referenceserver",
                "gc": "internal/app/grpcclient", "gs": "internal/app/grpcserver"}
    kinds = {"c09.raw": "int", "c09.read": "int", "c09.stalls": "int", "c09.stall": "int", "c09.dec": "int", "c09.write": "int",
             "c09.json": "int", "c09.jsonrt": "int", "c09.wsink": "int", "c09.pipe": "int", "c09.jsonwrite": "int",
             "c09.client": "rc", "c09.server": "rs", "c09.grpcclient": "gc", "c09.grpcserver": "gs", "c09.limits": "cc"}
    rule = ("scripted io.Reader (data, read schedule, error-with-last-data flag, tail = EOF | other error | block for ever) driven through "
            "readDelimitedMessageRaw (c09.raw), ReadDelimitedMessage (c09.read), codec.NewDecoder(..).DecodeNext binary (c09.dec) and JSON "
            "(c09.json, c09.jsonrt) until the first error: ALL compositions into reads of every small stream (<= 12 bytes quick, <= 14 thorough) "
            "and of every truncation of it; random streams of 0-5 messages (sizes 0,1,3,4,5,127,128,<=4k) with byte-by-byte, boundary-aligned, "
            "frame-spanning and zero-length-read schedules, every truncation point of medium streams; limits 0..16 MiB with prefixes limit-1, limit, "
            "limit+1, 2^24, 2^31, 2^32-1 (largest buffer handed to Read must stay within max(4, limit); allocation volume measured only when the "
            "stream announces a length ABOVE the limit). Stalled peers (c09.stall, ~1200 quick, 300 ms timeout, all of a file evaluated concurrently): "
            "stall after 0..3 prefix bytes in every split; stall before the first body byte with the prefix split at every position (4, 1+3, 2+2, "
            "3+1, 1+1+2, ..., also with zero-length reads) x announced sizes 0..5, 300, 70000, 2^20 x both entry points x 0-2 messages in front; "
            "stall mid-body after every split of prefix + received body bytes (sizes 2..5 quick, ..7 thorough); random. Every case runs under a "
            "watchdog (max(50 x its timeout, 10 s)): a case that does not finish answers (hang), which the model never does. Writer side: "
            "writeDelimitedMessageRaw / WriteDelimitedMessage / protoEncoder.Encode on a scripted io.Writer that fails after `room` bytes and then "
            "either keeps failing or works again, every failure point of small streams (c09.wsink), encode -> pipe -> decode in both directions "
            "with the writer failing anywhere (c09.pipe), jsonEncoder.Encode incl. the dropped newline error (c09.jsonwrite). Compared: message "
            "bytes, error kind, unread byte count, the three counts of a timeout (unit, received, expected - parsed out of the error as numbers), "
            "bytes on the wire, number of successful Encode calls. The peers' MAIN LOOPS with a scripted stdin (one chunk per Read, never more) and "
            "captured stdout, --json and binary: referenceclient Run / RunInReferenceMode (c09.client, ~1070 quick) - three requests in ONE read, "
            "split at every byte, byte by byte, at the message boundaries, two-then-one, three-part splits on a grid, every cut of the stream, "
            "mixed request shapes (immediate error result, refused connection to 127.0.0.1:1, multi-line JSON, empty and repeated requests), "
            "random streams x random partitions; -p 1: the responses' test names compared as a SEQUENCE (the code serialises them), -p 4/16: as a "
            "multiset; plus how Run returned (nil / unexpected EOF / I/O error). referenceserver Run / RunInReferenceMode (c09.server, ~235 quick, "
            "evaluated concurrently): its one ServerCompatRequest split at every byte / byte by byte / with bytes behind it / random partitions, "
            "stdin then staying open (blocking) or ending; observed: the ServerCompatResponse names a port and a probe of that port finds the "
            "http_version (h2c prior knowledge accepted or not) and message_receive_limit (300-byte unary request refused or served) of the request "
            "sent; every truncation gives an error exit (or, with stdin kept open, a server waiting in Read), never an answer. "
            "The gRPC reference peers the same way, against the same model functions: grpcclient Run / RunWithTrace (c09.grpcclient, ~1700 quick; "
            "every request names a host grpc.NewClient refuses on the spot, so it is answered at once with an error result carrying its test "
            "name; plus a 30-request stream > 1 KiB - several 512-byte refills of json.Decoder - in one read, 600-byte reads, one request per "
            "read, byte by byte, for both clients), grpcserver Run / RunWithTrace (c09.grpcserver, ~240 quick; the probe sees protocol gRPC vs "
            "gRPC-Web - a plain HTTP/1.1 request answered or not - and the receive limit - a 300-byte gRPC unary call refused with "
            "ResourceExhausted or served). The runner's WIRING of its two limits (c09.limits, ~250 quick): the real runTestCasesForServer "
            "(server response, 1 MB) and the real runClient + clientProcessRunner.consumeOutput (client response, 16 MB) over a scripted peer "
            "stdout announcing limit-1, limit, limit+1 of BOTH limits on BOTH readers, 2 MB, 2^31, 2^32-1 and small sizes, with the body absent / "
            "9 bytes / complete (virtual: zeros generated on demand, so 16 MB costs nothing unless read), prefix split 4, 1+3, 2+2, 3+1, 1+1+1+1, "
            "then EOF or an I/O error (no stall: no time-out is waited for); compared: accepted (test case sent on / pending callback got the "
            "response) vs unexpected EOF vs I/O error vs rejected with NOTHING taken behind the prefix, body bytes handed out, largest buffer "
            "handed to Read (4 for a rejected prefix). "
            "non-trivial = at least one message delivered or an error other than a clean end")
    trusted_base = ("Coq 8.16.1 kernel", "extraction (ExtrOcamlBasic only) + ocaml/driver.ml",
                    "vlib generators/comparator, Go overlay harness incl. the scripted reader and writer (same semantics as C09_Model.src_read / sink_write), "
                    "the scripted peer process / client of c09.limits and its virtual message body (a valid message of any exact size: field 1 + unknown-field padding)",
                    "modelled not verified: proto.Marshal/Unmarshal, protojson, the goroutine/timer of the timeout path, "
                    "encoding/json's scanner (an oracle in the JSON theorems; a bracket-depth scanner stands in for it when the model is run, and "
                    "for that scanner the stability hypothesis is proved)")
    assumptions = ("message lengths are below 2^32 (the prefix is uint32(len))",
                   "a stalled peer stalls for good (the documented completion race exactly at the deadline is not explored)",
                   "writers: one failure point, after which the writer either keeps failing (closed pipe) or accepts everything again (transient error); "
                   "the binary writer theorems hold for both, the JSON encoder and the pipe theorems are stated for the one that keeps failing (the "
                   "code drops the error of the newline Write, so on a writer that heals exactly there the next value follows without a newline)",
                   "JSON variant: hypotheses on the scanner oracle (scanner_ok: a written value is recognised as soon as its last byte is buffered, "
                   "whatever follows, and no proper prefix of it is; scanner_skips_newline; scanner_stable: a verdict is not revised when more bytes "
                   "arrive) are exercised by the differential run, not proved of encoding/json; top-level scalars are outside the modelled domain; "
                   "the JSON decoder has no size limit and no timeout (a stalled peer blocks it), as in the code")

    level_text = ("Machine-checked proof (Coq) that the model of timeoutDelimitedReader.read / readDelimitedMessageRaw / io.ReadFull-based "
                  "protoDecoder returns, for EVERY byte string, read schedule, error-delivery mode and ending, the schedule-free whole-stream parse; "
                  "hence exactly the written message sequence for all message lists, unexpected EOF for every cut inside a prefix or body, an oversize "
                  "rejection with the source exactly past the prefix and no buffer above max(4, limit) ever made, and the exact progress counts when "
                  "the peer stalls. Writer side: whatever the point at which the writer fails, the wire carries a prefix of the proper stream, and "
                  "encode -> decode gives back the first k messages unchanged with a clean end iff the failure fell between frames (both directions). "
                  "JSON variant (round trip, every cut point, every ending, failing writer, schedule independence for every byte string) proved "
                  "relative to an oracle for encoding/json's scanner; unconditional for the bracket scanner the model is run with. "
                  "The peers' main loops (decoder created once per stream, DecodeNext until EOF; the server's single DecodeNext) answer exactly the "
                  "sequence sent for every chunking in both variants, derived from the decoders' chunking theorems; a decoder re-created per request "
                  "is proved to lose every request but the first whenever one read delivers a whole JSON stream. The gRPC reference peers' loops "
                  "are decided by the same model functions (grpc_peers_run_the_same_loops). The runner's wiring - which of the two regenerated "
                  "constants each of its two readers hands to ReadDelimitedMessage - is a table in the model (reader_limit); limits_wired: each "
                  "reader rejects exactly the announcements above ITS documented limit (client output 16 MB, server response 1 MB) at the prefix, "
                  "body unread, no buffer but the 4 prefix bytes, and takes everything up to it, for every body, schedule and ending. "
                  "The model is tied to the Go code by a bounded-exhaustive plus random differential run on every check.")
    level_note = ("Trusted: Coq kernel, extraction, OCaml driver, harness and scripted reader/writer; model-to-code correspondence is sampled "
                  "(all read compositions of streams <= 12/14 bytes, every writer failure point of small streams), not proved. The timer/goroutine "
                  "mechanics are modelled as 'a read that blocks for ever yields the timeout outcome'; that the error arrives *within* the period is "
                  "only checked with a coarse upper bound (20 x the timeout), and that it arrives at all by a per-case watchdog (max(50 x timeout, 10 s); "
                  "outcome (hang), never produced by the model). A timeout outcome is only accepted when the scripted source had reached its stall point "
                  "within half the timeout of the call's start, otherwise the case is repeated with 4 x the timeout (slow machine). 'Before allocating' is a theorem about the model's buffer list and, on "
                  "the Go side, the largest buffer handed to Read plus a TotalAlloc probe for oversize announcements >= 2 MiB above what was received. "
                  "protoDecoder has no size limit at all (reference peers trust the runner): the limit clause is about ReadDelimitedMessage. "
                  "Theorems named *_partial are relative to the JSON scanner oracle. Main loops: what a request DOES (the RPC) is outside the model - "
                  "a decoded request is projected to its test name / to the started server's http version and receive limit through a table the "
                  "case carries (the harness checks every table entry against the message unmarshalled on its own); a client whose stdin stays "
                  "open (the loop waiting for more) is not driven, the server's is. gRPC client: only requests that fail before dialling are "
                  "driven (a refused connection costs this client 5 s), gRPC server: receive limit 0 is not driven. Limits wiring: that the "
                  "code's two call sites use the constant the table says is SAMPLED by c09.limits (windows around both limits every run), not "
                  "proved; c09.limits is evaluated through a closed form (limits_closed_form proves it equal to the reader for every body) and "
                  "classifies 'rejected' as an error that is neither unexpected EOF nor the scripted I/O error with nothing read behind the "
                  "prefix; stalled peers at these two call sites (the 10 s / 20 s time-outs) are not driven.")
    technique = "Coq proof by induction on the read loop (closed form independent of the schedule); differential model-vs-Go correspondence"
    go_timeout = 600

    def nontrivial(self, case, res):
        return not res.startswith("(() (#656f66 ")          # no message and a clean eof

    def describe(self, case, g, m):
        return "framing: implementation differs from the proved model of the delimited reader/codec"

    # -------------------------------------------------------------- generators
    def stall_cases(self, rng, quick):
        """["c09.stall", max, data, sched, eager, typed]: the peer stalls (blocks for ever) after `data`.
        The progress counter of the reader is shared between the prefix and the body, so what matters is
        how the PREFIX was split over reads when the stall comes before / inside the body."""
        def mx_for(size):
            return rng.choice([m for m in (5, 16, 300, 4096, 1 << 20, 16 << 20) if m >= size])

        def sprinkle(comp):
            out = []
            for k in comp:
                out.extend([0] * rng.randrange(3))
                out.append(k)
            return out + [0] * rng.randrange(2)

        leads = [([], []), ([b"\x08\x01"], [4, 2]), ([b"", b"\x0a\x01z"], [9, 9, 1, 3])]   # (messages in front, their reads)
        big = [300, 70000, 1 << 20]
        # a. stall inside the length prefix after j = 0..3 bytes of it, every split of those bytes
        for lead, lsch in leads[:2]:
            for size in (0, 1, 3, 70000):
                for j in range(4):
                    for comp in compositions(j):
                        yield ["c09.stall", mx_for(size), stream(lead) + struct.pack(">I", size)[:j], lsch + comp, rng.random() < 0.5, rng.randrange(2)]
        # b. stall BEFORE THE FIRST BODY BYTE: the prefix split at every position (4, 1+3, 2+2, 3+1, 1+1+2, ...,
        #    also with zero-length reads in between) x announced sizes 0..5 and large x both entry points
        for lead, lsch in leads:
            for size in [0, 1, 2, 3, 4, 5] + big:
                for comp in compositions(4):
                    for typed in (0, 1):
                        if lead is leads[2][0] and rng.random() < 0.5:
                            continue
                        yield ["c09.stall", mx_for(size), stream(lead) + struct.pack(">I", size), lsch + comp, rng.random() < 0.5, typed]
                    yield ["c09.stall", mx_for(size), stream(lead) + struct.pack(">I", size), lsch + sprinkle(comp), rng.random() < 0.5, rng.randrange(2)]
        # c. stall MID-BODY after j of `size` body bytes: every split of prefix + received body bytes
        for size in ([2, 3, 4, 5] if quick else [2, 3, 4, 5, 6, 7]):
            for j in range(1, size):
                body = bytes(rng.randrange(256) for _ in range(j))
                for comp in compositions(4 + j):
                    yield ["c09.stall", mx_for(size), struct.pack(">I", size) + body, comp, rng.random() < 0.5, rng.randrange(2)]
        for _ in range(60 if quick else 1500):
            size = rng.choice([6, 30, 300, 4096])
            j = rng.randrange(size)
            lead = [wire_msg(rng, rng.choice([0, 2, 5]))] if rng.random() < 0.4 else []
            d = stream(lead) + struct.pack(">I", size) + bytes(rng.randrange(256) for _ in range(j))
            sch = rng.choice(list(compositions(4))) + rand_sched(rng, j) if not lead else rand_sched(rng, len(d), boundaries_of(lead))
            yield ["c09.stall", mx_for(size), d, sch, rng.random() < 0.5, rng.randrange(2)]
        # d. several messages, stall anywhere (typed entries carry valid wire-format messages)
        for i in range(80 if quick else 3000):
            typed = i % 2
            if typed:
                msgs = [wire_msg(rng, rng.choice([0, 2, 5, 30, 300])) for _ in range(rng.randint(1, 3))]
            else:
                msgs = [bytes(rng.randrange(256) for _ in range(rng.choice([0, 1, 2, 5, 30, 300]))) for _ in range(rng.randint(1, 3))]
            st = stream(msgs)
            cut = rng.choice(boundaries_of(msgs) + [0]) if rng.random() < 0.3 else rng.randrange(len(st) + 1)
            yield ["c09.stall", rng.choice([300, 4096, 16 << 20]), st[:cut], rand_sched(rng, cut, boundaries_of(msgs)), rng.random() < 0.5, typed]
        # one small batch through the batch kind (same evaluation; kept for replays of older cases)
        yield ["c09.stalls", [[16, struct.pack(">I", 5) + b"ab", [2, 2, 1], False], [16, b"\x00\x00\x00\x02\x08\x01\x00", [], True],
                              [300, b"", [], False], [4096, struct.pack(">I", 300), [3, 1], True]]]

    def generate(self, rng, tier):
        quick = tier == "quick"
        lim = 12 if quick else 14
        # 1. bounded-exhaustive: every composition of every small stream, every truncation of it
        small_lists = [[], [b""], [b"a"], [b"ab"], [b"abc"], [b"", b""], [b"a", b""], [b"", b"a"], [b"a", b"b"], [b"abcd"],
                       [b"ab", b"c"], [b"", b"", b""], [b"a", b"", b"b"], [b"abcdef"], [b"ab", b"cd"]]
        for ms in small_lists:
            st = stream(ms)
            if len(st) > lim:
                continue
            for comp in compositions(len(st)):
                eager = rng.random() < 0.5
                yield ["c09.raw", 16, st, comp, eager, EOF]
                if len(st) <= 10:
                    yield ["c09.raw", 16, st, comp, not eager, EOF]
            for cut in range(len(st)):
                t = st[:cut]
                if len(t) > (9 if quick else 11):
                    comps = [rand_sched(rng, len(t), boundaries_of(ms)) for _ in range(40)]
                else:
                    comps = compositions(len(t))
                for comp in comps:
                    yield ["c09.raw", 16, t, comp, rng.random() < 0.5, rng.choice([EOF, EOF, FAIL])]
        # the same exhaustive idea through the typed entry points (valid wire messages only)
        typed_lists = [[], [b""], [b"\x08\x01"], [b"", b"\x08\x7f"], [b"\x0a\x01z"], [b"\x08\x01", b""], [b"\x0a\x00", b"\x08\x02"]]
        for ms in typed_lists:
            st = stream(ms)
            for comp in compositions(len(st)):
                if len(st) > 10 and quick and rng.random() < 0.5:
                    continue
                eager = rng.random() < 0.5
                yield ["c09.read", 16, st, comp, eager, EOF]
                yield ["c09.dec", st, comp, eager, EOF]
            for cut in range(len(st)):
                for _ in range(6):
                    sch = rand_sched(rng, cut, boundaries_of(ms))
                    yield ["c09.read", 16, st[:cut], sch, rng.random() < 0.5, rng.choice([EOF, FAIL])]
                    yield ["c09.dec", st[:cut], sch, rng.random() < 0.5, rng.choice([EOF, FAIL])]
        # zero-length reads sprinkled into exhaustive compositions
        for ms in ([b"a"], [b"", b"a"], [b"ab", b"c"]):
            st = stream(ms)
            for comp in compositions(len(st)):
                c2 = []
                for k in comp:
                    c2.extend([0] * rng.randrange(3))
                    c2.append(k)
                yield ["c09.raw", 16, st, c2 + [0, 0], rng.random() < 0.5, EOF]

        # 2. random larger streams
        sizes = [0, 1, 3, 4, 5, 127, 128]
        n_rand = 5000 if quick else 200000
        for i in range(n_rand):
            nm = rng.randint(0, 5)
            big = rng.random() < 0.15
            ms = []
            for _ in range(nm):
                sz = rng.choice(sizes) if rng.random() < 0.7 else rng.randint(0, 4096 if big else 300)
                ms.append(sz)
            kind = rng.choice(["c09.raw", "c09.raw", "c09.read", "c09.dec"])
            if kind == "c09.raw":
                msgs = [bytes(rng.randrange(256) for _ in range(sz)) for sz in ms]
            else:
                msgs = [wire_msg(rng, sz) for sz in ms]
            st = stream(msgs)
            tail = EOF
            r = rng.random()
            if r < 0.35 and len(st) > 0:
                st = st[:rng.randrange(len(st))]                # truncated somewhere
                tail = rng.choice([EOF, EOF, FAIL])
            elif r < 0.45:
                tail = FAIL
            sch = rand_sched(rng, len(st), boundaries_of(msgs))
            mx = rng.choice([4096, 4096, 65535, 1 << 20, 16 << 20, 128, 127, 5])
            if kind == "c09.dec":
                yield [kind, st, sch, rng.random() < 0.5, tail]
            else:
                yield [kind, mx, st, sch, rng.random() < 0.5, tail]
        # every truncation point of a few medium streams
        for _ in range(12 if quick else 200):
            msgs = [bytes(rng.randrange(256) for _ in range(rng.choice([0, 1, 5, 17, 40]))) for _ in range(rng.randint(1, 3))]
            st = stream(msgs)
            for cut in range(len(st) + 1):
                yield ["c09.raw", 64, st[:cut], rand_sched(rng, cut, boundaries_of(msgs)), rng.random() < 0.5, EOF]

        # 3. size limit: exactly at, one above, hostile values; real limits with the body absent
        for mx in [0, 1, 3, 4, 5, 255, 256, 4096, 65535, 65536, 1 << 20, 16 << 20, (1 << 31) - 1]:
            for size in sorted({mx, mx + 1, max(mx - 1, 0), (1 << 31), (1 << 32) - 1, 1 << 24, 0x506F6F70}):
                if size >= 1 << 32:
                    continue
                if (64 << 20) < size <= mx:
                    continue        # within the limit: the code would allocate it (up to 2 GiB) - not on a shared machine
                for lead in ([], [b"xy"]):
                    full = size <= 5000 or (size in (65535, 65536) and not lead)
                    body = bytes(rng.randrange(256) for _ in range(size if full else rng.choice([0, 9])))
                    st = stream(lead) + struct.pack(">I", size) + body + (frame(b"t") if len(body) == size else b"")
                    for sch in ([], [1] * 8, [3, 1, 2, 2], rand_sched(rng, len(st))):
                        yield ["c09.raw", mx, st, sch, rng.random() < 0.5, EOF]
                    if size < 1 << 20 and mx <= 16 << 20 and size != 1:
                        yield ["c09.dec", stream([wire_msg(rng, 3)]) + struct.pack(">I", size) + b"\x08\x01", rand_sched(rng, 14), False, EOF]

        # 4. stalled peers (the harness evaluates all c09.stall cases of a file concurrently)
        for c in self.stall_cases(rng, quick):
            yield c
        for _ in range(4 if quick else 40):
            msgs = [wire_msg(rng, rng.choice([0, 2, 5, 40])) for _ in range(rng.randint(1, 3))]
            st = stream(msgs)
            yield ["c09.dec", st[:rng.randrange(len(st) + 1)], rand_sched(rng, len(st)), False, BLOCK]

        # 5. writers
        for _ in range(150 if quick else 3000):
            valid = rng.random() < 0.6
            ms = [wire_msg(rng, rng.choice(sizes + [300, 70000 if rng.random() < 0.05 else 2])) if valid else
                  bytes(rng.randrange(256) for _ in range(rng.choice(sizes))) for _ in range(rng.randint(0, 4))]
            yield ["c09.write", ms]

        # 6. JSON variant
        jsmall = ["{}", "[]", "{}\n", "{}[]", ' {"a":"}"}\n', '[[]] {}', '{"k{":[]}\n\n', '{} ]', '{}x', ' \n\t', '[{"a":"\\\\"}]', '["\\""]{}']
        for js in jsmall:
            b = js.encode()
            for cut in range(len(b) + 1):
                t = b[:cut]
                comps = compositions(len(t)) if len(t) <= (8 if quick else 11) else [rand_sched(rng, len(t)) for _ in range(30)]
                for comp in comps:
                    yield ["c09.json", t, comp, rng.random() < 0.5, rng.choice([EOF, EOF, EOF, FAIL])]
        for _ in range(1500 if quick else 60000):
            vals = [jtop(rng) for _ in range(rng.randint(0, 4))]
            text = "".join(jtext(rng, v, rng.random() < 0.7) + rng.choice(["\n", "\n", "", " ", "\r\n\n"]) for v in vals).encode()
            tail = EOF
            if rng.random() < 0.4 and text:
                text = text[:rng.randrange(len(text))]
                tail = rng.choice([EOF, EOF, FAIL])
            hi = rng.choice([1, 2, 5, 40, 400])
            sch = [rng.randint(0 if rng.random() < 0.1 else 1, hi) for _ in range(rng.randint(0, 60))]
            yield ["c09.json", text, sch, rng.random() < 0.5, tail]
        for _ in range(500 if quick else 20000):
            vals = [jtext(rng, jtop(rng), False).encode() for _ in range(rng.randint(0, 4))]
            hi = rng.choice([1, 2, 5, 40, 400])
            sch = [rng.randint(1, hi) for _ in range(rng.randint(0, 80))]
            yield ["c09.jsonrt", vals, sch, rng.random() < 0.5]
        for _ in range(2 if quick else 10):
            text = (jtext(rng, jtop(rng), True) + "\n").encode()
            yield ["c09.json", text[:rng.randrange(len(text) + 1)], [1, 2, 3], False, BLOCK]

        # 7. writer side: a writer that fails after `room` bytes (-1: never); encode -> pipe -> decode
        wl = [[], [b""], [b"\x08\x01"], [b"", b""], [b"\x0a\x01z", b""], [b"\x08\x01", b"\x0a\x02ab", b""], [b"\xff"], [b"a", b"bc"]]   # (c09.wsink: + heals flag)
        for ms in wl:
            tot = len(stream(ms))
            for room in range(-1, tot + 2):                     # every failure point, both kinds of writer
                yield ["c09.wsink", ms, room, 0]
                yield ["c09.wsink", ms, room, 1]
        for _ in range(300 if quick else 6000):
            valid = rng.random() < 0.7
            ms = [wire_msg(rng, rng.choice(sizes + [300, 70000 if rng.random() < 0.03 else 2])) if valid else
                  bytes(rng.randrange(256) for _ in range(rng.choice(sizes))) for _ in range(rng.randint(0, 4))]
            tot = len(stream(ms))
            room = -1 if rng.random() < 0.3 else rng.choice([rng.randint(0, tot + 1)] + boundaries_of(ms) + [tot])
            if rng.random() < 0.4 and ms:                       # inside a length prefix: where the two Writes of a frame differ
                i = rng.randrange(len(ms))
                room = len(stream(ms[:i])) + rng.randrange(4)
            yield ["c09.wsink", ms, room, rng.randrange(2)]
        for ms in wl:
            if ms in ([b"\xff"], [b"a", b"bc"]):
                continue                                         # typed writers: wire-format messages only
            st = stream(ms)
            for room in range(-1, len(st) + 1):
                got = len(st) if room < 0 else min(room, len(st))
                comps = list(compositions(got)) if got <= 7 else [rand_sched(rng, got, boundaries_of(ms)) for _ in range(20)]
                for comp in comps:
                    yield ["c09.pipe", rng.randrange(2), 16, ms, room, comp, rng.random() < 0.5]
        for _ in range(1200 if quick else 40000):
            ms = [wire_msg(rng, rng.choice(sizes + [rng.randint(0, 600)])) for _ in range(rng.randint(0, 5))]
            st = stream(ms)
            room = -1 if rng.random() < 0.5 else rng.choice([rng.randint(0, len(st))] + boundaries_of(ms))
            got = len(st) if room < 0 else min(room, len(st))
            yield ["c09.pipe", rng.randrange(2), rng.choice([4096, 1 << 20, 16 << 20, 128, 5]), ms, room,
                   rand_sched(rng, got, boundaries_of(ms)), rng.random() < 0.5]
        for _ in range(300 if quick else 6000):
            vals = [jtext(rng, jtop(rng), False).encode() for _ in range(rng.randint(0, 4))]
            yield ["c09.jsonwrite", vals, rng.choice([-1, -1, 0, 1, 2])]

        # 8. the peers' MAIN LOOPS: referenceclient Run / RunInReferenceMode and referenceserver Run /
        #    RunInReferenceMode with a scripted stdin, both wire variants
        for c in self.loop_cases(rng, quick):
            yield c
        # 9. the same for the gRPC reference peers (grpcclient / grpcserver Run, RunWithTrace)
        for c in self.loop_cases(rng, quick, grpc=True):
            yield c
        # 10. the runner's wiring of the two size limits to its two readers
        for c in self.limit_cases(rng, quick):
            yield c

    def limit_cases(self, rng, quick):
        """["c09.limits", side, size, avail, sched, tail]: side 0 = the real runTestCasesForServer reading the
        server's response (1 MB), 1 = the real runClient/consumeOutput reading a client response (16 MB); the
        peer's stdout announces `size`, delivers `avail` <= size bytes of a valid message of that size, then ends.
        Every run: the windows limit-1, limit, limit+1 around BOTH limits on BOTH sides, 2 MB, 2^31, 2^32-1,
        with the body absent / 9 bytes / complete (virtual: nothing is copied unless the code reads it)."""
        mb = 1 << 20
        windows = [mb - 1, mb, mb + 1, 2 * mb, 16 * mb - 1, 16 * mb, 16 * mb + 1, 1 << 31, (1 << 32) - 1]
        small = [0, 3, 4, 5, 131, 132, 133, 134, 300, 70000]
        scheds = [[], [1, 1, 1, 1], [2, 2], [3, 1], [1, 3], [4, 1], [0, 4, 0], [4, 4, 1], [9]]
        for side in (0, 1):
            lim = mb if side == 0 else 16 * mb
            for size in windows + small:
                for avail in sorted({0, min(size, 9), size}):
                    if avail > 16 * mb + 1:
                        continue
                    heavy = avail == size and mb - 1 <= size <= lim     # the body really is read: once per size
                    for tail in ((EOF,) if heavy else (EOF, FAIL)):
                        yield ["c09.limits", side, size, avail, rng.choice(scheds), tail]
        for _ in range(60 if quick else 600):
            side = rng.randrange(2)
            size = max(0, rng.choice([mb, 16 * mb, 16 * mb, mb, 300, 5000]) + rng.randint(-3, 3))
            if size in (1, 2):
                size = 3
            avail = rng.choice([0, 0, min(size, rng.randint(1, 40)), size if size <= 2 * mb else 0])
            sch = [rng.randint(0, 5) for _ in range(rng.randint(0, 6))]
            yield ["c09.limits", side, size, avail, sch, rng.choice([EOF, EOF, FAIL])]

    def loop_cases(self, rng, quick, grpc=False):
        """["c09.client", json, p, ref, data, sched, eager, tail, table] and
        ["c09.server", json, ref, data, sched, eager, tail, table]"""
        def table_of(pairs):
            seen, out = set(), []
            for m, n in pairs:
                if m not in seen:
                    seen.add(m)
                    out.append([m, n])
            return out

        ckind, skind = ("c09.grpcclient", "c09.grpcserver") if grpc else ("c09.client", "c09.server")
        client_req_ = grpc_client_req if grpc else client_req
        server_req_ = grpc_server_req if grpc else server_req
        quick = quick or grpc          # the gRPC peers share the loops' model: the quick shapes in both tiers

        def client(use_json, pairs, data, sched, p=1, eager=None, tail=EOF):
            return [ckind, use_json, p, rng.randrange(2), data, sched,
                    rng.random() < 0.5 if eager is None else eager, tail, table_of(pairs)]

        for use_json in (0, 1):
            # a. THREE requests: in one read; split at every byte; byte by byte; at the message boundaries;
            #    two then one; one then two; every three-part split on a coarse grid; p = 1 (sequence) and 4 (multiset)
            pairs = [client_req_(n, 0, use_json, rng) for n in ("s/a", "s/b", "s/c")]
            msgs = [m for m, _ in pairs]
            data = peer_stream(msgs, use_json)
            b = peer_bounds(msgs, use_json)
            fixed = [[], [1] * len(data), [b[0], b[1] - b[0]], [b[1]], [b[0]], [b[1], len(data)], [len(data)], [len(data) + 5]]
            for sch in fixed:
                for eager in (False, True):
                    yield client(use_json, pairs, data, sch, 1, eager)
                yield client(use_json, pairs, data, sch, 4)
            for k in range(1, len(data)):
                yield client(use_json, pairs, data, [k], 1)
                if k % 3 == 0:
                    yield client(use_json, pairs, data, [k], 4)
                    yield client(use_json, pairs, data, [k, 1], 1)          # ... then one byte, then the rest
            step = 3 if quick else 1
            for i in range(1, len(data), step):
                for j in range(i + 1, len(data), step):
                    yield client(use_json, pairs, data, [i, j - i], 1)
            # a'. a LONG stream (about 30 requests, > 1 KiB: several refills of json.Decoder's 512-byte reads): one
            #     read for everything, 600-byte reads, one request per read, byte by byte, random partitions
            lpairs = [client_req_("l/%d" % i, [0, 2, 3, 0][i % 4], use_json, rng) for i in range(30)]
            lmsgs = [m for m, _ in lpairs]
            ldata = peer_stream(lmsgs, use_json)
            lb = peer_bounds(lmsgs, use_json)
            lper = [lb[0]] + [lb[i] - lb[i - 1] for i in range(1, len(lb))]
            for sch in ([], [600] * 4, [512, 512], lper, [1] * len(ldata), [lb[9], lb[19] - lb[9]], rand_sched(rng, len(ldata), lb)):
                yield client(use_json, lpairs, ldata, sch, 1)
            yield client(use_json, lpairs, ldata, [], 4)
            cut = rng.randrange(1, len(ldata))
            yield client(use_json, lpairs, ldata[:cut], rng.choice([[], [600] * 4]), 1, None, EOF)
            # b. stdin ends inside / in front of / behind a request: every cut of the same stream
            for cut in range(len(data)):
                for sch in ([], [1] * cut, rand_sched(rng, cut, b)):
                    yield client(use_json, pairs, data[:cut], sch, 1, None, rng.choice([EOF, EOF, FAIL]))
            # c. mixed shapes (a refused connection, multi-line JSON, an empty message, a repeated request)
            names = ["m/1", "m/{2}", "", "m/4 ]", "m/1", "m/5"]
            shapes = [1, 3, 0, 2, 1, 0]
            pairs = []
            for n, sh in zip(names, shapes):
                if pairs and n == "m/1":
                    pairs.append(pairs[0])
                else:
                    pairs.append(client_req_(n, sh, use_json, rng))
            msgs = [m for m, _ in pairs]
            data = peer_stream(msgs, use_json)
            b = peer_bounds(msgs, use_json)
            per = [b[0]] + [b[i] - b[i - 1] for i in range(1, len(b))]
            for sch in ([], [1] * len(data), per, [b[2], b[4] - b[2]], [b[3]]):
                yield client(use_json, pairs, data, sch, 1)
                yield client(use_json, pairs, data, sch, 4)
            for _ in range(40 if quick else 400):
                k = rng.randrange(1, len(data))
                yield client(use_json, pairs, data, [k] if rng.random() < 0.5 else rand_sched(rng, len(data), b), rng.choice([1, 1, 4]))
            # d. random streams, random partitions (zero-length reads included), 30 % cut somewhere
            for _ in range(150 if quick else 6000):
                n = rng.choice([0, 1, 2, 3, 3, 4, 6])
                pairs = [client_req_("r/%d" % rng.randrange(5), rng.choice([0, 0, 2, 3, 1]), use_json, rng) for _ in range(n)]
                # the same name always with the same message (the table projects a message to its name)
                byname = {}
                pairs = [byname.setdefault(nm, (m, nm)) for m, nm in pairs]
                msgs = [m for m, _ in pairs]
                data = peer_stream(msgs, use_json, rng)
                tail = EOF
                if data and rng.random() < 0.3:
                    data = data[:rng.randrange(len(data))]
                    tail = rng.choice([EOF, EOF, FAIL])
                sch = rand_sched(rng, len(data), peer_bounds(msgs, use_json))
                yield client(use_json, pairs, data, sch, rng.choice([1, 1, 1, 4, 16]), None, tail)

            # e. the reference server reads ONE request: split at every byte, byte by byte, one read, with
            #    bytes behind it, random partitions; every truncation (an error exit, not a wait)
            #    The runner keeps the server's stdin open while it runs: behind a complete request the pipe mostly
            #    BLOCKs (a server that reads on never answers), sometimes ends.
            def server(m, obs, data, sched, eager=None, tail=None):
                if tail is None:
                    tail = rng.choice([BLOCK, BLOCK, EOF])
                return [skind, use_json, rng.randrange(2), data, sched,
                        rng.random() < 0.5 if eager is None else eager, tail, [[m, obs]]]
            variants = [(1, 1000), (2, 64), (2, 1000), (1, 64)] if grpc else [(1, 0), (2, 64), (2, 0), (1, 64)]
            m, obs = server_req_(2, 64, use_json)
            data = peer_stream([m], use_json)
            for i, k in enumerate(range(1, len(data))):
                ver, limit = (2, 64) if i % 2 else (1, 64)       # same length: every byte position is a split point
                m, obs = server_req_(ver, limit, use_json)
                yield server(m, obs, peer_stream([m], use_json), [k])
            for i, (ver, limit) in enumerate(variants):
                m, obs = server_req_(ver, limit, use_json, i % 2)
                data = peer_stream([m], use_json)
                for sch in ([], [1] * len(data), [len(data) - 1], rand_sched(rng, len(data))):
                    yield server(m, obs, data, sch, bool(i % 2))
                m2, _ = server_req_(1, 5, use_json)
                yield server(m, obs, data + peer_stream([m2], use_json), rng.choice([[], [len(data) + 2], rand_sched(rng, len(data) + 4)]))
                yield server(m, obs, data + (b"]}" if use_json else b"\xff\xff"), [])
                for _ in range(3 if quick else 30):
                    yield server(m, obs, data, rand_sched(rng, len(data)))
            m, obs = server_req_(2, 64, use_json, 1)
            data = peer_stream([m], use_json)
            for cut in range(len(data) - (1 if use_json else 0)):
                yield server(m, obs, data[:cut], rng.choice([[], [1] * cut, rand_sched(rng, cut)]), None, rng.choice([EOF, EOF, EOF, FAIL, BLOCK]))


PROP = C09()
