"""C04 — the run succeeds iff every selected case ran and met its expectation."""
import itertools

from ..core import Prop, parse_sx

# error kinds (C04_Model.un_kind)
ASSERT, CLIENT, SETUP, CNR, NOOUT, FEEDBACK, OTHER, CNR_WRAPPED = range(8)

FATES = ["pass", "assert", "clienterr", "setup", "cnr", "never"]
MARKS = ["none", "failing", "flaky"]

NAMES = ["S/a", "S/b", "S/c", "Basic/HTTPVersion:1/TLS:false/unary ok", "S/a/x", "T/**zz", "S", "k/1"]


def realise(rng, fate, n):
    """ops that give case n the fate (several ways to get there, as the runner has)"""
    if fate == "pass":
        return [rng.choice([[2, n, 1], [0, n, []]])]
    if fate == "assert":
        return [[2, n, 0]]
    if fate == "clienterr":
        return [rng.choice([[1, n], [1, n], [0, n, [0, OTHER]]])]
    if fate == "setup":
        return [rng.choice([[3, [n], SETUP], [0, n, [1, SETUP]], [0, n, [1, NOOUT]], [4, [n], NOOUT]])]
    if fate == "cnr":
        return [rng.choice([[0, n, [1, CNR]], [0, n, [1, CNR_WRAPPED]], [0, n, [0, CNR]]])]
    return []


def table_case(rng, assignment, names=None):
    """assignment: list of (fate, mark, feedback) -> one c04.results case"""
    names = names or rng.sample(NAMES[:5], len(assignment))
    kf, kfl, groups = [], [], []
    for n, (fate, mark, fb) in zip(names, assignment):
        if mark == "failing":
            kf.append(n)
        elif mark == "flaky":
            kfl.append(n)
        ops = realise(rng, fate, n)
        if fb:
            ops.insert(rng.randint(0, len(ops)), [5, n])
        groups.append(ops)
    # interleave the per-case op lists in a random order (per-case order kept)
    ops = []
    idx = [0] * len(groups)
    while True:
        live = [i for i in range(len(groups)) if idx[i] < len(groups[i])]
        if not live:
            break
        i = rng.choice(live)
        ops.append(groups[i][idx[i]])
        idx[i] += 1
    if rng.random() < 0.15 and all(a[0] != "never" for a in assignment):
        ops.append([4, list(names), NOOUT])   # the end-of-batch failRemaining: everything has an outcome already
    return ["c04.results", len(assignment), kf, kfl, ops]


def random_history(rng):
    pool = rng.sample(NAMES, rng.randint(1, 6))
    ops = []
    for _ in range(rng.randint(0, 14)):
        t = rng.random()
        n = rng.choice(pool)
        if t < 0.25:
            r = rng.random()
            res = [] if r < 0.35 else [rng.randint(0, 1), rng.choice([ASSERT, CLIENT, SETUP, CNR, NOOUT, OTHER, CNR_WRAPPED])]
            if res and res[1] in (SETUP, NOOUT):
                res[0] = 1
            ops.append([0, n, res])
        elif t < 0.35:
            ops.append([1, n])
        elif t < 0.55:
            ops.append([2, n, rng.randint(0, 1)])
        elif t < 0.65:
            ops.append([3, [rng.choice(pool) for _ in range(rng.randint(0, 4))], rng.choice([SETUP, SETUP, NOOUT])])
        elif t < 0.8:
            ops.append([4, [rng.choice(pool) for _ in range(rng.randint(0, 5))], rng.choice([NOOUT, NOOUT, SETUP, CNR])])
        else:
            ops.append([5, n])
    kf = [n for n in pool if rng.random() < 0.25]
    kfl = [n for n in pool if rng.random() < 0.25 and (n not in kf or rng.random() < 0.2)]
    total = rng.choice([len(pool), len(pool), len(pool), 0, len(pool) + rng.randint(1, 3), rng.randint(0, 8)])
    return ["c04.results", total, kf, kfl, ops]


def flow_case(rng, kind, nb=None, allow_exit=True, sizes=None):
    """a run as batches: [kind, kf, kfl, batches, exit_after, exit_err]"""
    nb = nb or rng.randint(1, 3)
    sizes = sizes or [rng.randint(1, 3) for _ in range(nb)]
    batches, kf, kfl = [], [], []
    for i, sz in enumerate(sizes):
        cases = []
        for x in "abc"[:sz]:
            n = "B%d/%s" % (i, x)
            m = rng.random()
            coherent = rng.random() < 0.85
            if m < 0.2:
                kf.append(n)
                reply = rng.choice([1, 2, 3]) if coherent else 0
            elif m < 0.4:
                kfl.append(n)
                reply = rng.choice([0, 1, 2, 3])
            else:
                reply = 0 if coherent else rng.choice([1, 2, 3])
            cases.append([n, reply])
        batches.append([1 if rng.random() < 0.9 else 0, cases])
    exit_after = -1
    if allow_exit and batches[-1][0] == 1 and rng.random() < 0.6:
        # the client ends inside the LAST batch only (so that no isRunning() check follows its exit:
        # what isRunning() says after a clean exit belongs to C10)
        prior = sum(len(b[1]) for b in batches[:-1] if b[0] == 1)
        k = rng.randint(1, len(batches[-1][1]))
        exit_after = prior + k
        if rng.random() < 0.3:
            batches[-1][1][k - 1][1] = 4   # reads the request, never answers, ends
    return [kind, kf, kfl, batches, exit_after, 1 if rng.random() < 0.2 else 0]


def flow_table(rng):
    """single batch, <= 3 cases: every reply assignment x every exit point x exit status, random markings"""
    for n in (1, 2, 3):
        for replies in itertools.product([0, 1, 2, 3], repeat=n):
            for ex in [-1] + list(range(1, n + 1)):
                names = ["B0/" + x for x in "abc"[:n]]
                cases = [[nm, r] for nm, r in zip(names, replies)]
                if ex > 0 and rng.random() < 0.25:
                    cases[ex - 1][1] = 4
                kf = [nm for nm in names if rng.random() < 0.25]
                kfl = [nm for nm in names if nm not in kf and rng.random() < 0.25]
                yield ["c04.flow", kf, kfl, [[1, cases]], ex, rng.choice([0, 0, 1])]


def peer_case(rng, shape=None, fixed=None):
    """a client-mode run against the runner's in-process reference servers:
    [kind, kf, kfl, [[is_reference, [[name, reply, defect], ...]], ...], exit_err]"""
    shape = shape or rng.choice(["B0", "B1", "B0B1", "B0B1"])
    kf, kfl, batches = [], [], []

    def cases(suite, n):
        out = []
        for x in "abc"[:n]:
            reply = rng.choice([0, 0, 0, 1, 2, 3])
            defect = rng.choice([0, 0, 0, 1, 2, 3])
            if fixed is not None:
                reply, defect = fixed
            out.append(["%s/%s" % (suite, x), reply, defect])
        return out

    def mark(names):
        if fixed is not None:
            return
        m = rng.random()
        if m < 0.15:
            kf.extend(names)
        elif m < 0.3:
            kfl.extend(names)

    if "B0" in shape:
        cs = cases("B0", rng.randint(1, 3) if fixed is None else 1)
        for c in cs:
            mark([c[0]])
        batches.append([1, cs])
    if "B1" in shape:
        cs = cases("B1", rng.randint(1, 2) if fixed is None else 1)
        twins = []
        for c in cs:
            twin = "B1/(grpc server impl)/" + c[0][3:]
            mark([c[0], twin])
            # what the client does on the wire for the twin is its own choice again
            twins.append([twin, c[1] if fixed is not None else rng.choice([0, 0, 1, 2]),
                          c[2] if fixed is not None else rng.choice([0, 1, 2, 3])])
        batches.append([1, cs])
        batches.append([0, twins])
    return ["c04.peer", kf, kfl, batches, 1 if (fixed is None and rng.random() < 0.1) else 0]


class C04(Prop):
    id = "C04"
    props = "C04_Props"
    coq_files = ("Base", "C04_Model", "C04_Spec", "C04_Proofs", "C04_Props")
    models = ("C04_Model",)
    packages = {"cc": "internal/app/connectconformance"}
    kinds = {"c04.results": "cc", "c04.flow": "cc", "c04.run": "cc", "c04.srvexit": "cc", "c04.peer": "cc"}
    rule = ("c04.results: EVERY assignment of {pass, assertion failure, client-reported error, setup error, could-not-run, never "
            "answered} x {unmarked, known-failing, known-flaky} x {feedback, none} to 1, 2 and 3 cases (ordered: 36 + 1,296 + 46,656 "
            "tables; thorough: the triples twice), each realised by a randomly chosen way the runner has of producing that fate "
            "(assert / setOutcome / failed / failedToStart / failRemaining, plain and %w-wrapped couldNotRunError) in a random interleaving, "
            "plus random operation histories over up to 6 names (overwrites, failRemaining after/before results, duplicates, names in "
            "both marking lists, totals smaller/larger than the outcome map); driven through the real testResults and report() twice; "
            "compared: return value, the five printed numbers, FAILED names and INFO names in print order. "
            "c04.flow: runs as batches through the real runClient/clientProcessRunner, runTestCasesForServer and report() with client and "
            "servers as in-process processes (runInProcess): every reply assignment {pass, wrong, error result, neither} to <= 3 cases x "
            "every exit point of the client (incl. reading a request and ending silently) x exit result, random markings, plus random "
            "runs of 1-3 batches with servers that fail to start; the client's exit point is forced through the 'Sending request' log hook. "
            "c04.run: the real Run() with flags, config/suite files, --known-failing/--known-flaky patterns and this test binary re-executed "
            "as client and server OS processes (1-4 server instances, servers failing to start, client exit status 0/1); half of the runs "
            "without Verbose (map order of the instances); plus, always WITHOUT Verbose, a client that exits with status 1 exactly between "
            "two batches (equal-sized all-pass batches, servers slow to stop so that the runner has seen the exit): the batches never "
            "started have no outcome and must be counted as could-not-run - there the sum of the four printed counts stands for "
            "'Total cases' (= number of selected cases in the model); compared: Run's ok, exit status, numbers and names. "
            "c04.srvexit: the real Run() in server mode, one batch, the server under test a real OS process (cmdProcess of process.go) "
            "that exits with STATUS 0 while the runner is about to send request k (schedule forced through the runner's own 'Sending "
            "request' log line; the printer waits until the process has been reaped plus 1 s): the cases after the exit must end as "
            "set-up errors and fail the run whatever their marking (all cases of a run alike - known-failing with failing replies, "
            "known-flaky, unmarked passing - because the order inside a batch is map order; FAILED/INFO names compared by number). "
            "c04.peer: the real Run() in CLIENT mode - run()'s own in-process reference server / gRPC reference server wiring, real pipes "
            "and stderr reader - with this test binary re-executed as the client under test: it reports the scripted reply and puts a real "
            "HTTP/1.1 request on the wire that is as the case demands or wrong in a way only the server sees (codec, second request, "
            "compression header); Connect and gRPC-Web (the latter also against the gRPC reference server under marked names, which has no "
            "feedback channel); every run has, per protocol, a matching result with each defect and the control. "
            "non-trivial = verdict false or a failed / could-not-run / expected count > 0")
    trusted_base = ("Coq 8.16.1 kernel (vm_compute only in Examples)", "extraction (ExtrOcamlBasic only) + ocaml/driver.ml",
                    "vlib generators/comparator, Go overlay harness (harness/C04): parsing of the printed lines, the copy of run()'s batch "
                    "loop used by c04.flow, the child client of c04.peer (what it puts on the wire)",
                    "the reference server's checks themselves (which requests draw feedback: C12/C13/C17); C04 models only that "
                    "what it prints reaches the results",
                    "modelled not verified: os/exec, signals and the 3 s / 5 s / 20 s timers of process.go / client_runner.go; "
                    "cmd/connectconformance main's os.Exit(1) on !ok (exit_status is the model of it; c04.run observes Run's result)")
    assumptions = ("the selected permutations have distinct names, totalTestCount is their number and nothing is reported for a name "
                   "outside them (selection; exactly-once scheduling is C05's subject)",
                   "no name is both known-failing and known-flaky for the theorems that mention markings (run() rejects such "
                   "configurations: C08 conflict_rejected); setup_always_bad and feedback_fails need no such hypothesis",
                   "report() is applied once, after the history, as Run does (report_idempotent covers calling it again)",
                   "peer feedback for a case counts as evidence that the case ran: feedback for a case without any outcome makes it a "
                   "failed (not a could-not-run) case; Run never reaches that state (every batch ends by giving each of its cases an outcome)",
                   "peer feedback lines: test names contain no ': ' and no surrounding blanks (the stderr reader splits at the first ': ')",
                   "c04.flow/c04.run: the client ends inside the last batch only (c04.run also between two batches, status 1, all-pass "
                   "equal batches, without Verbose; c04.srvexit: all cases of a run alike, names compared by number); what isRunning() reports after a clean exit "
                   "(client_runner.go whenDone stores terminated=false) is C10's finding and is not relied upon")
    level_text = ("Machine-checked proof (Coq) over ALL operation histories and any number of cases that report()'s return value, Run's "
                  "verdict and the exit status are true exactly when every selected case has an outcome and met its expectation "
                  "(truth table of outcome kind x marking x feedback), that set-up / could-not-run / never-answered cases always fail the "
                  "run whatever their marking, that FAILED/INFO lines name exactly the failed / expected-failure cases and that the printed "
                  "totals count every selected case exactly once; plus the same verdict theorem for runs given as batches with servers "
                  "that do not start and a client that ends early, and for client-mode runs in which the in-process reference server "
                  "prints feedback (line format, the runner's stderr reader and which writer the feedback printer stands on are in the "
                  "model: feedback reaches the results exactly for the cases the reference server complained about, and then fails them). "
                  "The model is tied to the Go code on every check by a bounded-exhaustive plus random differential run at four levels "
                  "(testResults, batch flow in-process, real Run() with child processes, real Run() in client mode against the real "
                  "in-process reference servers).")
    level_note = ("Proved about the model; the model-to-code correspondence is sampled (exhaustive truth table for <= 3 cases, random beyond), "
                  "not proved. The batch-level model covers a sequential scripted client (one exit point, forced schedule); free-running "
                  "timing races between a dying OS process and the send loop (ErrClosedPipe vs errClosed, WaitDelay, 20 s read timeout) are "
                  "not modelled - every such outcome makes the real run fail for one reason or another, but that is argued, not proved. "
                  "Could-not-run cases are counted, not named individually, in the output (failing_named states exactly that).")
    technique = ("Coq proof over all operation histories (rev-induction over the history, induction over the outcome/sideband maps, "
                 "permutation counting); differential model-vs-Go correspondence at three levels")

    def nontrivial(self, case, res):
        try:
            t = parse_sx("(" + res + ")")[0]
            rep = t[0] if case[0] == "c04.results" else t[2]
            return rep[0] == 0 or any(rep[i] != 0 for i in (3, 4, 5))
        except Exception:
            return False

    def describe(self, case, g, m):
        return "run verdict / report: implementation differs from the proved model"

    def generate(self, rng, tier):
        cells = list(itertools.product(FATES, MARKS, [False, True]))
        for a in cells:
            yield table_case(rng, [a])
        for a in itertools.product(cells, repeat=2):
            yield table_case(rng, list(a))
        for a in itertools.product(cells, repeat=3):
            yield table_case(rng, list(a))
        if tier != "quick":
            # a second, independently randomised realisation of every triple
            for a in itertools.product(cells, repeat=3):
                yield table_case(rng, list(a))
        for _ in range(2500 if tier == "quick" else 60000):
            yield random_history(rng)
        yield from flow_table(rng)
        for _ in range(400 if tier == "quick" else 6000):
            yield flow_case(rng, "c04.flow")
        for _ in range(80 if tier == "quick" else 600):
            yield flow_case(rng, "c04.run", nb=rng.randint(1, 4), allow_exit=False)
        # a client that ends early (status 1) exactly between two batches, run WITHOUT Verbose: the batches never
        # started have no outcome at all and must still be counted ("Another N could not be run")
        for i in range(6 if tier == "quick" else 40):
            nb, n = rng.randint(2, 4), rng.randint(1, 3)
            j = rng.randint(1, nb - 1)
            batches = [[1, [["B%d/%s" % (b, x), 0] for x in "abc"[:n]]] for b in range(nb)]
            yield ["c04.run", [], [], batches, n * j, 1]
        # a server under test (real OS process) that exits with status 0 in the middle of its batch: the cases after it
        # are set-up failures whatever their marking (every run has known-failing / known-flaky cases behind the exit
        # whose scripted replies would "fail as expected")
        for i in range(3 if tier == "quick" else 30):
            n = rng.randint(2, 4)
            k = rng.randint(0, n - 2)
            names = ["B0/" + x for x in "abcd"[:n]]
            # all cases alike (their order inside the batch is Go's map order): known-failing with a failing reply,
            # known-flaky with any reply, unmarked passing
            marking = i % 3
            reply = rng.choice([1, 2, 3]) if marking == 0 else (rng.choice([0, 1, 2, 3]) if marking == 1 else 0)
            yield ["c04.srvexit", names if marking == 0 else [], names if marking == 1 else [], [[nm, reply] for nm in names], k]
        # client mode against the real in-process reference servers: every run has, for each protocol,
        # a matching result whose request only the server can fault (each defect), and the control
        for shape in ("B0", "B1"):
            for defect in (0, 1, 2, 3):
                yield peer_case(rng, shape=shape, fixed=(0, defect))
        for _ in range(24 if tier == "quick" else 300):
            yield peer_case(rng)


PROP = C04()
