"""C08 — test-name patterns follow glob semantics; every given pattern is honoured."""
import itertools
from ..core import Prop

ALPHA = ["a", "b", "*", "**"]


def seqs(alpha, maxlen, minlen=1):
    for n in range(minlen, maxlen + 1):
        for t in itertools.product(alpha, repeat=n):
            yield "/".join(t)


class C08(Prop):
    id = "C08"
    props = "C08_Props"
    coq_files = ("Base", "C08_Model", "C08_Spec", "C08_Proofs", "C08_Props")
    models = ("C08_Model",)
    packages = {"cc": "internal/app/connectconformance", "main": "cmd/connectconformance"}
    kinds = {"c08.trie": "cc", "c08.accept": "cc", "c08.checks": "cc", "c08.checks2": "cc", "c08.args": "main", "c08.file": "main"}
    rule = ("c08.trie: every set of <=2 patterns of length <=L over {a,b,*,**} against every name of length <=4 over {a,b} "
            "(L=3 quick, 4 thorough) plus seeded random sets of up to 8 patterns (shared prefixes, empty components, literal "
            "'*' in names, 'foo*'); c08.accept: random run/skip sets; c08.checks: the validation block of run() on generated "
            "suites; c08.checks2: the same through run() in client / server / both-reference mode on libraries with Connect, gRPC and "
            "gRPC-Web suites, so that the marked gRPC-peer permutations are among the names (directed: pattern lists whose only common "
            "matches are marked names; random patterns derived from marked names); c08.args/c08.file: every split of a pattern list "
            "over flag occurrences and @files, file syntax variants, lines of 64 KiB-1 / 64 KiB / 64 KiB+1 / 200 KiB (comment, blank, pattern) "
            "followed by further patterns. "
            "non-trivial = at least one name matched and at least one not, or a non-empty result list")
    trusted_base = ("Coq 8.16.1 kernel (vm_compute used, native_compute not)", "extraction (ExtrOcamlBasic only) + ocaml/driver.ml",
                    "vlib generators/comparator, Go overlay harness files",
                    "modelled not verified: cobra/pflag StringArrayVar accumulation, os.ReadFile, path.Join (names)")
    assumptions = ("pattern files and names are ASCII (bytes.TrimSpace Unicode classes are not modelled)",
                   "Go map iteration order does not influence the compared observables (sets are sorted)")

    level_text = ("Machine-checked proof (Coq) that the trie matcher, run/skip filter, unmatched-pattern detection, failing/flaky conflict "
                  "check (over ALL permutation names, the marked gRPC-peer names included) and flag/@file collection of the model equal the glob "
                  "specification for all pattern sets and names; the model is tied "
                  "to the Go code by a bounded-exhaustive plus random differential run on every check.")
    level_note = ("Trusted: Coq kernel, extraction, OCaml driver, harness; the correspondence between model and Go code is sampled "
                  "(bounded-exhaustive for pattern sets <=2 x length <=3/4), not proved. pflag accumulation and os.ReadFile are outside the model. "
                  "The name set of the validation block (perm_names: base names + marked names of the cases a gRPC peer supports) is modelled for "
                  "suites with one protocol / HTTP version / codec / compression; eligibility by codec, compression, TLS and raw payloads is C05's.")
    technique = "Coq proof of model = glob spec (induction over trie and pattern); differential model-vs-Go correspondence"

    def nontrivial(self, case, res):
        if case[0] == "c08.trie":
            head = res.split(")")[0]
            return "1" in head and "0" in head
        return len(res) > 2

    def describe(self, case, g, m):
        return "glob semantics / pattern collection: implementation differs from the proved model (= glob specification)"

    def generate(self, rng, tier):
        L = 3 if tier == "quick" else 4
        names = [""] + list(seqs(["a", "b"], 4))
        pats = list(seqs(ALPHA, L))
        for p in pats:
            yield ["c08.trie", [p], names]
        pairs = list(itertools.combinations(pats, 2))
        if tier == "quick" and len(pairs) > 2500:
            pairs = rng.sample(pairs, 2500)
        for p, q in pairs:
            nm = names[:]
            rng.shuffle(nm)
            yield ["c08.trie", [p, q], nm]
        # random larger sets
        n_rand = 1500 if tier == "quick" else 30000
        comps = ["a", "b", "c", "*", "**", "", "foo*", "TLS:false"]
        for _ in range(n_rand):
            base = [rng.choice(comps) for _ in range(rng.randint(0, 4))]
            ps = []
            for _ in range(rng.randint(0, 8)):
                keep = rng.randint(0, len(base))
                tail = [rng.choice(comps) for _ in range(rng.randint(0 if keep else 1, 8 - keep if keep < 8 else 0))]
                ps.append("/".join(base[:keep] + tail))
            ncomps = ["a", "b", "c", "", "*", "foo*", "foox", "TLS:false", "**"]
            ns = ["/".join(rng.choice(ncomps) for _ in range(rng.randint(1, 8))) for _ in range(rng.randint(1, 10))]
            # also names derived from a pattern by instantiating wildcards
            for p in ps[:3]:
                out = []
                for c in p.split("/"):
                    if c == "*":
                        out.append(rng.choice("abc"))
                    elif c == "**":
                        out.extend(rng.choice("abc") for _ in range(rng.randint(0, 3)))
                    else:
                        out.append(c)
                ns.append("/".join(out))
            yield ["c08.trie", ps, ns]
        # accept
        for _ in range(800 if tier == "quick" else 20000):
            run = [rng.choice(pats) for _ in range(rng.randint(0, 3))]
            skip = [rng.choice(pats) for _ in range(rng.randint(0, 3))]
            yield ["c08.accept", run, skip, rng.sample(names, 12)]
        # checks through run()
        calpha = ["a", "b", "TLS:false", "*", "**"]
        for _ in range(150 if tier == "quick" else 3000):
            nms = sorted({"%s/TLS:false/%s" % (rng.choice("ab"), "/".join(rng.choice("ab") for _ in range(rng.randint(1, 3))))
                          for _ in range(rng.randint(1, 5))})

            def pat():
                if rng.random() < 0.6:
                    # derived from a name, generalised
                    c = rng.choice(nms).split("/")
                    for i in range(len(c)):
                        r = rng.random()
                        if r < 0.25:
                            c[i] = "*"
                        elif r < 0.35:
                            c[i] = "**"
                    return "/".join(c)
                return "/".join(rng.choice(calpha) for _ in range(rng.randint(1, 4)))
            failing = [pat() for _ in range(rng.randint(0, 2))]
            flaky = [pat() for _ in range(rng.randint(0, 2))]
            run = [pat() for _ in range(rng.randint(0, 2))]
            skip = [pat() for _ in range(rng.randint(0, 1))] + ["**"]
            yield ["c08.checks", failing, flaky, run, skip, nms]
        # checks through run() with gRPC-peer permutations in the library (all three run modes):
        # the validation block must work on ALL permutations, the marked names included
        MARK = {(1, 0): "(grpc client impl)", (0, 1): "(grpc server impl)", (1, 1): "(grpc impls)"}

        def perms(suites, refc, refs):
            out = []
            for su, proto, cs in suites:
                out += ["%s/TLS:false/%s" % (su, c) for c in cs]
                for (cg, sg), mk in MARK.items():
                    if (cg and not refc) or (sg and not refs):
                        continue
                    if (cg and proto != 2) or proto == 1:
                        continue
                    out += ["%s/TLS:false/%s/%s" % (su, mk, c) for c in cs]
            return out
        modes = [(0, 1), (1, 0), (1, 1)]
        directed = []
        for refc, refs in modes:
            for proto in (2, 3, 1):
                suites = [["g", proto, ["x", "y/z"]], ["c", 1, ["x"]]]
                for mk in MARK.values():
                    # only common matches of the two lists (if any) are marked names
                    directed.append([["**/%s/**" % mk], ["g/**"], [], ["**"], suites, refc, refs])
                    directed.append([["g/**"], ["**/%s/**" % mk], [], ["**"], suites, refc, refs])
                    directed.append([["g/TLS:false/%s/x" % mk], ["g/*/*/x"], [], ["**"], suites, refc, refs])
                    directed.append([["**/%s/**" % mk], ["c/**"], [], ["**"], suites, refc, refs])
                    directed.append([["g/TLS:false/*"], ["g/TLS:false/%s/*" % mk], ["**/%s/**" % mk], ["**"], suites, refc, refs])
        for d in directed:
            yield ["c08.checks2"] + d
        for _ in range(250 if tier == "quick" else 4000):
            refc, refs = rng.choice(modes)
            sus = []
            for su in rng.sample(["a", "b", "g"], rng.randint(1, 3)):
                cs = sorted({"/".join(rng.choice("ab") for _ in range(rng.randint(1, 2))) for _ in range(rng.randint(1, 3))})
                sus.append([su, rng.choice([1, 2, 2, 3]), cs])
            pn = perms(sus, refc, refs)
            marked = [n for n in pn if "(grpc" in n]

            def pat2():
                r = rng.random()
                if r < 0.75:
                    c = rng.choice(marked if (marked and rng.random() < 0.6) else pn).split("/")
                    for i in range(len(c)):
                        r = rng.random()
                        if r < 0.2:
                            c[i] = "*"
                        elif r < 0.3:
                            c[i] = "**"
                    return "/".join(c)
                if r < 0.9:
                    return "**/%s/**" % rng.choice(list(MARK.values()))
                return "/".join(rng.choice(calpha) for _ in range(rng.randint(1, 4)))
            failing = [pat2() for _ in range(rng.randint(0, 2))]
            flaky = [pat2() for _ in range(rng.randint(0, 2))]
            run = [pat2() for _ in range(rng.randint(0, 1))]
            skip = [pat2() for _ in range(rng.randint(0, 1))] + ["**"]
            yield ["c08.checks2", failing, flaky, run, skip, sus, refc, refs]
        # flag / @file collection: all splits of a pattern list over <=4 args with 0-2 @files
        plist = ["p1", "a/*", "b/**", "c", "d/e", "f"]
        for nargs in range(0, 5):
            for kinds in itertools.product([0, 1], repeat=nargs):
                if sum(kinds) > 2:
                    continue
                args = []
                it = iter(plist)
                for k in kinds:
                    if k == 0:
                        args.append([0, next(it)])
                    else:
                        nl = rng.randint(0, 2)
                        args.append([1, "".join(next(it) + "\n" for _ in range(nl))])
                yield ["c08.args", args]
        files = [b"", b"\n", b"a", b"a\n", b"a\r\nb\r\n", b"  a/b  \n\t#c\n#d\n\n e \n", b"# only comment", b"a\n\n\nb", b" \t \n",
                 b"x #not comment\n", b"a\x0bb\x0c\n\x0cq\x0b"]
        for f in files:
            yield ["c08.file", f]
            yield ["c08.args", [[0, "z"], [1, f], [0, "y"]]]
        # very long lines (a token limit of a line reader must not end the collection): 64 KiB - 1, 64 KiB,
        # 64 KiB + 1 and 200 KiB, as a comment line, as a pattern and as blank padding, with patterns after them
        for n in (65535, 65536, 65537, 200 * 1024):
            for body in (b"#" + b"c" * (n - 1), b" " * n, b"p" * n):
                for pre, post in ((b"first\n", b"\nafter/long\n**/x\n"), (b"", b"\nlast-no-newline")):
                    f = pre + body + post
                    yield ["c08.file", f]
            yield ["c08.args", [[0, "z"], [1, b"a\n#" + b"c" * (n - 1) + b"\nb\n"], [0, "y"], [1, b"#" + b"d" * n + b"\r\nq"]]]
        for _ in range(200 if tier == "quick" else 5000):
            f = bytes(rng.choice(b"ab#/ *\t\r\n\n") for _ in range(rng.randint(0, 24)))
            yield ["c08.file", f]
            yield ["c08.args", [[1, f], [0, "q"], [1, f[::-1]]]]


PROP = C08()
