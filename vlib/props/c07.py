"""C07 — suite expansion selects, names and populates permutations per suite directives."""
import itertools
import re
from ..core import Prop


def tcase(name="t", stream=1, service="", method="", rawreq=False, rawresp=False, junk=False, extras=None):
    t = [name, stream, service, method, rawreq, rawresp, junk]
    if extras is not None:
        t.append(extras)
    return t


def extras(other=(), expand=(), mark=None):
    """the fields of a TestCase besides the request: other_allowed_error_codes, expand_requests (sizes relative to the
    limit), an explicit expected_response (carrying the mark); all numbers and lengths stay below 256"""
    return [list(other), list(expand), [] if mark is None else [mark]]


def rnd_extras(rng):
    return extras([rng.randrange(1, 17) for _ in range(rng.choice([0, 1, 1, 2, 3]))],
                  [rng.randrange(0, 200) for _ in range(rng.choice([0, 0, 1, 2]))],
                  None if rng.random() < 0.5 else bytes(rng.choice(b"ab\x00\xff") for _ in range(rng.randrange(0, 4))))


def suite(name="S", mode=0, p=(), v=(), c=(), z=(), cvm=0, tls=False, certs=False, get=False, limit=False, tcs=None):
    return [name, mode, list(p), list(v), list(c), list(z), cvm, tls, certs, get, limit,
            [list(t) for t in (tcs if tcs is not None else [tcase()])]]


def case(v=1, p=1, c=1, z=1, st=1, tls=False, certs=False, get=False, limit=False, cvm=0):
    return [v, p, c, z, st, tls, certs, get, limit, cvm]


def product_cases(vs, ps, cds, zs, sts, tlscerts, gets, limits, cvms=(0,)):
    out = []
    for v, p, cd, z, st, (tls, certs), get, lim, cvm in itertools.product(vs, ps, cds, zs, sts, tlscerts, gets, limits, cvms):
        out.append(case(v, p, cd, z, st, tls, certs, get, lim, cvm))
    return out


TLSCERTS = [(False, False), (True, False), (True, True)]
# relevant-list shapes on the values {1,2}: open, fixed, fixed to the other, both, repeated, unspecified member
REL = [(), (1,), (2,), (1, 2), (1, 1), (0, 1)]
REL_SMALL = [(), (1,), (1, 2)]

JOIN_ALPHA = ["", "a", ".", "..", "a/b", "/", "/a", "b/", "..a", "a:b", "a//b", "./a", "a/.."]
MARKERS = ["(grpc impls)", "(grpc client impl)", "(grpc server impl)"]


class C07(Prop):
    id = "C07"
    props = "C07_Props"
    coq_files = ("Base", "C07_Consts", "C07_Model", "C07_Spec", "C07_Proofs", "C07_Names", "C07_Join", "C07_Unique",
                 "C07_Order", "C07_Props")
    models = ("C07_Model",)
    consts = ("cc",)
    packages = {"cc": "internal/app/connectconformance"}
    kinds = {"c07.lib": "cc", "c07.filter": "cc", "c07.join": "cc", "c07.marker": "cc", "c07.parse": "cc"}
    rule = ("c07.lib: TestSuite protos built from the case (every combination of relevant-list shapes x relies-on flags x "
            "connect-version mode x suite mode x run mode on small axis sets; random libraries of 1-4 suites with up to 16 test cases "
            "each, EVERY library expanded in all three run modes; suites differing only in mode, duplicate / path-like / empty / "
            "marker-bearing names, pre-filled runner-owned request fields) and a list of "
            "config cases; the real newTestCaseLibrary is called five times per case (fresh suites, three times on the same suite "
            "objects, reversed config-case list; all must agree); compared: error-or-(sorted permutations with name, simple name, "
            "version, protocol, codec, compression, stream type, server cert, client creds, service, method, receive limit, raw flags, "
            "the TestCase's other fields (other_allowed_error_codes, expand_requests, mark of an explicit expected_response - given to 40-60 % "
            "of the generated test cases), the casesByServer key under which it is found; number of groups; (name, other fields) of every "
            "member of allPermutations(true,true), sorted; lengths of "
            "the other three allPermutations; serverInstancesSlice(lib, sorted=true) IN ORDER (the unsorted slice as a set); number of "
            "names allPermutations(true,true) issues more than once). c07.filter: filterGRPCImplTestCases over the whole product "
            "protocol 0-4 x version 0-4 x codec 0-3 x compression 0-3,6 x TLS x raw request x raw response for the four flag pairs "
            "(order compared; per output its name and the TestCase's other fields; Go side also requires every output to be proto.Equal "
            "to an input under another name, and the inputs untouched). c07.join: path.Join on every list of <=3 elements over 13 path-like elements + random. c07.marker: "
            "addGRPCMarkerToName. c07.parse: parseTestSuites' mode restrictions on raw request / raw response. "
            "non-trivial = a library was built (c07.lib) / any result (others)")
    trusted_base = ("Coq 8.16.1 kernel (vm_compute on the finite enum-name tables and in examples)",
                    "extraction (ExtrOcamlBasic only) + ocaml/driver.ml",
                    "vlib generators/comparator, Go overlay harness file (builds TestSuite messages, projects the library)",
                    "modelled not verified: Go map semantics (set of comparable structs / last-wins string map), proto.Clone, "
                    "populateExpectedResponses (C02), protoyaml (only on the c07.parse path), sort.Slice (any correct sort: the sorted "
                    "arrangement is proved unique)")
    assumptions = ("enum numbers are non-negative (N); the differential run uses 0..7",
                   "test and suite names are ASCII in the differential run (the theorems hold for any byte strings)",
                   "populateExpectedResponses succeeds (its errors are C02's subject; the harness builds test cases for which it cannot fail)",
                   "full_name_injective / library_grpc_names_distinct: well-formed names (suite name one segment, test names clean "
                   "relative paths distinct within the suite, no segment a gRPC marker) and declared enum numbers in the suites' relevant "
                   "lists (nothing is assumed of the config-case set); names_unique and colliding_names_rejected need neither")
    level_text = ("Machine-checked proof (Coq) that the model of newTestCaseLibrary/expandSuite/expandCases builds, for every list of "
                  "suites (in any map iteration order), every set of config cases and every run mode, exactly the permutations the "
                  "directives admit, with pairwise distinct names that spell exactly the open axes, request fields taken from the "
                  "config case, default service/method per stream type, each grouped under exactly its own server instance, and that "
                  "the gRPC-peer filter equals the documented applicability predicate and every gRPC-peer variant is the permutation it "
                  "was made from in everything but the name (request fields, other_allowed_error_codes, expand_requests, expected "
                  "response: grpc_variant_is_original_but_name, all_permutations_variants; a library permutation carries these fields of its "
                  "test case as written: permutation_carries_extras). Uniqueness of the full name is proved twice: "
                  "unconditionally through the library's duplicate check (names_unique; colliding_names_rejected: two different admitted "
                  "(suite, case, test) triples with one name make the library fail, never merge), and constructively "
                  "(full_name_injective: through the exact model of path.Join/Clean the name is an injective function of (suite, "
                  "config case, test case) on well-formed names). The names of the gRPC-peer variants are proved pairwise distinct "
                  "from each other and from all unmarked names on well-formed names; the one collision class the code does not reject "
                  "(a name segment equal to a marker) is exhibited and counted on every run. Output order: the sorted server-instance "
                  "slice is proved identical for every map order (and unique among sorted arrangements); allPermutations and the "
                  "groups are proved stable as multisets only, with examples showing the lists differ. The model is tied to the Go "
                  "code by a bounded-exhaustive plus random differential run on every check.")
    level_note = ("Trusted: Coq kernel, extraction, OCaml driver, harness; the correspondence between model and Go code is sampled "
                  "(bounded-exhaustive on small axis sets + random), not proved. populateExpectedResponses is outside the model (an explicit "
                  "expected response is represented by a mark the harness puts into it; the computed ones are not compared, but the Go side "
                  "of c07.filter requires whole-message equality of variant and original up to the name). "
                  "Nothing is partial any more: components_injective is closed by C07_Join.v (path.Join injective on well-formed "
                  "segments). Constructive injectivity assumes declared enum numbers in the suites' relevant lists (the printed form of "
                  "undeclared numbers is not analysed); the unconditional statements do not. Observation, not listed as a finding: a test-name segment equal "
                  "to \"(grpc server impl)\" etc. lets allPermutations issue one name for two runs (ex_marker_collision_not_rejected); "
                  "the library's own names stay unique.")
    technique = ("Coq proof: the error-threading loops equal a pure flat_map exactly when no check fails (ok_iff), membership "
                 "characterisation of the nested loops, permutation invariance, injectivity of the name function by computation on the "
                 "regenerated enum-name tables and by Clean = identity / split-after-join on well-formed segments, marker tags "
                 "separating the four blocks of allPermutations, uniqueness of sorted arrangements under a total order; differential "
                 "model-vs-Go correspondence")

    _TWICE = re.compile(r"\) (\d+)\)\s*$")
    _notes = None

    def nontrivial(self, case, res):
        if case[0] == "c07.lib":
            built = res.startswith("(#6f6b")
            if built and self._notes is not None:
                # observation, not a violation: libraries in which allPermutations(true,true) issues a name twice
                # (possible only when a name segment is a gRPC marker: ex_marker_collision_not_rejected /
                # library_grpc_names_distinct); the count is compared model-vs-Go like every other field and the
                # number of such libraries is flagged in the evidence
                m = self._TWICE.search(res)
                if m and int(m.group(1)) > 0:
                    self._notes["libraries_with_a_grpc_name_issued_twice"] = self._notes.get("libraries_with_a_grpc_name_issued_twice", 0) + 1
            return built
        return True

    def extra(self, ctx):
        # evidence notes are filled in by nontrivial() (called after this hook)
        self._notes = ctx.notes
        ctx.notes["libraries_with_a_grpc_name_issued_twice"] = 0
        return []

    def describe(self, case, g, m):
        return ("suite expansion: the real newTestCaseLibrary / filterGRPCImplTestCases / name construction differs from the "
                "proved model (= directive-admitted permutations, unique names spelling the open axes, one server instance)")

    # ------------------------------------------------------------------
    def generate(self, rng, tier):
        quick = tier == "quick"

        # ---- path.Join / Clean
        for n in (1, 2, 3):
            for t in itertools.product(JOIN_ALPHA, repeat=n):
                if n == 3 and quick and rng.random() < 0.5:
                    continue
                yield ["c07.join", list(t)]
        for _ in range(600 if quick else 20000):
            k = rng.randrange(1, 6)
            yield ["c07.join", ["".join(rng.choice("ab./:") for _ in range(rng.randrange(0, 5))) for _ in range(k)]]

        # ---- addGRPCMarkerToName
        for _ in range(300 if quick else 5000):
            simple = rng.choice(["t", "a/b", "", "x/../t", "t/", "/t", "tt", "."])
            full = rng.choice(["S/TLS:false/", "S/", "", "S/t", "S/HTTPVersion:1/x"]) + rng.choice([simple, simple, "t", "b"])
            yield ["c07.marker", full, simple, rng.random() < 0.5, rng.random() < 0.5]

        # ---- filterGRPCImplTestCases over the axis product
        allp = []
        i = 0
        for p, v, cd, z, tls, rq, rs in itertools.product(range(5), range(5), range(4), (0, 1, 2, 3, 6), (False, True),
                                                          (False, True), (False, True)):
            i += 1
            simple = rng.choice(["t%d" % i, "a/t%d" % i, "t%d" % i, "x/../t%d" % i])
            allp.append(["S/n%d/%s" % (i, rng.choice([simple, simple, simple, "u"])), simple, p, v, cd, z, tls, rq, rs])
            if rng.random() < 0.6:
                allp[-1].append(rnd_extras(rng))       # the other fields of the TestCase: the variant must carry them
        for cl, sv in itertools.product((False, True), repeat=2):
            lst = allp[:]
            rng.shuffle(lst)
            for k in range(0, len(lst), 125):
                yield ["c07.filter", cl, sv, lst[k:k + 125]]

        # ---- parseTestSuites mode restrictions
        for mode, he in itertools.product(range(4), (False, True)):
            for flags in itertools.product((False, True), repeat=4):
                tcs = [tcase("a", 1, rawreq=flags[0], rawresp=flags[1]), tcase("b", 3, rawreq=flags[2], rawresp=flags[3])]
                yield ["c07.parse", suite("S", mode, tcs=tcs), he]
                yield ["c07.parse", suite("S", mode, tcs=tcs[:1]), he]

        # ---- libraries
        small = product_cases((1, 2), (1, 2), (1,), (1, 2), (1, 3), TLSCERTS, (False, True), (False, True))
        medium = product_cases((1, 2, 3), (1, 2, 3), (1, 2), (1, 2), (1, 2, 3, 4, 5), [(False, False), (True, False)], (False,), (False,))
        tiny = product_cases((1,), (1, 2), (1,), (1,), (1, 2), TLSCERTS, (False, True), (False, True), (0, 1, 2))
        basic_tcs = [tcase("u", 1, extras=extras([13, 2], [], b"e")), tcase("s/x", 3, extras=extras([4])),
                     tcase("c", 2, "svc.X", "M", extras=extras([], [0, 7]))]

        # (a) named scenarios
        yield ["c07.lib", 1, [suite("S", 1), suite("S", 2)], small]                       # differ only in mode -> rejected
        yield ["c07.lib", 1, [suite("S", 1), suite("T", 2)], small]
        yield ["c07.lib", 2, [suite("A", 0, p=(1,), v=(1,), c=(1,), z=(1,), tls=True, tcs=[tcase("b/c")]),
                              suite("A/b", 0, p=(1,), v=(1,), c=(1,), z=(1,), tls=True, tcs=[tcase("c")])], small]
        yield ["c07.lib", 0, [suite("S", 0, tcs=[tcase("t", 1), tcase("t", 3)])], small]   # equal names across stream types
        yield ["c07.lib", 0, [suite("S", 0, p=(1, 1), tcs=[tcase("t", 1)])], small]        # repeated relevant value
        yield ["c07.lib", 0, [suite("S", 0, v=(1,), tls=True, tcs=basic_tcs)], small]      # relies on TLS + single version
        yield ["c07.lib", 0, [suite("S", 0, tcs=basic_tcs)], medium]
        yield ["c07.lib", 1, [suite("S", 1, p=(1,), get=True, cvm=c, tcs=basic_tcs) for c in (0,)] +
               [suite("V%d" % c, 0, p=(1,), cvm=c, tcs=basic_tcs) for c in (1, 2)], tiny]
        yield ["c07.lib", 0, [suite("S", 0, tcs=[tcase("t", 1)])], []]                     # nothing applies
        # hostile names (C07_Props: ex_dot_segment_rejected, ex_slash_in_suite_name_rejected, ex_marker_collision_not_rejected)
        fixed = dict(p=(1,), v=(2,), c=(1,), z=(1,), tls=True)
        tlsc = [case(2, 1, 1, 1, 1, True)]
        for other in ("./t", "x/../t", "t/", "/t", "t//", "t/."):
            yield ["c07.lib", 1, [suite("S", 0, tcs=[tcase("t", 1), tcase(other, 1)], **fixed)], tlsc]     # Clean merges -> rejected
        yield ["c07.lib", 1, [suite("A", 0, tcs=[tcase("b/c", 1)], **fixed), suite("A/b", 0, tcs=[tcase("c", 1)], **fixed)], tlsc]
        yield ["c07.lib", 1, [suite("A", 0, tcs=[tcase("b/c", 1)], **fixed)], tlsc]
        yield ["c07.lib", 1, [suite("A", 0, p=(1,), v=(2,), c=(1,), z=(1,), tcs=[tcase("t", 1)]),
                              suite("A/TLS:true", 0, tcs=[tcase("t", 1)], **fixed)], tlsc]                 # axis text in a suite name
        grpcc = [case(2, 2, 1, 1, 1), case(2, 3, 1, 2, 1), case(1, 3, 1, 1, 1), case(2, 2, 1, 1, 3)]
        for mk in MARKERS:
            # a marker as a test-name segment / as the suite name: built, but allPermutations issues a name twice
            yield ["c07.lib", 1, [suite("S", 0, p=(2, 3), c=(1,), tcs=[tcase("t", 1), tcase(mk + "/t", 1), tcase("u/" + mk + "/t", 1),
                                                                        tcase("u/t", 1), tcase(mk, 3)])], grpcc]
            yield ["c07.lib", 2, [suite("S", 0, p=(2,), v=(2,), c=(1,), z=(1,), tls=False, tcs=[tcase("t", 1)]),
                                  suite("S/TLS:false", 0, p=(2,), v=(2,), c=(1,), z=(1,), tcs=[tcase("(x)/t", 1)]),
                                  suite(mk, 0, p=(2,), v=(2,), c=(1,), z=(1,), tcs=[tcase("t", 1)])], grpcc]
        # many server instances (the sorted slice): open suites, one relying on client certs
        wide = product_cases((1, 2, 3), (1, 2, 3), (1,), (1,), (1, 3), TLSCERTS, (False,), (False,))
        for rm in (0, 1, 2):
            yield ["c07.lib", rm, [suite("Open", 0, tcs=basic_tcs), suite("Certs", 0, tls=True, certs=True, tcs=basic_tcs),
                                   suite("Server only", 2, tls=True, tcs=[tcase("raw", 1, rawreq=True)]),
                                   suite("Client only", 1, v=(3,), tcs=[tcase("rr", 3, rawresp=True)])], wide]

        # (b) every combination of directive shapes on one suite (sampled in the quick tier)
        def misconfigured(p, tls, certs, get, cvm):
            only_connect = len(p) > 0 and all(x == 1 for x in p)
            return (certs and not tls) or ((get or cvm) and not only_connect)

        combos = []
        for cb in itertools.product(REL, REL, REL_SMALL, REL, (False, True), (False, True), (False, True), (False, True), (0, 1, 2)):
            p, v, cd, z, tls, certs, get, limit, cvm = cb
            # keep every well-configured combination, and a sample of the rejected ones
            # keep every well-configured combination, a sample of the rejected ones and of those with a repeated value
            if misconfigured(p, tls, certs, get, cvm) and rng.random() >= 0.1:
                continue
            if (1, 1) in (p, v, z) and rng.random() >= 0.15:
                continue
            combos.append(cb)
        if quick:
            combos = rng.sample(combos, min(len(combos), 2500))
        for p, v, cd, z, tls, certs, get, limit, cvm in combos:
            smode = rng.choice((0, 0, 1, 2))
            rmode = rng.choice((0, 1, 2)) if rng.random() < 0.2 else (smode or rng.choice((1, 2)))
            cs = small
            if cvm:
                cs = [c[:9] + [rng.choice((0, cvm, cvm))] for c in small]
            if rng.random() < 0.5:
                cs = rng.sample(cs, rng.randrange(len(cs) // 4, len(cs)))
            tcs = [tcase("u", 1, junk=rng.random() < 0.3, extras=rnd_extras(rng) if rng.random() < 0.5 else None), tcase("s/x", 3),
                   tcase("c", 2, extras=rnd_extras(rng) if rng.random() < 0.3 else None)]
            yield ["c07.lib", rmode, [suite("S", smode, p, v, cd, z, cvm, tls, certs, get, limit, tcs)], cs]

        # (c) all suite mode x run mode pairs, two suites
        for m1, m2, rm in itertools.product(range(4), range(4), range(4)):
            yield ["c07.lib", rm, [suite("A", m1, p=(1,), tcs=[tcase("t", 1)]), suite("B", m2, v=(2,), tcs=[tcase("t", 3)])], small]

        # (d) random libraries; every library is expanded in all three run modes
        names = ["S", "S", "T", "S/x", "A", "A/b", "..", "a/../S", "", "/S", "S/", ".", "U V", "T:1", "A/TLS:true"] + MARKERS
        tnames = ["t", "t", "u", "u/v", "b/c", "c", "", ".", "../t", "x/", "/t", "t//w", "TLS:true/t", "HTTPVersion:1", "./t", "u/./v",
                  "(grpc impls)/t", "(grpc client impl)/u", "(grpc server impl)/t", "u/(grpc server impl)/v", "(grpc server impl)"]
        clean_tnames = ["t", "u", "v", "w/x", "b/c", "c", "unary/success", "unary/error", "server-stream/success", "bidi/half/cancel",
                        "x.y", "..z", "a:b", "TLS:true/t", "Codec:CODEC_PROTO/u", "(grpc)/t", "grpc impls", "w/y", "w/z/0", "w/z/1"]

        def rnd_rel(hi, clean=False):
            k = rng.choice([0, 0, 1, 1, 2, 3])
            out = [rng.randrange(1, hi + 1) for _ in range(k)]
            if clean:
                return rng.sample(range(1, hi + 1), min(k, hi))
            if rng.random() < 0.05:
                out.append(rng.choice([0, hi + 1, 7]))
            return out

        def rnd_tcase(clean):
            st = rng.choice([1, 1, 2, 3, 4, 5]) if clean or rng.random() < 0.93 else rng.choice([0, 6, 9])
            r = rng.random()
            if clean or r < 0.8:
                svc, meth = rng.choice([("", ""), ("", ""), ("svc.X", "M")])
            else:
                svc, meth = rng.choice([("svc.X", ""), ("", "M")])
            nm = rng.choice(clean_tnames) if clean else rng.choice(tnames)
            return tcase(nm, st, svc, meth, rng.random() < 0.15, rng.random() < 0.15, rng.random() < 0.2,
                         rnd_extras(rng) if rng.random() < 0.4 else None)

        def rnd_suite(i, clean, big):
            tls = rng.random() < 0.3
            certs = tls and rng.random() < 0.4 if clean or rng.random() < 0.9 else rng.random() < 0.5
            p = rnd_rel(3, clean)
            get = rng.random() < 0.15
            cvm = rng.choice([0, 0, 0, 0, 1, 2]) if clean or rng.random() < 0.95 else 3
            if clean and (get or cvm):
                p = [1]
            n = rng.choice(["S", "T", "A", "A.b", "U V", "TLS:true", "Basic"]) if clean else rng.choice(names)
            if clean:
                n = "%s%d" % (n, i)
            if big:
                k = rng.randrange(6, 17)
            else:
                k = rng.choice([1, 1, 2, 3, 5]) if clean or rng.random() < 0.95 else 0
            tcs = [rnd_tcase(clean) for _ in range(k)]
            if clean:
                seen = set()
                tcs = [t for t in tcs if not (t[0] in seen or seen.add(t[0]))]
            return suite(n, rng.choice([0, 0, 1, 2]) if clean or rng.random() < 0.95 else 3, p, rnd_rel(3, clean), rnd_rel(3, clean), rnd_rel(4, clean),
                         cvm, tls, certs, get, rng.random() < 0.15, tcs)

        def derived_cases(s):
            """config cases that the suite's directives admit (a sample)"""
            def pick(rel, hi):
                vals = [x for x in rel] or list(range(1, hi + 1))
                return rng.sample(vals, min(len(vals), 2))
            sts = sorted(set(t[1] for t in s[11])) or [1]
            tl = [True] if s[7] else [False, True]
            out = [case(v, p, cd, z, st, tls, s[8], s[9], s[10], s[6])
                   for p, v, cd, z, st, tls in itertools.product(pick(s[2], 3), pick(s[3], 3), pick(s[4], 3), pick(s[5], 6),
                                                                  rng.sample(sts, min(len(sts), 3)), tl)]
            return rng.sample(out, rng.randrange(1, len(out) + 1))

        def rnd_cases():
            r = rng.random()
            if r < 0.3:
                base = small
            elif r < 0.5:
                base = medium
            elif r < 0.6:
                base = tiny
            else:
                base = product_cases(rng.sample([1, 2, 3], rng.randrange(1, 4)), rng.sample([1, 2, 3], rng.randrange(1, 4)),
                                     rng.sample([1, 2, 3], rng.randrange(1, 3)), rng.sample([1, 2, 3, 4], rng.randrange(1, 3)),
                                     rng.sample([1, 2, 3, 4, 5], rng.randrange(1, 5)),
                                     rng.sample(TLSCERTS + [(False, True)], rng.randrange(1, 4)),
                                     rng.sample([False, True], rng.randrange(1, 3)), rng.sample([False, True], rng.randrange(1, 3)),
                                     rng.choice([(0,), (0,), (0, 1, 2)]))
            if rng.random() < 0.5 and len(base) > 1:
                base = rng.sample(base, rng.randrange(1, len(base)))
            if rng.random() < 0.1 and base:
                base = base + [rng.choice(base)]                                   # a repeated config case
            if rng.random() < 0.05:
                base = base + [case(rng.randrange(0, 5), rng.randrange(0, 5), rng.randrange(0, 5), 7, rng.choice([0, 6]))]
            return base

        def rnd_library(big):
            clean = rng.random() < (0.85 if big else 0.75)
            k = rng.choice([3, 3, 4, 4, 2]) if big else rng.choice([1, 1, 2, 2, 3, 4])
            ss = [rnd_suite(i, clean, big and rng.random() < 0.7) for i in range(k)]
            cs = rnd_cases()
            for s in ss:
                if rng.random() < 0.7:
                    cs = cs + derived_cases(s)
            rng.shuffle(cs)
            return ss, cs

        # (e) gRPC-eligible libraries whose test names carry marker text as a segment or inside one: the only
        # collisions the library does not reject (last field of the result = names issued twice)
        for _ in range(60 if quick else 1500):
            mk = rng.choice(MARKERS)
            pool = ["t", "u", "u/t", mk + "/t", mk + "/u", "u/" + mk + "/t", mk, "x" + mk + "/t", mk + "x/t", mk + "/" + mk + "/t", "v"]
            chosen = rng.sample(pool, rng.randrange(2, 7))
            if rng.random() < 0.5:
                chosen = list(dict.fromkeys(chosen + ["t", mk + "/t"]))
            tcs = [tcase(nm, rng.choice([1, 1, 1, 3]), extras=rnd_extras(rng) if rng.random() < 0.6 else None) for nm in chosen]
            ss = [suite(rng.choice(["S", "G", mk]), rng.choice([0, 0, 1, 2]), p=rng.choice([(2,), (2, 3), (), (3,)]), v=rng.choice([(), (2,), (1, 2)]),
                        c=rng.choice([(1,), ()]), z=rng.choice([(), (1,), (1, 2)]), tcs=tcs)]
            if rng.random() < 0.4:
                ss.append(suite("S/TLS:false", 0, p=(2,), v=(2,), c=(1,), z=(1,), tcs=[tcase(rng.choice(pool), 1)]))
            cs = product_cases((1, 2), (2, 3), (1, 2), (1, 2), (1, 3), [(False, False), (True, False)], (False,), (False,))
            cs = rng.sample(cs, rng.randrange(4, len(cs)))
            for rmode in (1, 2, 0):
                yield ["c07.lib", rmode, ss, cs]

        for n, big in ((1300 if quick else 14000, False), (700 if quick else 4000, True)):
            for _ in range(n):
                ss, cs = rnd_library(big)
                for rmode in (1, 2, 0):
                    yield ["c07.lib", rmode, ss, cs]
                if rng.random() < 0.03:
                    yield ["c07.lib", 3, ss, cs]


PROP = C07()
