"""C17 — raw HTTP test payloads reach the wire exactly as specified."""
import itertools
import os
from .. import core
from ..core import Prop

IDENT = (0, 1)
REAL = (2, 3, 4, 5, 6)          # gzip br zstd deflate snappy
HDR_NAMES = ["x-a", "X-A", "x-b", "X-Custom-Hdr", "content-type", "Content-Type", "x-c", "vary", "grpc-encoding",
             "content-encoding", "Connect-Content-Encoding", "x-a-b-c", "X-a-B", "set-cookie", "x-1", "x_under", "x.dot"]
TRL_NAMES = ["x-t", "X-T", "x-u", "Grpc-Status", "grpc-message", "x-t-bin", "X-t", "grpc-status-details-bin", "x-t-u-v", "x_tu", "x.t"]
VALUES = ["1", "2", "v w", "", "a,b", "application/proto", "gzip", "x=y;z", "0", "a, b", "\"q\"", "x" * 40, "%41", "a:b"]
STATUSES = [0, 0, 200, 200, 201, 205, 299, 300, 400, 404, 415, 429, 500, 503, 599, 999]


class Gen:
    """case construction; every (compression, data) pair that needs the real compressors is recorded"""

    def __init__(self, rng):
        self.rng = rng
        self.cases = []

    def data(self):
        r = self.rng
        k = r.random()
        if k < 0.15:
            return b""
        if k < 0.75:
            return bytes(r.randrange(256) for _ in range(r.randint(1, 12)))
        if k < 0.9:
            return bytes(r.choice(b"ab") for _ in range(r.randint(20, 60)))
        return b"hello world"

    def comp(self, bad=0.03):
        r = self.rng
        if r.random() < bad:
            return r.choice([7, 8, 100])
        return r.choice([0, 1, 1, 2, 3, 4, 5, 6])

    def contents(self, nil=0.05, bad=0.03):
        r = self.rng
        if r.random() < nil:
            return []
        dk = r.choice([1, 1, 1, 2, 3, 0])
        dt = self.data() if dk else b""
        if dk == 2:     # text is a proto string: valid UTF-8
            dt = bytes(32 + c % 95 for c in dt)
        return [dk, dt, self.comp(bad)]

    def item(self, nil=0.05, bad=0.03, bigflags=0.04):
        r = self.rng
        fl = r.choice([0, 0, 1, 2, 3, 128, 255, r.randrange(256), r.randrange(256)])
        if r.random() < bigflags:
            fl = r.choice([256, 300, 65536, 4294967295])
        c = self.contents(nil, bad)
        k = r.random()
        if k < 0.6:
            ln = []
        elif k < 0.75:
            ln = ["actual"]
        else:
            ln = [r.choice([0, 1, 2, 5, 7, 1000, 4294967295, "actual+1", "actual-1"])]
        return [fl, ln, c]

    def items(self, maxn=5, **kw):
        return [self.item(**kw) for _ in range(self.rng.randint(0, maxn))]

    def body(self, **kw):
        r = self.rng
        k = r.random()
        if k < 0.15:
            return [0]
        if k < 0.5:
            return [1, self.contents(**kw)]
        return [2, self.items(4, **kw)]

    def headers(self, names, maxn=3):
        r = self.rng
        out = []
        n = r.randint(0, maxn) if r.random() < 0.9 else r.randint(maxn, 2 * maxn + 2)
        for _ in range(n):
            out.append([r.choice(names), [r.choice(VALUES) for _ in range(r.choice([0, 1, 1, 1, 2, 3, 5]))]])
        return out

    def resp(self, statuses=STATUSES, **kw):
        r = self.rng
        return [r.choice(statuses), self.headers(HDR_NAMES), self.body(**kw), self.headers(TRL_NAMES)]


def walk_contents(v, kind):
    """all contents trees of a case payload (by position, per kind)"""
    def of_body(b):
        if b[0] == 1:
            yield b[1]
        elif b[0] == 2:
            for it in b[1]:
                yield it[2]
    if kind == "c17.msg":
        yield v[1]
    elif kind == "c17.stream":
        for it in v[1]:
            yield it[2]
    elif kind == "c17.writer":
        for op in v[2]:
            if op[0] == 7:
                yield from of_body(op[1][2])
    elif kind == "c17.live":
        for r in v[3]:
            yield from of_body(r[2])
    elif kind == "c17.request":
        for e in v[2][4]:
            yield e[1]
        yield from of_body(v[2][5])


def items_of(v, kind):
    def of_body(b):
        if b[0] == 2:
            yield from b[1]
    if kind == "c17.stream":
        yield from v[1]
    elif kind == "c17.writer":
        for op in v[2]:
            if op[0] == 7:
                yield from of_body(op[1][2])
    elif kind == "c17.live":
        for r in v[3]:
            yield from of_body(r[2])
    elif kind == "c17.request":
        yield from of_body(v[2][5])


class C17(Prop):
    id = "C17"
    props = "C17_Props"
    coq_files = ("Base", "C17_Model", "C17_Spec", "C17_Proofs", "C17_ProofsReq", "C17_ProofsQ", "C17_Props")
    models = ("C17_Model",)
    packages = {"internal": "internal", "server": "internal/app/referenceserver", "client": "internal/app/referenceclient"}
    kinds = {"c17.msg": "internal", "c17.stream": "internal", "c17.writer": "server", "c17.live": "server",
             "c17.request": "client", "c17.cache": "server"}
    rule = ("c17.msg: every data kind x compression 0..8 x payloads; c17.stream: every flags value 0..255 (and >255), item lists of "
            "length <=5 with absent / equal / differing explicit lengths, nil payloads, each of the 6 compressions per item, unknown "
            "compressions; c17.writer: every action sequence of length <=3 over {Header.Add, Header.Del, WriteHeader, Write, Flush, "
            "setRawResponse r1, setRawResponse r2, canSendResponse} plus random sequences of length <=8 with random raw responses, "
            "through the real rawResponder/rawResponseWriter over httptest.ResponseRecorder; c17.live: random RawHTTPResponse "
            "definitions (status unset/2xx/3xx/4xx/5xx/999, 204 and 304 without body and trailers, header and trailer lists with "
            "repeats and case variants, unary and stream bodies) x 6 request shapes (Unary, IdempotentUnary POST and GET, ClientStream, "
            "ServerStream, BidiStream) x HTTP/1.1 and h2c against the reference server built by createServer, read by a plain net/http "
            "client; c17.request: RawHTTPRequest definitions (verbs; URIs whose path segments carry %2F %2f %25 %20 %XX UTF-8 in both hex "
            "cases, '+', ';', sub-delims, characters net/url re-escapes, malformed escapes, control bytes; URI query strings with repeated "
            "keys, '+', escapes, ';', empty settings, trailing '?'; fragments; empty URI, '//' and '///' prefixes, URIs without leading "
            "slash; 0..3 raw and 0..3 base64/compressed query parameters; header lists with repeats; unary and stream bodies) through "
            "rawRequestSender over HTTP/1.1 and h2c into a plain recording server that records the raw request target (r.RequestURI, "
            "checked against EscapedPath + RawQuery), the decoded query, the listed headers and the body - a sweep of every special "
            "segment / URI query / fragment x {no, one raw, one encoded parameter} plus random definitions; c17.cache: every script of "
            "stream outcomes of length <=3 over {request, request with raw response, io.EOF, other error} x {ClientStream, ServerStream, "
            "BidiStream, unknown procedure} x 0..4 Receive calls x normal response started or not, plus random scripts, through the real "
            "rawResponseRecorder.WrapStreamingHandler / firstReqCachingStream over a scripted StreamingHandlerConn whose handler "
            "receives into a dirty message. Compressed forms come from the repository's own compressor objects (oracle table in each "
            "case); non-trivial = a non-error result with a non-empty body, header list or request target")
    trusted_base = ("Coq 8.16.1 kernel (vm_compute used in Examples and in three sweeps over the 128 ASCII codes / 16 hex digits)",
                    "extraction (ExtrOcamlBasic only) + ocaml/driver.ml",
                    "vlib generators/comparator, Go overlay harness files (incl. the envelope parser and the header projection there)",
                    "modelled not verified: net/http (header map, commit-on-first-write, trailer promotion, chunking, Date suppression, "
                    "content sniffing is projected away; the transport writes URL.RequestURI() as request target), "
                    "httptest.ResponseRecorder.Result, net/url of go1.23 for references without scheme and authority (Parse, setPath, "
                    "EscapedPath, String, RequestURI, Query, Values.Encode, escape/unescape/validEncoded: a Gallina model compared with the "
                    "real functions by every c17.request case), base64, proto.Reset/Merge, "
                    "the five compression libraries (Section variable + round-trip hypothesis, checked per generated pair)")
    assumptions = ("decompress (compress x) = x for the five libraries (checked by the oracle run for every generated pair)",
                   "over the wire status codes are 0 or 200..999 (1xx are interim responses in net/http, the final status is then 200); "
                   "204/304 only without body bytes and trailers, 304 without Content-Type/Content-Length (net/http removes them over HTTP/1.1)",
                   "header and trailer names are HTTP tokens, not hop-by-hop / framing headers (Content-Length, Transfer-Encoding, "
                   "Connection, Trailer, Host, TE); a name is not used both as header and as trailer of one raw response",
                   "raw request: the verb is not CONNECT; a query string written in the URI has no space / non-ASCII byte (it goes onto the "
                   "request line untouched); a URI starting with exactly two slashes is not combined with listed query parameters "
                   "(url.Parse reads an authority there; not modelled); a URI not starting with '/', '?' or '#' runs into the authority "
                   "of the request URL and is refused or sent elsewhere - modelled as refused, the Go harness refuses any request whose "
                   "authority is not the given server's")
    level_text = ("Machine-checked proof (Coq) that the model of the raw body encoders is invertible for all item lists, that for every "
                  "history of handler actions and raw-response choices the inner writer ends in exactly the raw emission or exactly "
                  "the handler's own output, that the streaming interceptor hands the handler exactly the stream it wraps unless the "
                  "first request carries a raw response (then the handler never runs), and that the raw request replaces every part of "
                  "the built request with a request target that keeps the given path byte for byte (percent-escapes undecoded) for "
                  "every URI made of path characters, followed by the untouched or merged query; the model is tied "
                  "to the Go code by a differential run (recorder, scripted stream and real HTTP/1.1 + h2c servers) on every check.")
    level_note = ("Partial in this sense: net/http serialisation, ResponseRecorder, net/url (modelled in Gallina for references without "
                  "authority), base64 and the compression libraries are modelled / oracles, exercised by the differential run, not "
                  "proved; the correspondence model <-> Go is sampled. Paths containing characters that cannot stand in a path are "
                  "re-encoded by net/url as a whole (request_path_meaning: same decoded path), not sent byte for byte.")
    technique = "Coq proofs (induction over item lists and action histories, state invariant); differential model-vs-Go correspondence"
    go_timeout = 900

    def __init__(self):
        self._oracle_bad = []

    # ---- oracle -------------------------------------------------------------------------------
    def oracle(self, pairs):
        """{(comp, data)} -> {(comp, data): cdata} from the repository's compressor objects"""
        pairs = sorted(pairs)
        if not pairs:
            return {}
        d = os.path.join(core.BUILD, self.id, "oracle")
        os.makedirs(d, exist_ok=True)
        cf, of = os.path.join(d, "oracle.cases"), os.path.join(d, "oracle.out")
        chunks = [pairs[i:i + 200] for i in range(0, len(pairs), 200)]
        with open(cf, "w") as f:
            for i, ch in enumerate(chunks):
                f.write(core.sx(["c17.oracle", i, [[c, dt] for c, dt in ch]]) + "\n")
        b = core.go_test_bin(self, self.packages["internal"])
        core.run_go(b, self.packages["internal"], cf, of, timeout=300)
        res = core.read_results(of)
        out = {}
        for i, ch in enumerate(chunks):
            r = core.parse_sx(res[str(i)])
            for (c, dt), e in zip(ch, r):
                if len(e) != 2:
                    raise core.HarnessError("C17 oracle: no compressor for %r" % (c,))
                out[(c, dt)] = e[0]
                if e[1] != 1:
                    self._oracle_bad.append((c, dt))
        return out

    def finalize(self, cases):
        """resolve "actual" lengths and attach the oracle table to every case"""
        need = set()
        for c in cases:
            for ct in walk_contents(c[1:], c[0]):
                if ct and ct[0] != 0 and ct[2] in REAL:
                    need.add((ct[2], bytes(ct[1])))
        tbl = self.oracle(need)

        def clen(ct):
            if not ct or ct[0] == 0:
                return 0
            if ct[2] in REAL:
                return len(tbl[(ct[2], bytes(ct[1]))])
            return len(ct[1])
        out = []
        for c in cases:
            for it in items_of(c[1:], c[0]):
                if it[1] and isinstance(it[1][0], str):
                    n = clen(it[2]) + {"actual": 0, "actual+1": 1, "actual-1": -1}[it[1][0]]
                    it[1] = [max(n, 0)]
            t = []
            seen = set()
            for ct in walk_contents(c[1:], c[0]):
                if ct and ct[0] != 0 and ct[2] in REAL:
                    k = (ct[2], bytes(ct[1]))
                    if k not in seen:
                        seen.add(k)
                        t.append([k[0], k[1], tbl[k]])
            c[1] = t
            out.append(c)
        return out

    def extra(self, ctx):
        if self._oracle_bad:
            c, dt = self._oracle_bad[0]
            return [core.Violation("compression %d does not round-trip %r (hypothesis of the invertibility theorems)" % (c, dt),
                                   "; C17: decompress (compress x) <> x for compression %d, data #%s\n" % (c, dt.hex()),
                                   "no-failing-input-found")]
        return []

    def nontrivial(self, case, res):
        return "657272" not in res[:16] and "6261642d63617365" not in res and len(res) > 24

    def describe(self, case, g, m):
        return {"c17.msg": "message encoder", "c17.stream": "stream encoder", "c17.writer": "raw-or-normal arbitration (recorder)",
                "c17.live": "raw response over the wire", "c17.request": "raw request substitution",
                "c17.cache": "streaming interceptor / cached first request"}[case[0]] + \
            ": implementation differs from the proved model"

    # ---- generation ---------------------------------------------------------------------------
    def generate(self, rng, tier):
        self._oracle_bad = []
        g = Gen(rng)
        big = tier != "quick"
        cases = []
        # message encoder: every data kind x compression x a few payloads
        for dk in (0, 1, 2, 3):
            for comp in range(0, 9):
                for dt in (b"", b"x", b"hello world", bytes(range(0, 256, 7))):
                    cases.append(["c17.msg", None, [dk, dt if dk else b"", comp]])
        cases.append(["c17.msg", None, []])
        for _ in range(1000 if not big else 5000):
            cases.append(["c17.msg", None, g.contents()])
        # stream encoder: all flags, then random lists
        for fl in range(0, 258):
            cases.append(["c17.stream", None, [[fl, [], [1, bytes([fl % 256]), rng.choice([1, 2, 3, 4, 5, 6])]]]])
            if fl % 4 == 0:
                cases.append(["c17.stream", None, [[fl, ["actual"], [1, b"ab", rng.choice(REAL)]], [255 - fl % 256, [], g.contents()]]])
        for _ in range(6000 if not big else 30000):
            cases.append(["c17.stream", None, g.items(5)])
        for _ in range(600 if not big else 3000):   # well-formed only: the invertibility domain
            cases.append(["c17.stream", None, [[rng.randrange(256), rng.choice([[], ["actual"]]), g.contents(nil=0, bad=0)]
                                               for _ in range(rng.randint(1, 6))]])
        # writer: bounded-exhaustive action sequences
        r1 = [0, [["x-a", ["1", "2"]], ["X-A", ["3"]]], [1, [1, b"raw-one", 1]], [["x-t", ["t1", "t2"]]]]
        r2 = [404, [["content-type", ["text/x"]]], [2, [[0, [], [2, b"ab", 2]], [2, [3], [1, b"xyz", 0]]]], []]
        alpha = [[1, "x-h", "hv"], [3, "x-h"], [4, 201], [5, b"handler"], [6], [7, r1], [7, r2], [8]]
        maxlen = 3 if not big else 4
        for n in range(0, maxlen + 1):
            for seq in itertools.product(alpha, repeat=n):
                cases.append(["c17.writer", None, rng.choice([[], [["vary", ["Origin"]]]]), _copy(list(seq))])
        hnames = ["x-h", "X-A", "x-a", "Content-Type", "x-t", "Trailer", "vary"]
        for _ in range(5000 if not big else 20000):
            ops = []
            for _ in range(rng.randint(0, 8)):
                k = rng.choice([1, 1, 2, 3, 4, 5, 5, 6, 7, 7, 8])
                if k in (1, 2):
                    nm = rng.choice(hnames)
                    ops.append([k, nm, rng.choice(["X-T", "x-t"]) if nm == "Trailer" else rng.choice(VALUES)])
                elif k == 3:
                    ops.append([3, rng.choice(hnames)])
                elif k == 4:
                    ops.append([4, rng.choice([200, 201, 404, 500, 999, 100] if rng.random() < 0.97 else [0, 99, 1000])])
                elif k == 5:
                    ops.append([5, rng.choice([b"", b"h", b"handler-bytes", b"<html>"])])
                elif k == 7:
                    ops.append([7, g.resp(statuses=STATUSES + [204, 304, 999] + ([99, 1000, 5] if rng.random() < 0.1 else []))])
                else:
                    ops.append([k])
            cases.append(["c17.writer", None, g.headers(["vary", "x-mw", "X-A", "access-control-allow-origin"], 2), ops])
        # live: real reference server, both HTTP versions
        n_live = 3000 if not big else 8000
        for i in range(n_live):
            ver, rpc = 1 + i % 2, (i // 2) % 6
            cases.append(["c17.live", None, ver, rpc, [self._live_resp(g, rng)], rng.randint(1, 3)])
        for ver in (1, 2):
            for rpc in range(6):
                cases.append(["c17.live", None, ver, rpc, [], 2])
                cases.append(["c17.live", None, ver, rpc, [[0, [], [0], []]], 1])
                # body-less statuses: decidable when no body bytes and no trailers are prescribed (see live_observable)
                for st in (204, 304):
                    for _ in range(2 if not big else 10):
                        hn = [h for h in HDR_NAMES if st == 204 or h.lower() != "content-type"]
                        cases.append(["c17.live", None, ver, rpc, [[st, g.headers(hn, 4), rng.choice([[0], [1, []], [2, []]]), []]],
                                      rng.randint(1, 3)])
        # request substitution
        for i in range(4000 if not big else 12000):
            cases.append(["c17.request", None, 1 + i % 2, self._rawreq(g, rng)])
        cases += self._target_cases(g, rng, big)
        # the streaming interceptor: every script of length <= 3 (thorough 4) over {request, request with raw response,
        # io.EOF, another error} x procedure x 0..4 Receives x normal response started or not
        alpha = [[1, b"a", 0], [1, b"b", 1], [0, 0], [0, 7]]
        for ln in range(0, (3 if not big else 4) + 1):
            for script in itertools.product(alpha, repeat=ln):
                for proc in (0, 3, 4, 5):
                    for n in range(0, 5):
                        st = 1 if (len(cases) % 3 == 0) else 0
                        cases.append(["c17.cache", None, proc, st, _copy(list(script)), n])
        for _ in range(300 if not big else 5000):
            script = [rng.choice([[1, g.data(), rng.choice([0, 0, 0, 1])], [0, rng.choice([0, 0, 1, 2, 9])]]) for _ in range(rng.randint(0, 7))]
            cases.append(["c17.cache", None, rng.choice([0, 3, 4, 5]), rng.choice([0, 0, 1]), script, rng.randint(0, 8)])
        return self.finalize(cases)

    @staticmethod
    def _live_resp(g, rng):
        r = g.resp(statuses=STATUSES, nil=0.05, bad=0.03)
        # a name is not used both as header and as trailer (see assumptions); hop-by-hop names never generated
        return r

    # path segments: plain, percent-escapes whose decoding changes the path (reserved characters, '%', space,
    # UTF-8 sequences; upper- and lower-case hex), sub-delims, characters url.URL re-escapes, malformed escapes
    SEG_PLAIN = [b"a", b"b.c", b"connectrpc.conformance.v1.ConformanceService", b"Unary", b"x_y", b"~z", b"0", b""]
    SEG_ESC = [b"some.pkg%2FService", b"%2f", b"a%2Fb%2fc", b"100%25", b"%25", b"%2525", b"a%20b", b"%20", b"%41", b"%7e",
               b"%C3%A9", b"%c3%a9", b"%E2%9C%93", b"%e2%9c%93", b"%3F", b"%3f", b"%23", b"%3B", b"%2B", b"%00", b"%7F", b"%ff"]
    SEG_SUB = [b"a+b", b"+", b"a;b", b";v=1", b"a;b=c;d", b"a:b", b"@", b"!$&'()*,=", b"[x]", b"*", b"a=b&c"]
    SEG_REESC = [b"a b", b" ", b"\"q\"", b"<x>", b"^", b"`", b"{|}", b"\\", b"\xc3\xa9", b"\xe2\x9c\x93", b"a b%2Fc", b"%2F x"]
    SEG_BAD = [b"%", b"%2", b"%zz", b"%2G", b"a%", b"\x01", b"\x7f", b"\x1f"]
    URI_QUERIES = [b"a=1", b"a=1&b=2", b"a=1&a=2", b"b=2&a=1&b=1", b"a=", b"a", b"=v", b"a=1&&b=2", b"&", b"a=x+y", b"a=%2F",
                   b"a=%2f&a=%2B", b"q=%C3%A9", b"a=1;b=2", b"a=1&c;d=2&e=3", b"a=%zz&b=1", b"%zz=1", b"a==b", b"a=1?b=2", b"?",
                   b"message=e30&encoding=json", b"a=%26%3D", b"~-._=~-._", b"a=!$'()*,:@/[]", b"a=%25"]
    FRAGMENTS = [b"", b"frag", b"f%20x", b"f?x=1", b"f#g", b"a b", b"%zz", b"%", b"\x01", b"!()*", b"%2F"]
    Q_NAMES = [b"a", b"q", b"message", b"encoding", b"p q", b"k&=", b"connect", b"\xc3\xa9", b"%41", b"a+b", b";", b"", b"B", b"b"]
    Q_VALS = [b"1", b"v w", b"", b"a&b=c", b"100%", b"x+y", b"proto", b"v1", b"%2F", b"\xc3\xa9", b"a;b", b"#", b"?", b"/", b"~"]

    @classmethod
    def _uri(cls, rng, special=0.6):
        """a request URI: mostly origin-form; path with special segments; query; fragment"""
        def seg():
            k = rng.random()
            if k > special:
                return rng.choice(cls.SEG_PLAIN)
            pool = rng.choice([cls.SEG_ESC, cls.SEG_ESC, cls.SEG_ESC, cls.SEG_SUB, cls.SEG_SUB, cls.SEG_REESC, cls.SEG_PLAIN])
            if rng.random() < 0.04:
                pool = cls.SEG_BAD
            return rng.choice(pool)
        k = rng.random()
        if k < 0.86:
            uri = b"/" + b"/".join(seg() for _ in range(rng.randint(0, 3)))
        elif k < 0.90:
            uri = b""
        elif k < 0.94:
            uri = rng.choice([b"//a/b", b"///a", b"//", b"//a%2Fb", b"//h:1/p", b"///", b"////x"])
        else:   # no leading slash: runs into the authority
            uri = rng.choice([b"a/b", b"1/x", b"@h/p", b"a:b", b"*", b"%2Fa", b"x", b":1/p", b"0", b".", b"a b", b"http://h/p", b"[::1]/p"])
        k = rng.random()
        if k < 0.4:
            uri += b"?" + rng.choice(cls.URI_QUERIES)
        elif k < 0.47:
            uri += b"?"
        k = rng.random()
        if k < 0.15:
            uri += b"#" + rng.choice(cls.FRAGMENTS)
        return uri

    @classmethod
    def _params(cls, g, rng, nraw=None, nenc=None):
        nraw = rng.choice([0, 0, 1, 2, 3]) if nraw is None else nraw
        nenc = rng.choice([0, 0, 1, 2, 3]) if nenc is None else nenc
        rawq = [[rng.choice(cls.Q_NAMES), [rng.choice(cls.Q_VALS) for _ in range(rng.choice([0, 1, 1, 2, 3]))]] for _ in range(nraw)]
        encq = [[rng.choice(cls.Q_NAMES), g.contents(nil=0.05, bad=0.04), rng.choice([0, 1, 1])] for _ in range(nenc)]
        return rawq, encq

    @classmethod
    def _rawreq(cls, g, rng, uri=None, nraw=None, nenc=None, light=False):
        verb = rng.choice(["POST", "POST", "GET", "PUT", "DELETE", "PATCH", "post", "", "M-SEARCH", "QUERY"])
        if rng.random() < 0.03:
            verb = rng.choice(["BAD VERB", "P\tOST", "GE/T"])
        if uri is None:
            uri = cls._uri(rng)
        rawq, encq = cls._params(g, rng, nraw, nenc)
        if light:
            return [verb, uri, [], rawq, encq, [0]]
        hdrs = g.headers(["x-a", "X-A", "content-type", "X-Req", "accept-encoding", "connect-protocol-version", "x-b"], 4)
        return [verb, uri, hdrs, rawq, encq, g.body(nil=0.05, bad=0.03)]

    def _target_cases(self, g, rng, big):
        """request-target sweep: every special segment and every URI query / fragment form x {0,1,2,3} raw and
        encoded parameters x both HTTP versions (headers and body left out: they are covered by the random cases)"""
        out = []
        i = 0
        segs = self.SEG_ESC + self.SEG_SUB + self.SEG_REESC + self.SEG_BAD
        shapes = [(0, 0), (1, 0), (0, 1), (2, 1), (3, 3)] if big else [(0, 0), (1, 0), (0, 1)]
        for sg in segs:
            for (nr, ne) in shapes:
                uri = rng.choice([b"/" + sg, b"/" + sg + b"/Method", b"/pkg.Service/" + sg, b"/" + sg + b"/" + rng.choice(segs)])
                if rng.random() < 0.3:
                    uri += b"?" + rng.choice(self.URI_QUERIES)
                out.append(["c17.request", None, 1 + i % 2, self._rawreq(g, rng, uri, nr, ne, light=True)])
                i += 1
        for q in self.URI_QUERIES + [b""]:
            for (nr, ne) in shapes:
                uri = rng.choice([b"/p", b"/a%2Fb", b"", b"/"]) + b"?" + q
                out.append(["c17.request", None, 1 + i % 2, self._rawreq(g, rng, uri, nr, ne, light=True)])
                i += 1
        for f in self.FRAGMENTS:
            for (nr, ne) in shapes:
                uri = rng.choice([b"/p", b"/a%2Fb?x=1", b"", b"/p?"]) + b"#" + f
                out.append(["c17.request", None, 1 + i % 2, self._rawreq(g, rng, uri, nr, ne, light=True)])
                i += 1
        return out


def _copy(v):
    if isinstance(v, list):
        return [_copy(x) for x in v]
    return v


PROP = C17()
