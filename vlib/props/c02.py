"""C02 - derived expectations agree with the reference peers on any well-formed test case.

Case trees (see harness/C02/.../zz_verif_c02_test.go and C02_Model.v):
  test    := (name stype reqheaders (request ...)) | (name stype reqheaders (request ...) 1)
             the second form is a Connect GET case: use_get_http_method, method IdempotentUnary (message kind 0 is then
             IdempotentUnaryRequest), in a suite of its own that relies_on_connect_get (Connect only, identity only)
  request := (kind full data def?)        kind 0 Unary 1 ClientStream 2 ServerStream 3 BidiStream 4 other message 5 unknown URL
  def     := (headers trailers (data ...) err?)      err := (code msg? ((kind content) ...))
  c02.expect (tests)                       -> loader outcome + derived expectation of every permutation under the codecs
                                              proto and json: (suite/name codec expected)
  c02.live   (gc gs) (cfg ...) (tests)     -> per permutation: verdict and projected observed result, real peers in-process
"""
import base64
import itertools

import random

from ..core import HarnessError, Prop, Violation, parse_sx, sx, known_findings, _shrink_candidates

TOO_MANY_FILES = b"too many open files".hex()

UNARY, CLIENT, SERVER, HALF, FULL = 1, 2, 3, 4, 5
KIND_OF = {UNARY: 0, CLIENT: 1, SERVER: 2, HALF: 3, FULL: 3}

NAME_POOL = ["x-a", "X-Custom", "x-UPPER-lower", "Xb", "x-data-bin", "X-Other-Bin", "x_under", "x-1", "Z"]
MSG_POOL = [b"oops", b"", b"with space", "über".encode(), b"100% sure", b"two\nlines", b"a,b", "☃ snow".encode()]
VAL_CHARS = [c for c in range(33, 127) if c != 44]


def hdr_value(rng, name):
    if name.lower().endswith("-bin"):
        raw = bytes(rng.randrange(256) for _ in range(rng.randint(1, 12)))
        return base64.b64encode(raw).rstrip(b"=")
    n = rng.randint(1, 12)
    body = [rng.choice(VAL_CHARS) for _ in range(n)]
    for i in range(1, n - 1):
        if rng.random() < 0.15:
            body[i] = 32
    return bytes(body)


def recase(rng, name):
    """the same name up to letter case (never equal to the input when it has a letter)"""
    for _ in range(8):
        out = "".join(c.upper() if rng.random() < 0.5 else c.lower() for c in name)
        if out != name:
            return out
    return name.swapcase()


def headers(rng, maxn=3, pool=None, must=()):
    """distinct names up to case, 1-3 values each ("repeated" = several values under one name); the names in
    `must` (any letter case) are always there"""
    pool = pool or NAME_POOL
    names = list(must)
    taken = {n.lower() for n in names}
    for n in rng.sample(pool, rng.randint(0, min(maxn, len(pool)))):
        if n.lower() not in taken:
            if rng.random() < 0.25:
                n = recase(rng, n)
            names.append(n)
            taken.add(n.lower())
    rng.shuffle(names)
    return [[n, [hdr_value(rng, n) for _ in range(rng.choice([1, 1, 2, 3]))]] for n in names]


def overlapping(rng, hs, mode=None):
    """trailers that share one or two names with the headers `hs`: in the same letter case, in another one, or both"""
    if not hs:
        hs.extend(headers(rng, maxn=2, must=[rng.choice(NAME_POOL)]))
    picked = rng.sample([h[0] for h in hs], min(len(hs), rng.choice([1, 1, 2])))
    must = []
    for i, n in enumerate(picked):
        m = mode or rng.choice(["same", "case"])
        if m == "both":
            m = "same" if i == 0 else "case"
        must.append(n if m == "same" else recase(rng, n))
    return headers(rng, maxn=2, must=must)


def payload(rng, i=None):
    r = rng.random()
    if r < 0.15:
        return b""
    n = rng.randint(1, 12) if r < 0.7 else rng.randint(13, 300)
    return bytes(rng.randrange(256) for _ in range(n))


def error(rng):
    dets = []
    for _ in range(rng.choice([0, 0, 1, 2, 3])):
        txt = rng.choice([b"", b"detail", "détail".encode(), bytes(rng.choice(b"abcxyz -_/") for _ in range(rng.randint(1, 60)))])
        dets.append([rng.randint(0, 1), txt])
    msg = [] if rng.random() < 0.2 else [rng.choice(MSG_POOL)]
    return [rng.randint(1, 16), msg, dets]


def definition(rng, st, nresp=None, err=None, overlap=None, ndata=None):
    """overlap: None = names of headers and trailers drawn independently (they overlap now and then) and forced to
    overlap in four of ten definitions; "same" / "case" / "both" = forced, in that letter-case relation"""
    if st in (UNARY, CLIENT):
        data = [payload(rng)] if (ndata if ndata is not None else rng.random() < 0.8) else []
    else:
        n = nresp if nresp is not None else rng.choice([0, 1, 1, 2, 3, 4, 5])
        data = [payload(rng) for _ in range(n)]
    e = []
    if err is True or (err is None and rng.random() < 0.35):
        e = [error(rng)]
    hs = headers(rng)
    if overlap is not None or rng.random() < 0.4:
        ts = overlapping(rng, hs, overlap)
    else:
        ts = headers(rng)
    return [hs, ts, data, e]


# where the response definitions of a multi-request stream sit.  service.proto: "Servers should only read the response
# definition from the first message in the stream and should ignore any definition set in subsequent messages" (and the
# same for full_duplex): the expectation generator and every handler must honour the FIRST message's definition only
DEF_MODES = ["first", "first", "first", "first", "first+later", "first+later", "later", "later", "all", "none"]


def wf_test(rng, name, st=None, nreq=None, nresp=None, err=None, with_def=None, defs=None, overlap=None, code=None, ndet=None,
            reqhdrs=None, get=False):
    """get=True: a Connect GET case (unary, IdempotentUnary + use_get_http_method): the expectation of each of its
    permutations names the permutation's codec in the echoed query parameters"""
    if get:
        st = UNARY
    st = st or rng.choice([UNARY, UNARY, CLIENT, CLIENT, SERVER, SERVER, HALF, HALF, FULL, FULL, FULL])
    if st in (UNARY, SERVER):
        nreq = 1
    elif nreq is None:
        nreq = rng.choice([0, 1, 1, 2, 2, 3, 4, 6])
    if defs is None:
        if with_def is True:
            defs = rng.choice(["first", "first", "first", "first+later", "all"])
        elif with_def is False:
            defs = rng.choice(["none", "none", "later"])
        else:
            defs = rng.choice(DEF_MODES)
    if nreq == 1 and defs == "later":
        defs = "none"
    later = []
    if defs in ("first+later", "later") and nreq > 1:
        later = rng.sample(range(1, nreq), rng.randint(1, min(3, nreq - 1)))
    elif defs == "all":
        later = list(range(1, nreq))
    reqs = []
    for i in range(nreq):
        d = []
        if i == 0:
            if defs in ("first", "first+later", "all"):
                d = [definition(rng, st, nresp, err, overlap)]
                if d[0][3] and code is not None:
                    d[0][3][0][0] = code
                if d[0][3] and ndet is not None:
                    e = d[0][3][0]
                    while len(e[2]) < ndet:
                        e[2].append([rng.randint(0, 1), rng.choice([b"", b"detail", "d\u00e9tail".encode()])])
                    del e[2][ndet:]
        elif i in later:
            # ignored by every peer and by the expectation: a different definition (other data, metadata, error or none)
            d = [definition(rng, st, None, None if rng.random() < 0.5 else True)]
        data = bytes([i % 256]) + payload(rng)    # distinct per position
        # full_duplex is read from the first message only: later messages may say anything
        full = (1 if st == FULL else 0) if (i == 0 or KIND_OF[st] != 3 or rng.random() < 0.7) else rng.randint(0, 1)
        reqs.append([KIND_OF[st], full, data, d])
    t = [name, st, headers(rng) if reqhdrs is None else reqhdrs, reqs]
    if get:
        t.append(1)
    return t


def t_stype(t): return t[1]
def t_reqs(t): return t[3]
def t_get(t): return len(t) > 4 and bool(t[4])


def get_tests(rng):
    """Connect GET shapes that every run contains (reference pair; each runs under {HTTP/1.1, h2c} x {proto, json}, so one
    definition always has permutations under BOTH codecs in one library): data / empty data / no definition / errors
    with 0-3 details / names shared by headers and trailers / -bin names everywhere / no request headers"""
    T = wf_test
    out = [
        T(rng, "get-data", get=True, err=False, defs="first"),
        T(rng, "get-data-2", get=True, err=False, defs="first"),
        T(rng, "get-no-def", get=True, defs="none"),
        T(rng, "get-no-headers", get=True, err=False, defs="first", reqhdrs=[]),
        T(rng, "get-error", get=True, err=True, defs="first"),
        T(rng, "get-error-overlap", get=True, err=True, defs="first", overlap="both"),
        T(rng, "get-data-overlap", get=True, err=False, defs="first", overlap="case"),
    ]
    for nd in range(4):
        out.append(T(rng, "get-error-%d-details" % nd, get=True, err=True, defs="first", code=rng.randint(1, 16), ndet=nd))
    t = T(rng, "get-bin-everywhere", get=True, err=False, defs="first", reqhdrs=headers(rng, maxn=1, must=["x-req-bin", "X-Mixed-Bin"]))
    d = t[3][0][3][0]
    d[0] = headers(rng, maxn=1, must=["x-data-bin", "X-Rsp-BIN"])
    d[1] = headers(rng, maxn=1, must=[rng.choice(["x-data-bin", "X-Data-Bin"]), "x-trl-bin"])
    out.append(t)
    e = T(rng, "get-empty-data", get=True, err=False, defs="first")
    e[3][0][3][0][2] = [b""]
    out.append(e)
    return out


GET_SIZES = [4 << 10, 8 << 10, 16 << 10, 64 << 10]


def big_get_tests(rng):
    """Connect GET cases whose request message is large ("arbitrary payload bytes"): 4, 8, 16 and 64 KiB of request data, i.e.
    query strings of 5.5 to 117 KiB (the message travels base64url-encoded in the URL; under the json codec it is base64 inside
    the JSON first).  Whether a call goes out as GET is decided by use_get_http_method alone, never by the size of the URL
    (C02_Model: sent_as_get / documented_get_setup).  With data and with an error; each runs under {HTTP/1.1, h2c} x {proto, json}"""
    out = []
    for i, n in enumerate(GET_SIZES):
        t = wf_test(rng, "get-%dk" % (n >> 10), get=True, err=(i % 2 == 1), defs="first")
        t[3][0][2] = bytes(rng.randrange(256) for _ in range(n))
        out.append(t)
    return out


def first_def(t):
    rs = t_reqs(t)
    if rs and rs[0][3]:
        return rs[0][3][0]
    return None


def well_shaped(t):
    """a shrink candidate that still has the shape of a test tree (the shrinker drops and empties list elements freely)"""
    try:
        if not (isinstance(t, list) and len(t) in (4, 5) and isinstance(t[1], int) and isinstance(t[2], list) and isinstance(t[3], list)):
            return False
        if len(t) == 5 and t[4] not in (0, 1):
            return False
        for r in t[3]:
            if not (isinstance(r, list) and len(r) == 4 and isinstance(r[0], int) and isinstance(r[1], int) and isinstance(r[3], list)):
                return False
            if r[3] and not (isinstance(r[3][0], list) and len(r[3][0]) == 4 and all(isinstance(x, list) for x in r[3][0])):
                return False
        return True
    except Exception:
        return False


def is_fd_immediate_error_multi(t):
    d = first_def(t)
    return t_stype(t) == FULL and len(t_reqs(t)) >= 2 and d is not None and not d[2] and bool(d[3])


def is_zero_request_stream(t):
    return t_stype(t) in (CLIENT, HALF, FULL) and not t_reqs(t)


def is_half_multi(t):
    return t_stype(t) == HALF and len(t_reqs(t)) >= 2


def split_for_grpc_server(gs, cfgs, tests):
    """the grpc-go reference server sends response headers as soon as the first request of a bidi stream arrives; over
    HTTP/1.1 (gRPC-Web) net/http then closes the request body, so whether the remaining requests of a half-duplex stream
    can still be read is a race (known class grpc-server-h1-half-duplex-early-headers): such shapes run over HTTP/2 only
    here, and over HTTP/1.1 in a batch of their own in the thorough tier"""
    if not gs:
        return [(cfgs, tests)]
    racy = [t for t in tests if is_half_multi(t)]
    rest = [t for t in tests if not is_half_multi(t)]
    out = [(cfgs, rest)] if rest else []
    if racy:
        out.append(([c for c in cfgs if c[0] == 2], racy))
    return out


def cfg_matrix(tier, gc, gs):
    vers = [1, 2]
    comps = [1, 2] if tier == "quick" else [1, 2, 3, 4, 5, 6]
    tls = [0] if tier == "quick" else [0, 1]
    out = []
    for v, p, c, z, s in itertools.product(vers, [1, 2, 3], [1, 2], comps, tls):
        if p == 2 and v != 2:
            continue
        if gc or gs:
            if p == 1 or c != 1 or z not in (1, 2) or s:
                continue
            if gc and p != 2:
                continue
            if p == 2 and v != 2:
                continue
        out.append([v, p, c, z, s])
    return out


def malformed_test(rng, name):
    """a test case that may be outside the well-formed fragment: the loader must reject or accept it, never crash"""
    t = wf_test(rng, name)
    if rng.random() < 0.12:
        t.append(1)                                                 # use_get_http_method on any stream type
    r = rng.random()
    if r < 0.15:
        t[1] = rng.choice([0, 6, 7, 1, 2, 3, 4, 5])                 # other stream type, same messages
    elif r < 0.35 and t[3]:
        t[3][0][0] = rng.choice([0, 1, 2, 3, 4, 5])                 # first message of another type
    elif r < 0.45:
        t[0] = b""                                                  # no name
    elif r < 0.6:
        t[3] = []                                                   # no request at all
    elif r < 0.75 and t[3]:
        t[3] = t[3] + [list(x) for x in t[3]]                       # more requests (also for unary / server stream)
    elif r < 0.9:
        t[1] = FULL
        for q in t[3]:
            q[0], q[1] = 3, 1
    return t


def targeted_tests(rng, gs):
    """three batches of shapes that every run must contain (for every pair of peers): A. counts of requests and responses,
    zero and many requests, every stream type; B. header/trailer names that overlap, -bin names in every position,
    definitions on later requests; C. every error code, 0-3 details, over all five stream types"""
    T = wf_test
    a = [
        T(rng, "more-responses", st=FULL, nreq=2, nresp=5, err=False, defs="first"),
        T(rng, "more-requests-error", st=FULL, nreq=4, nresp=2, err=True, defs="first"),
        T(rng, "half-immediate-error", st=HALF, nreq=3, nresp=0, err=True, defs="first"),
        T(rng, "fd-immediate-error-1", st=FULL, nreq=1, nresp=0, err=True, defs="first"),
        T(rng, "cs-error", st=CLIENT, nreq=3, err=True, defs="first"),
        T(rng, "ss-error-after", st=SERVER, nresp=3, err=True, defs="first"),
        T(rng, "ss-immediate-error", st=SERVER, nresp=0, err=True, defs="first"),
        T(rng, "ss-none", st=SERVER, nresp=0, err=False, defs="first"),
        T(rng, "unary-error", st=UNARY, err=True, defs="first"),
        T(rng, "unary-no-def", st=UNARY, defs="none"),
        T(rng, "no-def", st=HALF, nreq=2, defs="none"),
        T(rng, "cs-many", st=CLIENT, nreq=7, defs="first"),
        T(rng, "cs-many-20", st=CLIENT, nreq=20, err=False, defs="first"),
        T(rng, "fd-many", st=FULL, nreq=6, nresp=6, defs="first"),
        T(rng, "fd-many-12", st=FULL, nreq=12, nresp=12, err=True, defs="first"),
        T(rng, "hd-many-10", st=HALF, nreq=10, nresp=4, defs="first"),
        T(rng, "ss-many-9", st=SERVER, nresp=9, defs="first"),
    ]
    if not gs:      # zero requests against the grpc-go server: known hang class (thorough tier, batch of its own)
        a += [T(rng, "cs-zero", st=CLIENT, nreq=0), T(rng, "fd-zero", st=FULL, nreq=0), T(rng, "hd-zero", st=HALF, nreq=0)]
    b = []
    # names shared by response headers and trailers: same letter case / another one / one of each; data and error
    for st, sn in [(UNARY, "unary"), (CLIENT, "cs")]:
        for err in (True, False):
            for ov in ("same", "case", "both"):
                b.append(T(rng, "%s-%s-overlap-%s" % (sn, "err" if err else "data", ov), st=st, nreq=(1 if st == UNARY else 2),
                           err=err, defs="first", overlap=ov))
    b.append(T(rng, "ss-overlap", st=SERVER, nresp=2, err=True, defs="first", overlap="both"))
    b.append(T(rng, "hd-overlap", st=HALF, nreq=2, nresp=0, err=True, defs="first", overlap="both"))
    b.append(T(rng, "fd-overlap", st=FULL, nreq=2, nresp=2, err=False, defs="first", overlap="both"))
    # -bin names as request header, response header and response trailer at once (lower and mixed case)
    for st, sn in [(UNARY, "unary"), (CLIENT, "cs"), (SERVER, "ss"), (HALF, "hd"), (FULL, "fd")]:
        t = T(rng, "%s-bin-everywhere" % sn, st=st, nreq=(1 if st in (UNARY, SERVER) else 2), nresp=2, defs="first",
              err=(st in (UNARY, HALF)), reqhdrs=headers(rng, maxn=1, must=["x-req-bin", "X-Mixed-Bin"]))
        d = t[3][0][3][0]
        d[0] = headers(rng, maxn=1, must=["x-data-bin", "X-Rsp-BIN"])
        d[1] = headers(rng, maxn=1, must=[rng.choice(["x-data-bin", "X-Data-Bin"]), "x-trl-bin"])
        b.append(t)
    # the definition that counts is the first message's: later only / several different ones / first and later / none
    for st, sn in [(CLIENT, "cs"), (HALF, "hd"), (FULL, "fd")]:
        b.append(T(rng, "%s-def-later-only" % sn, st=st, nreq=3, defs="later"))
        b.append(T(rng, "%s-def-second-only" % sn, st=st, nreq=2, defs="later"))
        b.append(T(rng, "%s-def-all-different" % sn, st=st, nreq=4, defs="all", nresp=(2 if st != CLIENT else None), err=False))
        b.append(T(rng, "%s-def-first-and-later" % sn, st=st, nreq=3, defs="first+later", nresp=(1 if st != CLIENT else None), err=True))
        b.append(T(rng, "%s-def-none" % sn, st=st, nreq=3, defs="none"))
    c = []
    sts = [UNARY, CLIENT, SERVER, HALF, FULL]
    for code in range(1, 17):
        st = sts[(code + rng.randrange(5)) % 5] if code > 5 else sts[code - 1]
        nresp = None if st in (UNARY, CLIENT) else rng.choice([0, 1, 2])
        nreq = 1 if (st == FULL and nresp == 0) else (None if st in (UNARY, SERVER) else rng.choice([1, 2, 3]))
        c.append(T(rng, "code-%d" % code, st=st, nreq=nreq, nresp=nresp, err=True, defs="first", code=code, ndet=code % 4))
    return [a, b, c]


class C02(Prop):
    id = "C02"
    props = "C02_Props"
    coq_files = ("Base", "C03_Consts", "C03_Model", "C03_Spec", "C03_Proofs", "C02_Consts", "C02_Model", "C02_Spec", "C02_Proofs", "C02_Props")
    models = ("C02_Model",)
    packages = {"cc": "internal/app/connectconformance"}
    kinds = {"c02.expect": "cc", "c02.live": "cc"}
    consts = ("cc",)
    go_timeout = 1500
    rule = ("c02.expect: every (stream type x 0-3 requests x 0-3 responses x error x definition present) shape plus seeded random "
            "suites of 1-4 cases, a third of them outside the well-formed fragment (wrong message type, stream type 0/6/7, no name, "
            "duplicate names, no requests, surplus requests, use_get_http_method on any stream type) through the real parseTestSuites + "
            "newTestCaseLibrary under TWO config cases (codec proto and json), one expectation per permutation, Connect GET cases "
            "(IdempotentUnary + use_get_http_method, suite relies_on_connect_get) among them; "
            "c02.live: seeded random well-formed cases (all five stream types, 0-6 requests, 0-5 responses incl. more responses than "
            "requests, empty and 1-300 byte payloads, errors of every code with/without message and 0-3 details after 0..n responses, "
            "headers/trailers with 1-3 values, mixed case, -bin, names shared by headers and trailers in the same or another letter "
            "case, the response definition on the first / a later / several / no request, any full_duplex flag on later requests) "
            "plus three targeted batches per peer pair on every run (request/response counts incl. zero and 20 requests; overlapping "
            "names for unary and client-stream with data and with error; -bin names as request header, response header and trailer at "
            "once; definitions on later requests only; every error code 1-16 with 0-3 details), two Connect GET cases in every batch of "
            "the reference pair, a batch of 13 GET shapes and a batch of GET cases with 4, 8, 16 and 64 KiB of request data (URLs of 5.5-117 KiB; each under {HTTP/1.1,h2c} x {proto,json} in ONE library), run by the real runTestCasesForServer "
            "against the in-process reference server / grpc-go server with the reference / grpc-go client under {HTTP/1.1,h2c} x 3 "
            "protocols x {proto,json} x {identity,gzip} (thorough: six compressions, TLS); compared: verdict (pass) and projected "
            "observed result (metadata projected on every name ANY request's definition declares; echoed query parameters projected on "
            "encoding / connect / compression). "
            "non-trivial = at least one permutation ran / at least one expectation was derived")
    trusted_base = ("Coq 8.16.1 kernel", "extraction (ExtrOcamlBasic only) + ocaml/driver.ml", "vlib generators/comparator, Go overlay harness files "
                    "(incl. the go/ast scan of TestVerifConsts that lists the reference client's WithHTTPGet / WithHTTPGetMaxURLSize options)",
                    "C03's model of results.go assert (tied to the code by C03's own check)",
                    "modelled not verified: connect-go, grpc-go, net/http, TLS, compression, the JSON/proto codecs (behind the transport hypotheses)")
    assumptions = ("transport hypotheses (C02_Spec.transport_ok): every header/trailer the sender set arrives under its name (case-insensitively) with its values "
                   "in order up to comma joining; on a failed unary/client-stream call connect-go's error metadata carries per name the header values "
                   "followed by the trailer values; messages, their order, error code/message/details arrive unchanged; the handler sees the client's "
                   "headers under the same rule - validated by sampling on every run, not proved",
                   "header names are HTTP tokens outside the protocol-reserved set, distinct up to case within ONE list (a repeated key is one Header entry with several values, as service.proto says; headers and trailers may share names); values visible ASCII without comma or edge whitespace",
                   "request messages are identified by (message type, request data); UnaryRequest and IdempotentUnaryRequest are both message kind 0 (the unary request of the method called)",
                   "a call issued as Connect GET under a codec reaches the handler with the query parameters encoding=<codec name> and connect=v1 among others (transport_ok.tk_query; connect-go's buildGetURL), sampled on every run; "
                   "GET cases run under the Connect protocol and identity compression only (the reference client never compresses a GET request of this size: the maintainers' restriction in connect_with_get.yaml), hence with the reference pair only")
    level = "proof"   # the transport hypotheses are sampled, not proved: said in level_text and level_note
    level_text = ("Machine-checked proof (Coq) that for every well-formed test case of the deterministic fragment - any stream type, any number of "
                  "requests/responses/headers/details, Connect GET cases included - and every permutation of it (codec, compression) the modelled expectation "
                  "generator (per permutation: a GET case's expectation names the codec), reference/gRPC server handlers and reference/gRPC client "
                  "reports make C03's model of the runner's assert report nothing, for all peer pairs that run the case, under explicit transport hypotheses; that "
                  "the expectation generator and the suite loader never crash on any shape; sampled differential validation of the model (including "
                  "the transport hypotheses) against the real loader and the real in-process peers on every check. The reference client's choice of "
                  "the HTTP method is part of the model (GET options regenerated from its sources): proved that under the documented set-up a case goes "
                  "out as GET exactly when it sets use_get_http_method, for every URL length, and that any cap on the URL length breaks that; GET cases "
                  "with requests of up to 64 KiB run live.")
    level_note = ("Partial: the RPC libraries and HTTP are hypotheses (C02_Spec.transport_ok), validated only by sampling. expectation_met excludes the "
                  "known class fd-immediate-error-multi (proved to FAIL in the model: expectation_unmet_fd_immediate_error) and, for the grpc-go server, "
                  "the zero-request hang class (outside the model: timing). load_total covers expandCases' validations and the expectation generator; "
                  "protoyaml parsing and expandRequestData (C19) / config expansion (C06, C07) are not re-modelled here. sent_as_get is a model of "
                  "connect-go's choice of the method (WithHTTPGet / WithHTTPGetMaxURLSize), compared by the live GET cases, not proved about connect-go.")
    technique = "Coq proof of model-level agreement (composition with C03's assert_iff) + differential model-vs-Go correspondence incl. live in-process runs"

    # ---------------------------------------------------------------- classification of known findings
    def classify(self, case, go_res, model_res):
        if case[0] != "c02.live" or go_res is None or model_res is None:
            return None
        tests = case[3]
        gc, gs = case[1]
        try:
            g, m = parse_sx(go_res), parse_sx(model_res)
        except Exception:
            return None
        if tests and all(is_fd_immediate_error_multi(t) for t in tests):
            # exactly: same permutations, same observed result, only the verdict differs (a failed assertion)
            if isinstance(g, list) and isinstance(m, list) and len(g) == len(m) and all(
                    isinstance(x, list) and len(x) == 4 and x[0] == y[0] and x[1] == y[1] and x[3] == y[3]
                    and isinstance(x[2], list) and x[2] and x[2][0] == b"fail" for x, y in zip(g, m)):
                return "fd-immediate-error-multi"
        if gs and tests and all(is_zero_request_stream(t) for t in tests) and all(c[1] == 2 for c in case[2]):
            return "grpc-server-zero-request-hang"
        if gs and tests and all(is_half_multi(t) for t in tests) and all(c[0] == 1 for c in case[2]):
            return "grpc-server-h1-half-duplex-early-headers"
        return None

    def describe(self, case, g, m):
        if case[0] == "c02.expect":
            return "suite loading / derived expectation differs from the proved model (loader must reject or accept, never crash)"
        return "a well-formed case did not pass against the reference peers, or the observed result differs from the model's"

    def nontrivial(self, case, res):
        if case[0] == "c02.expect":
            return res.startswith("((")
        return "70617373" in res      # at least one permutation passed

    def corpus(self):
        # live corpus cases are run in extra() (cheap localisation instead of the generic list shrinker)
        return [c for c in super().corpus() if c[0] != "c02.live"]

    # ---------------------------------------------------------------- generators
    def generate(self, rng, tier):
        quick = tier == "quick"
        # 1. bounded-exhaustive small shapes through the loader
        k = 0
        for st, nreq, nresp, err, wd in itertools.product([1, 2, 3, 4, 5], range(4), range(4), [False, True], [False, True]):
            k += 1
            t = wf_test(rng, "s%d" % k, st=st, nreq=nreq, nresp=nresp, err=err, with_def=wd)
            if st in (UNARY, SERVER) and nreq != 1:
                # outside the fragment on purpose: 0, 2 or 3 messages for a single-request method
                base = t[3][0]
                t[3] = [list(base) for _ in range(nreq)]
            yield ["c02.expect", [t]]
        # 1b. Connect GET shapes: the expectation of every permutation (the loader runs under both codecs)
        for err, wd, nh in itertools.product([False, True], [False, True], [0, 1, 2]):
            k += 1
            t = wf_test(rng, "s%d" % k, get=True, err=err, with_def=wd, reqhdrs=headers(rng, maxn=nh) if nh else [])
            yield ["c02.expect", [t, wf_test(rng, "s%d" % k, st=UNARY, err=err, with_def=wd)]]   # same name, other suite
        # 2. random suites, a third with malformed members
        for i in range(2000 if quick else 30000):
            n = rng.randint(1, 4)
            bad = rng.random() < 0.34
            tests = []
            for j in range(n):
                nm = "e%d" % j
                tests.append(malformed_test(rng, nm) if bad and rng.random() < 0.6 else wf_test(rng, nm, get=rng.random() < 0.12))
            if bad and n > 1 and rng.random() < 0.2:
                tests[-1][0] = tests[0][0]          # duplicate name (an error within one suite, fine across the two)
            yield ["c02.expect", tests]

    # live runs are generated and evaluated in extra(): a disagreement there is localised to one
    # (test, config case) from the per-permutation results instead of the generic list shrinker,
    # which would start hundreds of servers
    def live_cases(self, rng, tier):
        quick = tier == "quick"
        plan = [((0, 0), 18 if quick else 40, 8), ((0, 1), 5 if quick else 10, 8), ((1, 0), 5 if quick else 10, 8), ((1, 1), 5 if quick else 10, 8)]
        fd_multi = []
        for (gc, gs), ncases, ntests in plan:
            cfgs = cfg_matrix(tier, gc, gs)
            for c in range(ncases):
                tests = []
                while len(tests) < ntests:
                    t = wf_test(rng, "t%d" % len(tests))
                    if is_fd_immediate_error_multi(t):
                        if len(fd_multi) < 3:
                            t[0] = "k%d" % len(fd_multi)
                            fd_multi.append(t)
                        continue
                    if gs and is_zero_request_stream(t):
                        continue            # known hang against the grpc-go server: isolated batch below, thorough tier only
                    tests.append(t)
                if not gc and not gs:
                    # two Connect GET cases per batch of the reference pair: each has permutations under both codecs
                    tests += [wf_test(rng, "g%d" % i, get=True) for i in range(2)]
                for cf, ts in split_for_grpc_server(gs, cfgs, tests):
                    yield ["c02.live", [gc, gs], cf, ts]
        # 4. targeted shapes, every pair, every run
        for gc, gs in [(0, 0), (0, 1), (1, 0), (1, 1)]:
            cfgs = cfg_matrix(tier, gc, gs)
            for tests in targeted_tests(rng, gs):
                for cf, ts in split_for_grpc_server(gs, cfgs, tests):
                    yield ["c02.live", [gc, gs], cf, ts]
        # 4b. Connect GET shapes (reference pair only: Connect protocol), every run; only the config cases they run under
        yield ["c02.live", [0, 0], [c for c in cfg_matrix(tier, 0, 0) if c[1] == 1 and c[3] == 1], get_tests(rng)]
        # 4c. the same with large request messages (long URLs)
        yield ["c02.live", [0, 0], [c for c in cfg_matrix(tier, 0, 0) if c[1] == 1 and c[3] == 1], big_get_tests(rng)]
        # 5. known-finding classes, each in a batch of its own
        if not fd_multi:
            fd_multi = [wf_test(rng, "k0", st=FULL, nreq=2, nresp=0, err=True, defs="first")]
        yield ["c02.live", [0, 0], [[2, 1, 1, 1, 0], [2, 2, 1, 2, 0]], fd_multi[:2]]
        if not quick:
            yield ["c02.live", [0, 1], [[2, 2, 1, 1, 0]], [wf_test(rng, "z0", st=CLIENT, nreq=0)]]
            yield ["c02.live", [0, 1], [[1, 3, 1, 1, 0], [1, 3, 1, 2, 0]],
                   [wf_test(rng, "h%d" % i, st=HALF, nreq=3, with_def=True) for i in range(4)]]

    def extra(self, ctx):
        rng = random.Random(ctx.seed * 7919 + 20002)
        cases = [c for c in super().corpus() if c[0] == "c02.live"] + list(self.live_cases(rng, ctx.tier))
        hang = [c for c in cases if c[1][1] and all(is_zero_request_stream(t) for t in c[3])]
        cases = [c for c in cases if c not in hang]
        # one Go process per chunk of batches: every batch starts its own in-process client and servers, and their
        # sockets add up (a thorough run in one process ran into "too many open files")
        g, m = [], []
        for i in range(0, len(cases), 6):
            gi, mi = ctx.eval_both(cases[i:i + 6], "live%d" % (i // 6))
            g, m = g + gi, m + mi
        if any(x is not None and TOO_MANY_FILES in x for x in g):
            raise HarnessError("live run hit the file-descriptor limit of this machine (too many open files)")
        if hang:        # costs 20 s and the client process: a batch of its own
            gh, mh = ctx.eval_both(hang, "live-hang")
            cases, g, m = cases + hang, g + gh, m + mh
        kf = known_findings(self.id)
        out, seen, perms, passed = [], {}, 0, 0
        for c, gr, mr in zip(cases, g, m):
            if gr is not None:
                perms += gr.count("(#") and len(parse_sx(gr)) if gr.startswith("((") else 0
                passed += gr.count(" #70617373 ")
            if gr == mr:
                continue
            cls = self.classify(c, gr, mr)
            if cls is not None and cls in kf:
                seen.setdefault(cls, c)
                continue
            if len(out) >= 3:
                continue
            small, gs_, ms_ = self.localise(ctx, c, gr, mr)
            body = "; %s: %s\n; impl : %s\n; model: %s\n; replay: ./check %s --replay <this file>\n%s\n" % (
                self.id, self.describe(small, gs_, ms_), gs_, ms_, self.id, sx([small[0], 0] + list(small[1:])))
            out.append(Violation("disagreement on %s" % sx(small)[:300], body))
        for cls, c in seen.items():
            print("KNOWN-FINDING: property=%s class=%s %s (e.g. %s)" % (self.id, cls, kf[cls], sx(c)[:200]))
        ctx.notes["live_cases"] = len(cases)
        ctx.notes["live_permutations"] = perms
        ctx.notes["live_permutations_passed"] = passed
        ctx.notes["live_known_classes_reproduced"] = sorted(seen)
        return out

    def localise(self, ctx, case, gr, mr):
        """one differing (test, config case), then a few rounds of shrinking that single test"""
        kind, pair, cfgs, tests = case
        best = (case, gr, mr)
        try:
            G, M = parse_sx(gr), parse_sx(mr)
            bad = None
            if isinstance(G, list) and isinstance(M, list) and G and isinstance(G[0], list):
                for k, x in enumerate(G):
                    if k >= len(M) or x != M[k]:
                        bad = (x[0], x[1])
                        break
                if bad is None and len(M) > len(G):
                    bad = (M[len(G)][0], M[len(G)][1])
            cand = None
            if bad is not None:
                ts = [t for t in tests if (t[0].encode() if isinstance(t[0], str) else t[0]) == bad[0]]
                if ts:
                    cand = [kind, pair, [bad[1]], ts[:1]]
            if cand is None:
                return case, gr, mr
            (g1,), (m1,) = ctx.eval_both([cand], "live-min")
            if g1 == m1:
                # not reproduced under the one config case: something that needs several permutations of the test in
                # ONE library (e.g. an expectation shared among the permutations of a definition): keep all config cases
                cand = [kind, pair, cfgs, ts[:1]]
                (g1,), (m1,) = ctx.eval_both([cand], "live-min")
                if g1 == m1:
                    return case, gr, mr
                return cand, g1, m1
            cur, gc_, mc_ = cand, g1, m1
            best = (cur, gc_, mc_)
            for _ in range(4):
                cands = []
                for t in _shrink_candidates(cur[3][0]):
                    if well_shaped(t):
                        if pair[1] and (is_zero_request_stream(t) or (is_half_multi(t) and cur[2][0][0] == 1)):
                            continue        # would run into a known timing class of the grpc-go server (20 s each)
                        if is_fd_immediate_error_multi(t):
                            continue
                        cands.append([kind, pair, cur[2], [t]])
                    if len(cands) >= 30:
                        break
                if not cands:
                    break
                gg, mm = ctx.eval_both(cands, "live-shrink")
                hit = None
                for cc, a, b in zip(cands, gg, mm):
                    if a is None or b is None or "6261642d63617365" in b or "6261642d63617365" in a:
                        continue
                    if a != b:
                        hit = (cc, a, b)
                        break
                if hit is None:
                    break
                cur, gc_, mc_ = hit
                best = hit
            return cur, gc_, mc_
        except Exception as exc:      # localisation is a convenience: never let it mask the disagreement itself
            import sys
            print("C02: localise stopped early (%s: %s)" % (type(exc).__name__, exc), file=sys.stderr)
            return best


PROP = C02()
