"""C02 - derived expectations agree with the reference peers (stub, filled in below)."""
from ..core import Prop


class C02(Prop):
    id = "C02"
    props = None
    coq_files = ("Base", "C03_Consts", "C03_Model", "C02_Model")
    models = ("C02_Model",)
    packages = {"cc": "internal/app/connectconformance"}
    kinds = {"c02.expect": "cc", "c02.live": "cc"}

    def generate(self, rng, tier):
        return []


PROP = C02()
