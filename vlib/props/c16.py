"""C16 — trace hand-off delivers each call's trace exactly once to the right waiter."""
import itertools
import os

from .. import core
from ..core import Prop

NAMES = ["a", "b", "c"]
# builder actions: add(RequestBodyData) .. build(); error tags 1..3 are distinct errors, 0 = nil
BACTS = [[0], [1, 0], [1, 1], [2], [3, 3], [4], [5], [6, 0], [6, 2], [7], [8]]


def tracer_seqs(maxlen, nnames, nwaiters):
    """Every action sequence of length <= maxlen, up to renaming of names and waiters (a name /
    waiter may only be used once all smaller ones have been used).  Each Complete carries its
    own trace number (position + 1)."""
    names = NAMES[:nnames]

    def rec(prefix, used_n, used_w):
        yield prefix
        if len(prefix) == maxlen:
            return
        nn = min(used_n + 1, nnames)
        nw = min(used_w + 1, nwaiters)
        for i in range(nn):
            un = max(used_n, i + 1)
            yield from rec(prefix + [[0, names[i]]], un, used_w)
            yield from rec(prefix + [[1, names[i], len(prefix) + 1]], un, used_w)
            yield from rec(prefix + [[3, names[i]]], un, used_w)
            for w in range(nw):
                yield from rec(prefix + [[2, w, names[i]]], un, max(used_w, w + 1))
        for w in range(nw):
            yield from rec(prefix + [[4, w]], used_n, max(used_w, w + 1))

    return rec([], 0, 0)


# two-step builder: add / build as critical sections, (9 k) = the goroutine of action k ends its deferred call
FACTS = [[0], [1, 1], [6, 0], [7], [8]]


def fine_seqs(maxlen):
    def rec(prefix):
        yield prefix
        if len(prefix) == maxlen:
            return
        for a in FACTS:
            yield from rec(prefix + [a])
        for k in range(len(prefix)):
            if prefix[k][0] != 9:
                yield from rec(prefix + [[9, k]])
    return rec([])


# ---- middleware exchanges (c16.mw / c16.wiremw) ----
HOPS = ([[0, 1], [0, 2]] + [[1, p, a, k, v] for p in (0, 1) for a in (0, 1) for k in (1, 2) for v in (1, 2)]
        + [[2], [3, 0, 0], [3, 1, 0], [3, 2, 0], [3, 1, 1], [4], [5], [6]])
# a small alphabet for the bounded-exhaustive part: declare, set declared / prefixed, WriteHeader, Write ok / failing,
# read the request, cancel, panic
HOPS_SMALL = [[0, 1], [1, 0, 0, 1, 1], [1, 1, 0, 2, 2], [1, 1, 1, 1, 3], [2], [3, 1, 0], [3, 1, 1], [4], [5], [6]]
COPS = [[0], [1], [2]]


def rand_body(rng, errs=(0, 0, 0, 2)):
    return [rng.randrange(2), [rng.randrange(3) for _ in range(rng.randrange(4))], rng.choice(errs)]


def rand_trailers(rng):
    keys = rng.sample([1, 2, 3], rng.randrange(4))
    return [[k, [rng.randint(1, 3) for _ in range(rng.randrange(3))]] for k in keys]


def rand_server(rng):
    ops = []
    for _ in range(rng.randint(2, 9)):
        ops.append(rng.choice(HOPS + [[5]] * 0 + [[1, 1, 0, 1, 1], [1, 0, 0, 1, 2], [0, 1], [3, 1, 0]] * 2))
    # cancellation and panics are the rare events
    ops = [o for o in ops if o[0] not in (5, 6) or rng.randrange(3) == 0]
    return [rng.choice(["T/x", "T/x", "T/x", "n", ""]), 0, rand_body(rng), rng.randrange(2), ops]


def rand_client_tail(rng):
    nchunks = rng.randrange(4)
    resp = [rng.randrange(2), [rng.randrange(3) for _ in range(nchunks)], rng.choice((0, 0, 0, 2))]
    ops = []
    for _ in range(rng.randint(0, nchunks + 3)):
        ops.append(rng.choice([[0]] * 6 + [[1], [2]]))
    return [rand_body(rng), rng.choice((0, 1, 1, 1, 2)), rng.choice((0, 0, 0, 0, 3)), resp, rand_trailers(rng), ops]


# ---- request headers of a client-side trace (c16.hdr): (0 k v) the transport reports a field (k = 0: a pseudo-header),
# (1) cancellation completes the trace, (2) a consumer reads the delivered trace's request headers ----
HACTS = [[0, 1, 1], [0, 2, 1], [0, 1, 2], [0, 0, 1], [1], [2]]


def hdr_late(k, m, reads):
    """k fields before the cancellation, m >= 1 fields AFTER it (new keys and a re-written key), then reads"""
    pre = [[0, 1 + i, 1] for i in range(k)]
    post = [[0, (k + 1 + i) if i % 2 == 0 else 1, 2 + i] for i in range(m)]
    return pre + [[1]] + post + [[2]] * reads


# ---- fetchTrace scripts (c16.fetch) ----
def fetch_ok(acts):
    """A fetch goroutine parked on a slot that is replaced or cleared can only end by the 5 s TraceTimeout; such
    scripts are kept out of the quick tier (python mini-model of who is parked where).  Returns the script closed
    by the completions that release whoever is still parked, or None."""
    slot, parked = {}, {}
    for a in acts:
        k, n = a[0], a[1] if len(a) > 1 else None
        if k == 0 or k == 2:
            if parked.get(n):
                return None
            slot[n] = "open" if k == 0 else None
        elif k == 1:
            if slot.get(n) == "open":
                slot[n] = None          # woken fetchers clear the name; without fetchers it stays done
                if not parked.get(n):
                    slot[n] = "done"
                parked[n] = 0
        elif k == 3:
            if slot.get(n) == "open":
                parked[n] = parked.get(n, 0) + 1
            else:
                slot[n] = None          # got the trace or failed: the fetch goroutine clears the name
    tail = [[1, n, 90 + i] for i, n in enumerate(sorted(parked)) if parked[n]]
    return list(acts) + tail


def fetch_seqs(maxlen):
    """every script up to renaming of the two names, trace numbers = position + 1"""
    def rec(prefix, used):
        yield prefix
        if len(prefix) == maxlen:
            return
        for i in range(min(used + 1, 2)):
            n, u = NAMES[i], max(used, i + 1)
            yield from rec(prefix + [[0, n]], u)
            yield from rec(prefix + [[1, n, len(prefix) + 1]], u)
            yield from rec(prefix + [[2, n]], u)
            yield from rec(prefix + [[3, n, 1]], u)
            yield from rec(prefix + [[3, n, 0]], u)
    return rec([], 0)


# ---- wire wrapper scripts (c16.wire) ----
WACTS = [[0, 0, 1], [0, 0, 0], [0, 1, 1], [1, 0, "a", 1, 200], [1, 1, "a", 2, 404], [1, 0, "b", 3, 0], [2, 0, 4, 200],
         [3, "a"], [4, "a"], [5, 0], [5, 1]]


# ---- the runner's call order (c16.runner): peer schedules for runTestCasesForServer ----
def runner_sched(n, places, shuffle=None):
    """places[i] = (slot of the completions of case i (a list, possibly empty), slot of its response, response first?).
    Slot k < n = while sendRequest of case k runs, slot n = after the last sendRequest returned.  The fetch goroutine's
    Clear (2 i) is put right after the event that lets its Await return (python mini-model of who is parked);
    a case that is never completed gets its TraceTimeout (3 i) at the very end (a real 5 s wait: thorough tier)."""
    slots = [[] for _ in range(n + 1)]
    for i, (cslots, rslot, rfirst) in enumerate(places):
        if rfirst:
            slots[rslot].append([1, i])
        for j, c in enumerate(cslots):
            slots[c].append([0, i, 10 * i + j + 1])
        if not rfirst:
            slots[rslot].append([1, i])
    if shuffle is not None:
        for evs in slots:
            # keep the order of one case's events, interleave the cases at random
            per = {}
            for e in evs:
                per.setdefault(e[1], []).append(e)
            order = [e[1] for e in evs]
            shuffle.shuffle(order)
            evs[:] = [per[i].pop(0) for i in order]
    completed, responded, cleared = [False] * n, [False] * n, [False] * n
    out = []
    for evs in slots:
        cur = []
        for e in evs:
            cur.append(e)
            i = e[1]
            if e[0] == 0:
                completed[i] = True
            else:
                responded[i] = True
            if completed[i] and responded[i] and not cleared[i]:
                cleared[i] = True
                cur.append([2, i])
        out.append(cur)
    for i in range(n):
        if not cleared[i]:
            out[n] += [[3, i], [2, i]]
    return out


def runner_places(n, i):
    """every placement of ONE completion and the response of case i (slots i..n), both orders inside one slot"""
    for c in range(i, n + 1):
        for r in range(i, n + 1):
            yield ([c], r, False) if c <= r else ([c], r, True)
            if c == r:
                yield ([c], r, True)


class C16(Prop):
    id = "C16"
    props = "C16_Props"
    coq_files = ("Base", "C16_Model", "C16_Spec", "C16_Proofs", "C16_Conc", "C16_ConcProofs", "C16_Mw", "C16_MwProofs", "C16_Run",
                 "C16_RunProofs", "C16_Hdr", "C16_HdrProofs", "C16_Props")
    models = ("C16_Hdr",)   # re-exports C16_Run -> C16_Mw -> C16_Conc -> C16_Model; its c16_table holds all thirteen kinds
    packages = {"tr": "internal/tracer", "cc": "internal/app/connectconformance", "rc": "internal/app/referenceclient"}
    # c16.ballowed / c16.tallowed are not generated: their cases are WRITTEN by the free-running Go test
    # (configuration + what was observed) and judged by the model; they are kinds so that a replay file works.
    kinds = {"c16.tracer": "tr", "c16.builder": "tr", "c16.bfine": "tr", "c16.ballowed": "tr", "c16.tallowed": "tr",
             "c16.mw": "tr", "c16.fetch": "cc", "c16.wire": "rc", "c16.wiremw": "rc",
             "c16.runner": "cc", "c16.mwk": "tr", "c16.mwlive": "tr", "c16.hdr": "tr"}
    rule = ("c16.tracer: EVERY sequence of Init/Complete/AwaitBegin/Clear/CtxDone of length <= 5 over 2 names and <= 4 over 3 names "
            "(thorough: <= 6 and <= 5) with 2 waiters, up to renaming, on a real Tracer with waiters parked in the real Await on real "
            "contexts, plus random sequences of length 6-14; c16.builder: EVERY sequence of add/build of length <= 5 (thorough 6) over "
            "11 actions (8 event kinds, nil/non-nil errors, build) on named client and server builders, <= 3 on unnamed ones, plus random "
            "sequences up to length 12; c16.bfine: add/build as critical section + collector call held by a gating Collector, every "
            "script of length <= 4 (thorough 5) + random; compared: waiter outcomes + per-name view, collector calls (count, name, Err, "
            "events with indices), held goroutines, and that nothing delivered changes afterwards. extra (quick AND thorough), "
            "FREE-RUNNING: TestVerifC16Free runs 2-4 goroutines with random scripts of builder events (body data, body end with/without "
            "error, response start/error, cancel, build) on one real builder, and 1-3 waiters + 1-3 mutators (Init/Complete/Clear) on one "
            "real Tracer, started by a barrier or by a sync.Mutex hand-off chain; it records configuration + observed outcome and the "
            "extracted model decides whether SOME interleaving of the critical sections gives exactly that outcome (ballowed/tallowed, "
            "theorems builder_allowed_iff / tracer_allowed_iff / accepted_calls_sound); quick: 3000+2500 rounds plain and 1000+1000 rounds "
            "in the race-enabled binary (any race-detector report = VIOLATION, clause 'without data races'), plus TestVerifC16Race; "
            "thorough adds TracingRoundTripper/TracingHandler over loopback HTTP/1.1 and h2 under -race. "
            "Call sites (c16.mw): ONE exchange through the real TracingHandler (scripted handler: declare / set declared and prefixed "
            "trailers, WriteHeader, Write ok or failing, read the request body, cancellation point, panic) or the real TracingRoundTripper "
            "(scripted transport: reads / closes / ignores the request body, fails or answers; response body in chunks with a terminal "
            "error or io.EOF after putting the trailers in place; consumer: Read / Close / cancel) with a Collector that projects the "
            "trace INCLUDING Response.Trailer at the moment of Complete; compared with the model: the calls as seen at Complete and the "
            "same Trace values after the exchange; every handler script <= 4 (thorough 5) over 10 operations, every consumer script <= 5 "
            "(thorough 7) on 4 bodies, + 11000 random. Consumers: c16.fetch = scripts of Init/Complete/Clear on a real Tracer and "
            "setOutcome on a real testResults (fetchTrace goroutines; after every action the harness waits until each has returned or "
            "is parked in Await's select, per the runtime's goroutine dump), every script <= 4 (thorough 5) over 2 names up to renaming "
            "+ 2500 random + one script in which the 5 s TraceTimeout really passes; compared: r.traces per name (nothing / trace id / "
            "nil), Tracer view, waiting goroutines, HTTP traces printed by report(); c16.wire = scripts of withWireCapture contexts, "
            "wireTracer.Complete, setWireTrace, Tracer Init/Clear, examineWireDetails, every script <= 4 over 11 actions + 2000 random "
            "(a second hand-over = crash on both sides); c16.wiremw = a client exchange through the real newWireCaptureTransport. "
            "Glue: c16.runner = the REAL runTestCasesForServer with a real Tracer, real testResults and a scripted client runner whose "
            "sendRequest, per a peer schedule, completes traces and delivers the (failing) responses WHILE sendRequest of test case k "
            "runs or after the last one returned (1-3 test cases; every placement of completion and response for 1 and 2 test cases, "
            "150 random schedules for 2-3 test cases with duplicate completions, every run: each case completed-then-answered and "
            "answered-then-completed inside its own sendRequest); compared: the trace number the report holds per test name, the "
            "Tracer's view of every name afterwards (no slot left); a fetch goroutine left waiting is reported at once (no 5 s "
            "waits on the unchanged tree; the never-completed shape with a real TraceTimeout is thorough-only). c16.mwk = a client "
            "exchange through the real TracingRoundTripper whose transport answers with an empty body value or http.NoBody (every "
            "consumer script <= 4 (thorough 6) + 1500 random over all three kinds); c16.mwlive = live loopback HTTP/1.1 exchanges "
            "(net/http transport, httptest server) answered with Content-Length: 0 / 204 / 304 / to a HEAD request / with three "
            "bytes: number of Collector.Complete calls (bounded 1.5 s wait, then 0), Err, clean ResponseBodyEnd last. "
            "c16.hdr = request headers of a CLIENT-side trace: one round trip through the real TracingRoundTripper whose scripted "
            "transport takes the httptrace hooks from the request context and reports header fields (WroteHeaderField, from the "
            "transport's goroutine; pseudo-headers too) before and AFTER the cancellation that completes the trace; the collector "
            "takes RequestStart.getHeaders() at Collector.Complete, later reads take it again; compared per value taken: contents "
            "then / contents of the same value after the script; every run: k = 0..3 fields before the cancellation x m = 1..3 "
            "after it x 0..2 reads, every script <= 5 (thorough 6) over 6 actions, 1500 random; extra: TestVerifC16HdrRace under "
            "-race (the consumer prints the delivered trace while the transport goroutine goes on reporting fields)")
    trusted_base = ("Coq 8.16.1 kernel (vm_compute used, native_compute not)", "extraction (ExtrOcamlBasic only) + ocaml/driver.ml",
                    "vlib generators/comparator, Go overlay harness (harness/C16)",
                    "c16.runner: the test package's own newFakeProcess / discardPrinter fakes for the server process; "
                    "c16.mwlive: net/http's HTTP/1.1 transport and httptest server (that they hand out http.NoBody for "
                    "Content-Length: 0 / 204 / 304 / HEAD)",
                    "c16.hdr: that net/http reports request header fields through httptrace.ClientTrace.WroteHeaderField taken "
                    "from the request context, from the transport's goroutine, possibly after the caller cancelled (the fake "
                    "transport does exactly that; not checked against net/http)",
                    "modelled not verified: Go mutex / channel close / select semantics (one action per lock region; a closed "
                    "done channel wakes every goroutine selecting on it), context cancellation",
                    "free-running runs: the Go race detector (cgo build), the runtime's goroutine dump used to see that a waiter is "
                    "parked in its select before its context is ended")
    assumptions = ("each Tracer/builder method body is one critical section, so every interleaving of goroutines is a list of "
                   "model actions (by inspection: all state is accessed under t.mu / b.mu, except the read of result.trace "
                   "after <-done, which is ordered by the channel close); for the builder the finer grain (critical section, then "
                   "collector call after the unlock) is modelled too and PROVED equivalent because the trace is taken and cleared "
                   "inside the lock (two_step_add); the free-running runs test this assumption on every check: an outcome that no "
                   "interleaving of whole critical sections explains is a VIOLATION",
                   "when both branches of Await's select are ready Go may take either; the theorems speak of the case where "
                   "the context ends before the completion or vice versa, and the harness never makes both ready at once (free-running "
                   "rounds end a waiter's context only once the runtime shows it parked in select after all mutators returned)",
                   "data-race freedom is supported by race-detector runs of free-running goroutines in the quick and thorough tier, not proved")
    level_text = ("Machine-checked proof (Coq) over ARBITRARY action lists: the slot map equals a history specification (latest "
                  "Init/Clear, first Complete after it); a waiter's outcome equals the specified one whether completion precedes or "
                  "follows the wait (first_trace); Complete without an open slot changes nothing; Await without a slot fails at once; "
                  "a wait never outlives its context; the builder calls the collector at most once, exactly once iff named and "
                  "finished/built, with the events up to the first finishing one and nothing after it, numbered per direction; the "
                  "two-step builder (critical section, collector call after unlock) delivers the same under every schedule because "
                  "the trace is cleared inside the lock. Call sites: the operations TracingHandler / TracingRoundTripper perform for an "
                  "exchange are a function of the exchange; in its result, for EVERY exchange, every write to the Trailer map of the "
                  "trace's response precedes the wrapper's finishing add (mutations_before_finish); for arbitrary operation lists, no "
                  "write after the hand-over implies the collector saw the trace as it is at the end (delivered_trace_final); hence, when "
                  "no cancellation / request-body error ends the operation early, the trace is delivered with its trailers and is not "
                  "written afterwards (delivered_with_trailers). Consumers, over all histories: fetchTrace stores only what a successful "
                  "Await returned, a failed fetch changes nothing stored, the first stored trace is kept until the name is initialised "
                  "again; the wire wrapper keeps the first trace, a second hand-over crashes, one traced operation never hands over "
                  "twice, the Tracer behind it sees exactly the forwarded completions. Glue: the runner's call order "
                  "(runTestCasesForServer: tracer.Init BEFORE client.sendRequest) is a function from a peer schedule to a Tracer "
                  "history; for every batch of distinct test names and every schedule in which the peers act at any point after "
                  "sendRequest of their test case started (also before it returns), the fetch goroutine obtains the first trace "
                  "completed for its name and no slot is left (runner_trace_available, runner_leaves_no_slot, from first_trace / "
                  "slot_view); TracingRoundTripper completes exactly once for EVERY kind of response body value - bytes, empty, "
                  "http.NoBody - once the caller closed or read to the end (roundtrip_completes_once_any_body). Client-side request "
                  "headers (explicit memory: the live map the httptrace hook fills, also after completion, and the clones "
                  "getHeaders allocates): for ALL orders of reported fields / completion / reads, every header value the delivered "
                  "trace hands out holds at the end what it held when handed out (delivered_headers_frozen_after_completion), the "
                  "collector's value is the set of fields reported before completion (completion_takes_fields_so_far), an "
                  "undelivered trace hands out nothing. "
                  "The model is tied to tracer.go / builder.go / "
                  "middleware.go / results.go / wire_details.go / server_runner.go by exhaustive small-scope differential runs driving the real functions "
                  "and by free-running goroutines whose observed outcomes must be the outcome of some interleaving (oracles proved "
                  "exact), on every check.")
    level_note = ("Trusted: Coq kernel, extraction, OCaml driver, harness. Model-code correspondence is sampled (exhaustive to "
                  "length 5/6 scripted; thousands of free-running rounds per check), not proved. Go's mutex/channel/select semantics "
                  "are assumed; data-race freedom is tested with -race, not proved. middleware.go: bodies are scripted at message "
                  "granularity (whole enveloped messages / byte counts; envelope parsing of partial messages is not C16's subject), the "
                  "fake transport puts the trailers in place before io.EOF like net/http; the cancel goroutine's add is forced to land "
                  "at the scripted point. As the code stands, a cancellation or request-body error that ends the operation while the "
                  "handler still runs delivers the trace at once and the handler's epilogue still writes Response.Trailer of the "
                  "delivered trace (modelled and observed identically; excluded from delivered_with_trailers by hypothesis, example "
                  "ex_cancel_then_trailers). fetchTrace's 5 s timeout path runs once per quick check; examineWireDetails' 1 s grace "
                  "wait for a trace that is not there is answered by the harness itself unless VERIF_C16_SLOW is set. Runner "
                  "schedules: the fetch goroutine's Clear is placed right after the event that lets its Await return and time-outs "
                  "only where the script says so (the theorems allow the Clear anywhere later); a test case whose sendRequest fails "
                  "or whose client never answers is outside the runner model (C10/C11). In c16.runner the events scheduled 'after "
                  "the last sendRequest returned' are released by a deferred close inside sendRequest, i.e. they may overlap the "
                  "runner's next statement - irrelevant on a tree that initialises before sending. The unwrapped-body script "
                  "(client_script_w with a wrap function that skips http.NoBody) exists only for the counter-example; likewise the "
                  "HLive policy of C16_Hdr (getHeaders returning the live map = seeded C16-14, ex_live_map_written_after_completion). "
                  "Request headers: getHeaders is a function evaluated at each call, so a LATER read of a delivered client trace shows "
                  "fields reported after completion (modelled and observed identically); what is proved and compared is that a value "
                  "once handed out is never written again - the absence of the read/write race itself is observed by the race "
                  "detector (TestVerifC16HdrRace), not proved. c16.hdr forces its schedule (each reported field is acknowledged), "
                  "so its verdict does not depend on timing.")
    technique = ("Coq invariant proofs over arbitrary action lists (tracer slots/waiters, builder, two-step builder refinement, "
                 "middleware scripts as functions of the exchange, consumer state machines); exhaustive small-scope differential on the "
                 "real Tracer, builder, TracingHandler / TracingRoundTripper, testResults.fetchTrace, wireTracer, runTestCasesForServer "
                 "(scripted peers), live loopback HTTP/1.1; free-running goroutines "
                 "judged by a proved-exact interleaving oracle; race detector")
    go_timeout = 1500

    def nontrivial(self, case, res):
        if case[0] == "c16.tracer":
            return "(2 " in res or "(4)" in res or "(1)" in res
        if case[0] in ("c16.bfine", "c16.mw", "c16.mwk"):
            return res != "(() ())"
        if case[0] in ("c16.runner", "c16.mwlive"):
            return "(1 " in res
        if case[0] == "c16.hdr":
            # a field reported after the cancellation
            acts = case[1]
            return any(a[0] == 1 and any(b[0] == 0 and b[1] != 0 for b in acts[i + 1:]) for i, a in enumerate(acts))
        if case[0] == "c16.fetch":
            return "(1 " in res
        if case[0] == "c16.wiremw":
            return res.startswith("((2 ")
        return len(res) > 2

    def describe(self, case, g, m):
        if case[0] == "c16.tracer":
            return "Tracer hand-off: waiter outcomes / slot views differ from the proved model"
        if case[0] in ("c16.ballowed", "c16.tallowed"):
            return ("free-running goroutines: impl = 1 if the code shows the recorded outcome (last argument) again, "
                    "model = 1 if SOME interleaving of the goroutines' critical sections gives it; 1 against 0 = the code "
                    "does what no interleaving of the proved model does")
        if case[0] == "c16.mw":
            return ("middleware call sites: the collector calls as they were AT Complete (events, error, Response.Trailer) and the same "
                    "traces after the exchange differ from the proved model (a trace delivered before its trailers were recorded, "
                    "or changed after completion, shows here)")
        if case[0] == "c16.runner":
            return ("runTestCasesForServer (real runner, real Tracer, real testResults, scripted peers acting while sendRequest "
                    "runs / after it returned): what the report holds per failed test name ((0) nothing, (1 t) trace t) or the "
                    "Tracer's view of the names afterwards ((3) no slot, (4) open slot left behind) differs from the proved model: "
                    "the trace completed for a test name did not reach its waiter, or a slot was left behind "
                    "(runner_trace_available / runner_leaves_no_slot)")
        if case[0] == "c16.mwk":
            return ("TracingRoundTripper with a response body VALUE of the given kind (1 = empty body, 2 = http.NoBody): collector "
                    "calls differ from the proved model (roundtrip_completes_once_any_body: exactly one for every kind)")
        if case[0] == "c16.hdr":
            return ("client-side request headers (builder.go newBuilder / RequestStart.getHeaders) through the real TracingRoundTripper, "
                    "the transport reporting header fields before and after the cancellation that completes the trace: per value "
                    "the delivered trace handed out (at Collector.Complete, at later reads) its contents THEN and the contents of "
                    "the same value at the END differ from the proved model (delivered_headers_frozen_after_completion: equal; a "
                    "value that changed was written by the transport after the trace was delivered)")
        if case[0] == "c16.mwlive":
            return ("live HTTP/1.1 exchange without a response body (0 Content-Length: 0, 1 = 204, 2 = 304, 3 = HEAD; 4 = three "
                    "bytes) through TracingRoundTripper: (Collector.Complete calls, Err, clean ResponseBodyEnd last); (0) = the "
                    "exchange was over and its trace never completed")
        if case[0] == "c16.fetch":
            return ("results.go fetchTrace: what testResults stored per test name / the Tracer shows / the report prints differs "
                    "from the proved model (stored: (0) nothing, (1 t) trace t, (2) a nil trace)")
        if case[0] in ("c16.wire", "c16.wiremw"):
            return "wire_details.go: wrapper contents / examineWireDetails results / forwarding to the Tracer differ from the proved model"
        if case[0] == "c16.bfine":
            return "two-step builder (collector call held after the critical section): calls / held goroutines differ from the proved model"
        return "builder: collector calls (count, events, indices, error) differ from the proved model"

    def generate(self, rng, tier):
        quick = tier == "quick"
        # tracer, exhaustive
        for acts in tracer_seqs(5 if quick else 6, 2, 2):
            yield ["c16.tracer", acts, [0, 1], NAMES[:2]]
        for acts in tracer_seqs(4 if quick else 5, 3, 2):
            if any((a[2] if a[0] == 2 else a[1]) == "c" for a in acts if a[0] != 4):
                yield ["c16.tracer", acts, [0, 1], NAMES]
        # tracer, random longer (3 waiters)
        for _ in range(3000 if quick else 100000):
            acts = []
            for i in range(rng.randint(6, 14)):
                k = rng.choice([0, 0, 1, 1, 1, 2, 2, 2, 3, 4])
                n = rng.choice(NAMES[:rng.choice([1, 2, 3])])
                w = rng.randrange(3)
                acts.append({0: [0, n], 1: [1, n, i + 1], 2: [2, w, n], 3: [3, n], 4: [4, w]}[k])
            yield ["c16.tracer", acts, [0, 1, 2], NAMES]
        # builder, exhaustive
        L = 5 if quick else 6
        for n in range(0, L + 1):
            for i, seq in enumerate(itertools.product(BACTS, repeat=n)):
                if n >= 4:
                    yield ["c16.builder", "T/x", (i + n) % 2, list(seq)]
                else:
                    yield ["c16.builder", "T/x", 0, list(seq)]
                    yield ["c16.builder", "T/x", 1, list(seq)]
                if n <= 3:
                    yield ["c16.builder", "", i % 2, list(seq)]
        for _ in range(3000 if quick else 100000):
            seq = [rng.choice(BACTS[:1] * 3 + BACTS[5:6] * 2 + BACTS) for _ in range(rng.randint(6, 12))]
            yield ["c16.builder", rng.choice(["n", "Suite/case 1", ""]), rng.randrange(2), seq]
        # two-step builder, exhaustive small + random
        for i, seq in enumerate(fine_seqs(4 if quick else 5)):
            yield ["c16.bfine", "T/x" if i % 7 else "", i % 2, seq]
        for _ in range(1500 if quick else 30000):
            seq = []
            for i in range(rng.randint(5, 9)):
                if seq and rng.randrange(3) == 0:
                    seq.append([9, rng.randrange(len(seq))])
                else:
                    seq.append(rng.choice(BACTS))
            yield ["c16.bfine", rng.choice(["n", "n", "n", ""]), rng.randrange(2), seq]

        # ---- middleware call sites: real TracingHandler / TracingRoundTripper, scripted handler / transport / consumer ----
        L = 4 if quick else 5
        for n in range(0, L + 1):
            for i, ops in enumerate(itertools.product(HOPS_SMALL, repeat=n)):
                yield ["c16.mw", "T/x", 0, [i % 2, [1] if i % 3 else [], 0 if i % 5 else 2], (i // 2) % 2, [list(o) for o in ops]]
        for n in range(0, 6 if quick else 8):
            for i, ops in enumerate(itertools.product(COPS, repeat=n)):
                for resp in ([0, [2, 1], 0], [1, [1, 2], 0], [1, [1], 2], [0, [], 0]):
                    yield ["c16.mw", "T/x", 1, [i % 2, [1], 0], (1, 0, 2, 1)[i % 4], 0, resp, [[1, [1]], [2, []]], [list(o) for o in ops]]
        for _ in range(6000 if quick else 150000):
            yield ["c16.mw"] + rand_server(rng)
        for _ in range(5000 if quick else 100000):
            yield ["c16.mw", rng.choice(["T/x", "T/x", "T/x", "n", ""]), 1] + rand_client_tail(rng)
        # ---- TracingRoundTripper and the KIND of response body value (empty body / http.NoBody) ----
        for kind in (1, 2):
            for n in range(0, 5 if quick else 7):
                for i, ops in enumerate(itertools.product(COPS, repeat=n)):
                    yield ["c16.mwk", "T/x", kind, [i % 2, [1], 0], (1, 0, 2, 1)[i % 4], 0, [i % 2, [], 0], [], [list(o) for o in ops]]
        for _ in range(1500 if quick else 40000):
            yield ["c16.mwk", rng.choice(["T/x", "T/x", "T/x", "n", ""]), rng.choice([0, 1, 1, 2, 2, 2])] + rand_client_tail(rng)
        # ---- request headers of a client-side trace: fields reported before and AFTER the cancellation ----
        for k in range(4):
            for m in range(1, 4):
                for reads in (0, 1, 2):
                    yield ["c16.hdr", hdr_late(k, m, reads)]
        for n in range(0, (5 if quick else 6) + 1):
            for acts in itertools.product(HACTS, repeat=n):
                yield ["c16.hdr", [list(a) for a in acts]]
        for _ in range(1500 if quick else 30000):
            acts = [rng.choice([[0, rng.randint(0, 5), rng.randint(1, 9)]] * 4 + [[1], [2], [2]]) for _ in range(rng.randint(6, 14))]
            yield ["c16.hdr", acts]
        # live loopback HTTP/1.1: Content-Length: 0, 204, 304, HEAD (net/http hands out http.NoBody), three bytes
        for v in range(5):
            yield ["c16.mwlive", "T/live", v]
        yield ["c16.mwlive", "", 0]
        # ---- the runner's call order: real runTestCasesForServer, peers acting while sendRequest runs ----
        for n in (1, 2, 3):
            # every test case completed and answered inside its own sendRequest, completion first / response first
            yield ["c16.runner", n, runner_sched(n, [([i], i, False) for i in range(n)])]
            yield ["c16.runner", n, runner_sched(n, [([i], i, True) for i in range(n)])]
        for n in (1, 2):
            for places in itertools.product(*[list(runner_places(n, i)) for i in range(n)]):
                yield ["c16.runner", n, runner_sched(n, list(places))]
        for _ in range(150 if quick else 3000):
            n = rng.choice([2, 3, 3, 3])
            places = []
            for i in range(n):
                cs, r, rf = rng.choice(list(runner_places(n, i)))
                if rng.randrange(3) == 0:       # a second completion: the first one wins
                    cs = cs + [rng.randint(cs[0], n)]
                places.append((cs, r, rf))
            yield ["c16.runner", n, runner_sched(n, places, shuffle=rng)]
        if not quick:
            # a test case whose trace never comes: the fetch goroutine gives up after TraceTimeout and clears
            yield ["c16.runner", 2, runner_sched(2, [([], 0, True), ([1], 2, False)])]
            yield ["c16.runner", 1, runner_sched(1, [([], 1, True)])]
        # ---- consumer: results.go fetchTrace on a real Tracer ----
        for acts in fetch_seqs(4 if quick else 5):
            full = fetch_ok(acts)
            if full is not None:
                yield ["c16.fetch", full, NAMES[:2]]
        for _ in range(2500 if quick else 40000):
            acts = []
            for i in range(rng.randint(5, 12)):
                k = rng.choice([0, 0, 1, 1, 1, 2, 3, 3, 3, 3])
                n = rng.choice(NAMES[:rng.choice([1, 2, 2])])
                cand = acts + [{0: [0, n], 1: [1, n, i + 1], 2: [2, n], 3: [3, n, rng.choice([1, 1, 1, 0])]}[k]]
                if fetch_ok(cand) is not None:
                    acts = cand
            yield ["c16.fetch", fetch_ok(acts), NAMES[:2]]
        # ---- consumer: wire_details.go ----
        for n in range(0, (4 if quick else 5) + 1):
            for i, acts in enumerate(itertools.product(WACTS, repeat=n)):
                yield ["c16.wire", i % 2 if n >= 3 else 1, [list(a) for a in acts], [0, 1], NAMES[:2]]
        for _ in range(2000 if quick else 50000):
            acts = []
            for i in range(rng.randint(5, 12)):
                c, n = rng.randrange(3), rng.choice(NAMES[:2])
                acts.append(rng.choice([[0, c, 1], [0, c, 1], [0, c, 0], [1, c, n, i + 1, rng.choice([0, 200, 404])],
                                        [1, c, n, i + 1, 200], [2, c, i + 1, rng.choice([0, 200])], [3, n], [3, n], [4, n], [5, c]]))
            yield ["c16.wire", rng.randrange(2), acts, [0, 1, 2], NAMES[:2]]
        for _ in range(4000 if quick else 60000):
            yield (["c16.wiremw", rng.choice(["T/x", "T/x", "T/x", ""]), rng.choice([1, 1, 1, 0]), rng.choice([1, 1, 0]),
                    rng.choice([1, 1, 1, 0]), rng.choice([200, 200, 404])] + rand_client_tail(rng))
        # (last, so that the shrinker works on cheaper scripts first: every candidate containing (4) waits 5 s)
        # one script in which the 5 s TraceTimeout really passes: the orphaned fetch goroutine gives up, and its
        # unconditional Clear removes the name's NEW, completed slot
        yield ["c16.fetch", [[0, "a"], [3, "a", 1], [2, "a"], [0, "a"], [1, "a", 7], [4], [3, "a", 1], [0, "b"], [1, "b", 8], [3, "b", 1]], NAMES[:2]]
        if not quick:
            for _ in range(12):
                acts = [[rng.choice([0, 1, 2, 3]), rng.choice(NAMES[:2])] for _ in range(rng.randint(4, 9))]
                acts = [a + ([i + 1] if a[0] == 1 else [rng.randrange(2)] if a[0] == 3 else []) for i, a in enumerate(acts)]
                yield ["c16.fetch", acts + [[4]] + [[3, "a", 1], [3, "b", 1]], NAMES[:2]]

    def _race_run(self, ctx, testname, ops, timeout):
        binp = core.go_test_bin(self, self.packages["tr"], race=True)
        out = os.path.join(ctx.work, testname + ".out")
        if os.path.exists(out):
            os.remove(out)
        rc, log, dt = core.run_cmd([binp, "-test.run", "^" + testname + "$", "-test.count=1", "-test.timeout", "%ds" % timeout],
                                   cwd=os.path.join(core.REPO, self.packages["tr"]), timeout=timeout + 30, check=False,
                                   extra_env={"VERIF_OUT": out, "VERIF_C16_OPS": str(ops), "VERIF_SEED": str(ctx.seed),
                                              "GORACE": "halt_on_error=0"})
        ctx.notes["t_" + testname + "_s"] = round(dt, 2)
        body = open(out).read() if os.path.exists(out) else ""
        vs = []
        if "DATA RACE" in log:
            i = log.index("DATA RACE")
            vs.append(core.Violation("%s: data race reported by the race detector" % testname,
                                     "; C16 %s (go test -race): data race\n; %s\n" % (testname, log[max(0, i - 200):i + 2500].replace("\n", "\n; ")),
                                     "no-failing-input-found"))
        elif body.startswith("problem"):
            vs.append(core.Violation("%s: %s" % (testname, body.splitlines()[0][:200]),
                                     "; C16 %s:\n; %s\n" % (testname, body.replace("\n", "\n; ")), "no-failing-input-found"))
        elif rc != 0 or not body.startswith("ok"):
            raise core.HarnessError("%s failed (rc=%d):\n%s" % (testname, rc, log[-4000:]))
        else:
            ctx.notes[testname] = body.strip()
        return vs

    def _race_violation(self, what, log):
        i = log.index("DATA RACE")
        return core.Violation("%s: data race reported by the race detector (property: \"without data races\")" % what,
                              "; C16 %s (go test -race): the race detector reports a data race\n; %s\n"
                              % (what, log[max(0, i - 200):i + 3000].replace("\n", "\n; ")), "no-failing-input-found")

    def _free_run(self, ctx, race, brounds, trounds, budget_ms):
        """Free-running goroutines on real builders / a real Tracer (TestVerifC16Free).  The Go side only records
        (configuration, observed outcome); the extracted model says whether some interleaving gives that outcome."""
        label = "free.race" if race else "free"
        binp = core.go_test_bin(self, self.packages["tr"], race=True) if race else ctx.bin("tr")
        out = os.path.join(ctx.work, label + ".cases")
        for suffix in ("", ".problems", ".stats", ".model"):
            if os.path.exists(out + suffix):
                os.remove(out + suffix)
        rc, log, dt = core.run_cmd([binp, "-test.run", "^TestVerifC16Free$", "-test.count=1", "-test.timeout", "300s"],
                                   cwd=os.path.join(core.REPO, self.packages["tr"]), timeout=330, check=False,
                                   extra_env={"VERIF_OUT": out, "VERIF_SEED": str(ctx.seed), "VERIF_C16_BROUNDS": str(brounds),
                                              "VERIF_C16_TROUNDS": str(trounds), "VERIF_C16_BUDGET_MS": str(budget_ms),
                                              "GORACE": "halt_on_error=0"})
        ctx.notes["t_%s_go_s" % label] = round(dt, 2)
        vs = []
        if "DATA RACE" in log:
            vs.append(self._race_violation("TestVerifC16Free", log))
        elif rc != 0 or not os.path.exists(out):
            raise core.HarnessError("TestVerifC16Free (%s) failed (rc=%d):\n%s" % (label, rc, log[-4000:]))
        if not os.path.exists(out):
            return vs
        ctx.notes[label] = open(out + ".stats").read().strip()
        problems = [l for l in open(out + ".problems").read().splitlines() if l.strip()]
        if problems:
            vs.append(core.Violation("free-running %s" % problems[0][:200],
                                     "; C16 free-running run (%s):\n; %s\n" % (label, "\n; ".join(problems[:5])), "no-failing-input-found"))
        lines = [l for l in open(out).read().splitlines() if l.strip()]
        if not lines:
            return vs
        tm = core.run_model(self, out, out + ".model", timeout=600)
        ctx.notes["t_%s_model_s" % label] = round(tm, 2)
        res = core.read_results(out + ".model")
        bad = []
        for l in lines:
            c = core.parse_sx(l)
            if res.get(str(c[1])) != "1":
                bad.append((c, res.get(str(c[1]))))
        ctx.notes[label + "_judged"] = len(lines)
        for c, r in bad[:2]:
            kind = c[0].decode()
            case = [kind, 0] + c[2:]
            what = ("builder: the collector calls seen with free-running goroutines are the outcome of NO interleaving of their "
                    "add/build critical sections (builder_allowed_iff)" if kind == "c16.ballowed" else
                    "Tracer: what the waiters got / the names show with free-running goroutines is the outcome of NO interleaving "
                    "of Init/Complete/Await/Clear (tracer_allowed_iff)")
            body = ("; C16 %s: %s\n; model verdict: %s   (%d of %d distinct observations rejected)\n"
                    "; case: %s\n; last argument = what was observed\n"
                    "; replay: ./check C16 --replay <this file>  (impl 1 = the code shows it again, model 0 = no interleaving gives it)\n%s\n"
                    % (label, what, r, len(bad), len(lines),
                       "name client start-mode (pre) ((script per goroutine)...) (after join) (collector calls)" if kind == "c16.ballowed"
                       else "start-mode (pre) ((script per goroutine)...) (contexts ending) (waiters) (names) ((waiter results) (name views))",
                       core.sx(case)))
            vs.append(core.Violation("free-running goroutines (%s): outcome that no interleaving allows: %s" % (label, core.sx(case)[:260]), body))
        return vs

    def extra(self, ctx):
        quick = ctx.tier == "quick"
        # free-running, judged by the model: plain binary (natural timing), then under the race detector
        vs = self._free_run(ctx, False, 3000 if quick else 40000, 2500 if quick else 30000, 4500 if quick else 120000)
        vs += self._free_run(ctx, True, 1000 if quick else 10000, 1000 if quick else 10000, 2500 if quick else 60000)
        vs += self._race_run(ctx, "TestVerifC16Race", 300 if quick else 5000, 300)
        # a client round trip cancelled while the transport goroutine still reports header fields; the consumer prints the trace
        vs += self._race_run(ctx, "TestVerifC16HdrRace", 60 if quick else 1500, 300)
        if not quick:
            vs += self._race_run(ctx, "TestVerifC16Stress", 1500, 900)
        return vs


PROP = C16()
