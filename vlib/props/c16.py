"""C16 — trace hand-off delivers each call's trace exactly once to the right waiter."""
import itertools
import os

from .. import core
from ..core import Prop

NAMES = ["a", "b", "c"]
# builder actions: add(RequestBodyData) .. build(); error tags 1..3 are distinct errors, 0 = nil
BACTS = [[0], [1, 0], [1, 1], [2], [3, 3], [4], [5], [6, 0], [6, 2], [7], [8]]


def tracer_seqs(maxlen, nnames, nwaiters):
    """Every action sequence of length <= maxlen, up to renaming of names and waiters (a name /
    waiter may only be used once all smaller ones have been used).  Each Complete carries its
    own trace number (position + 1)."""
    names = NAMES[:nnames]

    def rec(prefix, used_n, used_w):
        yield prefix
        if len(prefix) == maxlen:
            return
        nn = min(used_n + 1, nnames)
        nw = min(used_w + 1, nwaiters)
        for i in range(nn):
            un = max(used_n, i + 1)
            yield from rec(prefix + [[0, names[i]]], un, used_w)
            yield from rec(prefix + [[1, names[i], len(prefix) + 1]], un, used_w)
            yield from rec(prefix + [[3, names[i]]], un, used_w)
            for w in range(nw):
                yield from rec(prefix + [[2, w, names[i]]], un, max(used_w, w + 1))
        for w in range(nw):
            yield from rec(prefix + [[4, w]], used_n, max(used_w, w + 1))

    return rec([], 0, 0)


# two-step builder: add / build as critical sections, (9 k) = the goroutine of action k ends its deferred call
FACTS = [[0], [1, 1], [6, 0], [7], [8]]


def fine_seqs(maxlen):
    def rec(prefix):
        yield prefix
        if len(prefix) == maxlen:
            return
        for a in FACTS:
            yield from rec(prefix + [a])
        for k in range(len(prefix)):
            if prefix[k][0] != 9:
                yield from rec(prefix + [[9, k]])
    return rec([])


class C16(Prop):
    id = "C16"
    props = "C16_Props"
    coq_files = ("Base", "C16_Model", "C16_Spec", "C16_Proofs", "C16_Conc", "C16_ConcProofs", "C16_Props")
    models = ("C16_Conc",)   # re-exports C16_Model; its c16_table holds all five kinds
    packages = {"tr": "internal/tracer"}
    # c16.ballowed / c16.tallowed are not generated: their cases are WRITTEN by the free-running Go test
    # (configuration + what was observed) and judged by the model; they are kinds so that a replay file works.
    kinds = {"c16.tracer": "tr", "c16.builder": "tr", "c16.bfine": "tr", "c16.ballowed": "tr", "c16.tallowed": "tr"}
    rule = ("c16.tracer: EVERY sequence of Init/Complete/AwaitBegin/Clear/CtxDone of length <= 5 over 2 names and <= 4 over 3 names "
            "(thorough: <= 6 and <= 5) with 2 waiters, up to renaming, on a real Tracer with waiters parked in the real Await on real "
            "contexts, plus random sequences of length 6-14; c16.builder: EVERY sequence of add/build of length <= 5 (thorough 6) over "
            "11 actions (8 event kinds, nil/non-nil errors, build) on named client and server builders, <= 3 on unnamed ones, plus random "
            "sequences up to length 12; c16.bfine: add/build as critical section + collector call held by a gating Collector, every "
            "script of length <= 4 (thorough 5) + random; compared: waiter outcomes + per-name view, collector calls (count, name, Err, "
            "events with indices), held goroutines, and that nothing delivered changes afterwards. extra (quick AND thorough), "
            "FREE-RUNNING: TestVerifC16Free runs 2-4 goroutines with random scripts of builder events (body data, body end with/without "
            "error, response start/error, cancel, build) on one real builder, and 1-3 waiters + 1-3 mutators (Init/Complete/Clear) on one "
            "real Tracer, started by a barrier or by a sync.Mutex hand-off chain; it records configuration + observed outcome and the "
            "extracted model decides whether SOME interleaving of the critical sections gives exactly that outcome (ballowed/tallowed, "
            "theorems builder_allowed_iff / tracer_allowed_iff / accepted_calls_sound); quick: 3000+2500 rounds plain and 1000+1000 rounds "
            "in the race-enabled binary (any race-detector report = VIOLATION, clause 'without data races'), plus TestVerifC16Race; "
            "thorough adds TracingRoundTripper/TracingHandler over loopback HTTP/1.1 and h2 under -race")
    trusted_base = ("Coq 8.16.1 kernel (vm_compute used, native_compute not)", "extraction (ExtrOcamlBasic only) + ocaml/driver.ml",
                    "vlib generators/comparator, Go overlay harness (harness/C16)",
                    "modelled not verified: Go mutex / channel close / select semantics (one action per lock region; a closed "
                    "done channel wakes every goroutine selecting on it), context cancellation",
                    "free-running runs: the Go race detector (cgo build), the runtime's goroutine dump used to see that a waiter is "
                    "parked in its select before its context is ended")
    assumptions = ("each Tracer/builder method body is one critical section, so every interleaving of goroutines is a list of "
                   "model actions (by inspection: all state is accessed under t.mu / b.mu, except the read of result.trace "
                   "after <-done, which is ordered by the channel close); for the builder the finer grain (critical section, then "
                   "collector call after the unlock) is modelled too and PROVED equivalent because the trace is taken and cleared "
                   "inside the lock (two_step_add); the free-running runs test this assumption on every check: an outcome that no "
                   "interleaving of whole critical sections explains is a VIOLATION",
                   "when both branches of Await's select are ready Go may take either; the theorems speak of the case where "
                   "the context ends before the completion or vice versa, and the harness never makes both ready at once (free-running "
                   "rounds end a waiter's context only once the runtime shows it parked in select after all mutators returned)",
                   "data-race freedom is supported by race-detector runs of free-running goroutines in the quick and thorough tier, not proved")
    level_text = ("Machine-checked proof (Coq) over ARBITRARY action lists: the slot map equals a history specification (latest "
                  "Init/Clear, first Complete after it); a waiter's outcome equals the specified one whether completion precedes or "
                  "follows the wait (first_trace); Complete without an open slot changes nothing; Await without a slot fails at once; "
                  "a wait never outlives its context; the builder calls the collector at most once, exactly once iff named and "
                  "finished/built, with the events up to the first finishing one and nothing after it, numbered per direction; the "
                  "two-step builder (critical section, collector call after unlock) delivers the same under every schedule because "
                  "the trace is cleared inside the lock. The model is tied to tracer.go/builder.go by an exhaustive small-scope "
                  "differential run and by free-running goroutines whose observed outcomes must be the outcome of some interleaving "
                  "(oracles proved exact), on every check.")
    level_note = ("Trusted: Coq kernel, extraction, OCaml driver, harness. Model-code correspondence is sampled (exhaustive to "
                  "length 5/6 scripted; thousands of free-running rounds per check), not proved. Go's mutex/channel/select semantics "
                  "are assumed; data-race freedom is tested with -race, not proved; middleware.go's call sites (who adds which event) "
                  "are exercised by the thorough stress run only.")
    technique = ("Coq invariant proofs over arbitrary action lists (tracer slots/waiters, builder, two-step builder refinement); exhaustive "
                 "small-scope differential; free-running goroutines judged by a proved-exact interleaving oracle; race detector")
    go_timeout = 1500

    def nontrivial(self, case, res):
        if case[0] == "c16.tracer":
            return "(2 " in res or "(4)" in res or "(1)" in res
        if case[0] == "c16.bfine":
            return res != "(() ())"
        return len(res) > 2

    def describe(self, case, g, m):
        if case[0] == "c16.tracer":
            return "Tracer hand-off: waiter outcomes / slot views differ from the proved model"
        if case[0] in ("c16.ballowed", "c16.tallowed"):
            return ("free-running goroutines: impl = 1 if the code shows the recorded outcome (last argument) again, "
                    "model = 1 if SOME interleaving of the goroutines' critical sections gives it; 1 against 0 = the code "
                    "does what no interleaving of the proved model does")
        if case[0] == "c16.bfine":
            return "two-step builder (collector call held after the critical section): calls / held goroutines differ from the proved model"
        return "builder: collector calls (count, events, indices, error) differ from the proved model"

    def generate(self, rng, tier):
        quick = tier == "quick"
        # tracer, exhaustive
        for acts in tracer_seqs(5 if quick else 6, 2, 2):
            yield ["c16.tracer", acts, [0, 1], NAMES[:2]]
        for acts in tracer_seqs(4 if quick else 5, 3, 2):
            if any((a[2] if a[0] == 2 else a[1]) == "c" for a in acts if a[0] != 4):
                yield ["c16.tracer", acts, [0, 1], NAMES]
        # tracer, random longer (3 waiters)
        for _ in range(3000 if quick else 100000):
            acts = []
            for i in range(rng.randint(6, 14)):
                k = rng.choice([0, 0, 1, 1, 1, 2, 2, 2, 3, 4])
                n = rng.choice(NAMES[:rng.choice([1, 2, 3])])
                w = rng.randrange(3)
                acts.append({0: [0, n], 1: [1, n, i + 1], 2: [2, w, n], 3: [3, n], 4: [4, w]}[k])
            yield ["c16.tracer", acts, [0, 1, 2], NAMES]
        # builder, exhaustive
        L = 5 if quick else 6
        for n in range(0, L + 1):
            for i, seq in enumerate(itertools.product(BACTS, repeat=n)):
                if n >= 4:
                    yield ["c16.builder", "T/x", (i + n) % 2, list(seq)]
                else:
                    yield ["c16.builder", "T/x", 0, list(seq)]
                    yield ["c16.builder", "T/x", 1, list(seq)]
                if n <= 3:
                    yield ["c16.builder", "", i % 2, list(seq)]
        for _ in range(3000 if quick else 100000):
            seq = [rng.choice(BACTS[:1] * 3 + BACTS[5:6] * 2 + BACTS) for _ in range(rng.randint(6, 12))]
            yield ["c16.builder", rng.choice(["n", "Suite/case 1", ""]), rng.randrange(2), seq]
        # two-step builder, exhaustive small + random
        for i, seq in enumerate(fine_seqs(4 if quick else 5)):
            yield ["c16.bfine", "T/x" if i % 7 else "", i % 2, seq]
        for _ in range(1500 if quick else 30000):
            seq = []
            for i in range(rng.randint(5, 9)):
                if seq and rng.randrange(3) == 0:
                    seq.append([9, rng.randrange(len(seq))])
                else:
                    seq.append(rng.choice(BACTS))
            yield ["c16.bfine", rng.choice(["n", "n", "n", ""]), rng.randrange(2), seq]

    def _race_run(self, ctx, testname, ops, timeout):
        binp = core.go_test_bin(self, self.packages["tr"], race=True)
        out = os.path.join(ctx.work, testname + ".out")
        if os.path.exists(out):
            os.remove(out)
        rc, log, dt = core.run_cmd([binp, "-test.run", "^" + testname + "$", "-test.count=1", "-test.timeout", "%ds" % timeout],
                                   cwd=os.path.join(core.REPO, self.packages["tr"]), timeout=timeout + 30, check=False,
                                   extra_env={"VERIF_OUT": out, "VERIF_C16_OPS": str(ops), "VERIF_SEED": str(ctx.seed),
                                              "GORACE": "halt_on_error=0"})
        ctx.notes["t_" + testname + "_s"] = round(dt, 2)
        body = open(out).read() if os.path.exists(out) else ""
        vs = []
        if "DATA RACE" in log:
            i = log.index("DATA RACE")
            vs.append(core.Violation("%s: data race reported by the race detector" % testname,
                                     "; C16 %s (go test -race): data race\n; %s\n" % (testname, log[max(0, i - 200):i + 2500].replace("\n", "\n; ")),
                                     "no-failing-input-found"))
        elif body.startswith("problem"):
            vs.append(core.Violation("%s: %s" % (testname, body.splitlines()[0][:200]),
                                     "; C16 %s:\n; %s\n" % (testname, body.replace("\n", "\n; ")), "no-failing-input-found"))
        elif rc != 0 or not body.startswith("ok"):
            raise core.HarnessError("%s failed (rc=%d):\n%s" % (testname, rc, log[-4000:]))
        else:
            ctx.notes[testname] = body.strip()
        return vs

    def _race_violation(self, what, log):
        i = log.index("DATA RACE")
        return core.Violation("%s: data race reported by the race detector (property: \"without data races\")" % what,
                              "; C16 %s (go test -race): the race detector reports a data race\n; %s\n"
                              % (what, log[max(0, i - 200):i + 3000].replace("\n", "\n; ")), "no-failing-input-found")

    def _free_run(self, ctx, race, brounds, trounds, budget_ms):
        """Free-running goroutines on real builders / a real Tracer (TestVerifC16Free).  The Go side only records
        (configuration, observed outcome); the extracted model says whether some interleaving gives that outcome."""
        label = "free.race" if race else "free"
        binp = core.go_test_bin(self, self.packages["tr"], race=True) if race else ctx.bin("tr")
        out = os.path.join(ctx.work, label + ".cases")
        for suffix in ("", ".problems", ".stats", ".model"):
            if os.path.exists(out + suffix):
                os.remove(out + suffix)
        rc, log, dt = core.run_cmd([binp, "-test.run", "^TestVerifC16Free$", "-test.count=1", "-test.timeout", "300s"],
                                   cwd=os.path.join(core.REPO, self.packages["tr"]), timeout=330, check=False,
                                   extra_env={"VERIF_OUT": out, "VERIF_SEED": str(ctx.seed), "VERIF_C16_BROUNDS": str(brounds),
                                              "VERIF_C16_TROUNDS": str(trounds), "VERIF_C16_BUDGET_MS": str(budget_ms),
                                              "GORACE": "halt_on_error=0"})
        ctx.notes["t_%s_go_s" % label] = round(dt, 2)
        vs = []
        if "DATA RACE" in log:
            vs.append(self._race_violation("TestVerifC16Free", log))
        elif rc != 0 or not os.path.exists(out):
            raise core.HarnessError("TestVerifC16Free (%s) failed (rc=%d):\n%s" % (label, rc, log[-4000:]))
        if not os.path.exists(out):
            return vs
        ctx.notes[label] = open(out + ".stats").read().strip()
        problems = [l for l in open(out + ".problems").read().splitlines() if l.strip()]
        if problems:
            vs.append(core.Violation("free-running %s" % problems[0][:200],
                                     "; C16 free-running run (%s):\n; %s\n" % (label, "\n; ".join(problems[:5])), "no-failing-input-found"))
        lines = [l for l in open(out).read().splitlines() if l.strip()]
        if not lines:
            return vs
        tm = core.run_model(self, out, out + ".model", timeout=600)
        ctx.notes["t_%s_model_s" % label] = round(tm, 2)
        res = core.read_results(out + ".model")
        bad = []
        for l in lines:
            c = core.parse_sx(l)
            if res.get(str(c[1])) != "1":
                bad.append((c, res.get(str(c[1]))))
        ctx.notes[label + "_judged"] = len(lines)
        for c, r in bad[:2]:
            kind = c[0].decode()
            case = [kind, 0] + c[2:]
            what = ("builder: the collector calls seen with free-running goroutines are the outcome of NO interleaving of their "
                    "add/build critical sections (builder_allowed_iff)" if kind == "c16.ballowed" else
                    "Tracer: what the waiters got / the names show with free-running goroutines is the outcome of NO interleaving "
                    "of Init/Complete/Await/Clear (tracer_allowed_iff)")
            body = ("; C16 %s: %s\n; model verdict: %s   (%d of %d distinct observations rejected)\n"
                    "; case: %s\n; last argument = what was observed\n"
                    "; replay: ./check C16 --replay <this file>  (impl 1 = the code shows it again, model 0 = no interleaving gives it)\n%s\n"
                    % (label, what, r, len(bad), len(lines),
                       "name client start-mode (pre) ((script per goroutine)...) (after join) (collector calls)" if kind == "c16.ballowed"
                       else "start-mode (pre) ((script per goroutine)...) (contexts ending) (waiters) (names) ((waiter results) (name views))",
                       core.sx(case)))
            vs.append(core.Violation("free-running goroutines (%s): outcome that no interleaving allows: %s" % (label, core.sx(case)[:260]), body))
        return vs

    def extra(self, ctx):
        quick = ctx.tier == "quick"
        # free-running, judged by the model: plain binary (natural timing), then under the race detector
        vs = self._free_run(ctx, False, 3000 if quick else 40000, 2500 if quick else 30000, 4500 if quick else 120000)
        vs += self._free_run(ctx, True, 1000 if quick else 10000, 1000 if quick else 10000, 2500 if quick else 60000)
        vs += self._race_run(ctx, "TestVerifC16Race", 300 if quick else 5000, 300)
        if not quick:
            vs += self._race_run(ctx, "TestVerifC16Stress", 1500, 900)
        return vs


PROP = C16()
