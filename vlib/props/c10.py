"""C10 — the client multiplexer answers every request exactly once, whatever the client does."""
import itertools
import os

from .. import core
from ..core import Prop

MAXSZ = 16 * 1024 * 1024      # maxClientResponseSize, for the generator's book-keeping only (the case files name
SRVSZ = 1024 * 1024           # sizes RELATIVE to the limits; model and Go side take the values from the code)
COUTP = 15                    # [COUTP, name, marker, base, delta]: the answer padded to an encoded size of <base> + delta

# action codes (C10_Model.un_action)
SC, SL, WOK, WFAIL, COUT, CCO, CCI, PEXIT, NOTICE, RSTEP, RCLOSE, RDRAIN, CLOSESEND, STOP, WAIT = range(15)


def encode(name, tag=b""):
    name = name.encode() if isinstance(name, str) else name
    m = bytes([10, len(name)]) + name
    if tag:
        m += bytes([26, len(tag) + 2, 10, len(tag)]) + tag
    return m


def frame(m):
    return len(m).to_bytes(4, "big") + m


def resp(name, tag=b""):
    return frame(encode(name, tag))


def req_len(name):
    """length of the framed ClientCompatRequest{test_name: name} (4-byte prefix + field 1)"""
    name = name.encode() if isinstance(name, str) else name
    return 4 + 2 + len(name)


def send_act(i, name, kind=0, k=0):
    """SendCheck: kind 0 ordinary, 1 request that cannot be marshalled, 2 stdin fails after k bytes (not a closed pipe)"""
    if kind == 0:
        return [SC, i, name]
    if kind == 1:
        return [SC, i, name, 1]
    return [SC, i, name, 2, k]


OVERSIZE = (MAXSZ + 1).to_bytes(4, "big")
# bodies that protobuf-go rejects (and the model's decoder does not recognise)
GARBAGE = [bytes([10, 5, 97]), bytes([255]), bytes([15]), bytes([10]), bytes([8]), bytes([10, 1, 97, 26, 9, 10, 1])]


def decode(m):
    if len(m) == 0:
        return (b"", b"")
    if len(m) < 2 or m[0] != 10:
        return None
    l, r = m[1], m[2:]
    if not (l < 128 and l <= len(r)):
        return None
    nm, rest = r[:l], r[l:]
    if len(rest) == 0:
        return (nm, b"")
    if len(rest) >= 4 and rest[0] == 26 and rest[2] == 10:
        l2, l3, t = rest[1], rest[3], rest[4:]
        if l3 < 126 and l2 == l3 + 2 and len(t) == l3:
            return (nm, t)
    return None


def next_item(buf):
    """('need',) | ('msg', m, rest) | ('over', rest)"""
    if len(buf) < 4:
        return ("need",)
    size = int.from_bytes(buf[:4], "big")
    body = buf[4:]
    if size > MAXSZ:
        return ("over", body)
    if len(body) < size:
        return ("need",)
    return ("msg", body[:size], body[size:])


class Sim:
    """The part of the transition system the generator needs in order to emit only scripts the Go
    harness can force (it is NOT the oracle: expected results come from the extracted Coq model)."""

    def __init__(self):
        self.err = False
        self.closed = False
        self.mu = None
        self.pending = {}
        self.phase = {}
        self.names = {}
        self.kinds = {}           # request -> (kind, instant): see send_act
        self.noop = None          # instant-failing sender refused at the lock: the harness wants its WriteFail anyway
        self.reader = "run"
        self.eof_reason = False
        self.seen = set()
        self.buf = b""
        self.out_open = True
        self.in_open = True
        self.alive = True
        self.noticed = False
        self.blocked = None
        self.checked = None       # sender that passed the err check with sendMu free
        self.released = False
        self.stopped = False
        self.waited = False
        self.acts = []
        self.nfired = 0

    def clone(self):
        s = Sim.__new__(Sim)
        s.__dict__.update(self.__dict__)
        s.pending = dict(self.pending)
        s.phase = dict(self.phase)
        s.names = dict(self.names)
        s.kinds = dict(self.kinds)
        s.seen = set(self.seen)
        s.acts = list(self.acts)
        return s

    # what RStep would do: 'block' | 'ok' | 'stop'
    def rstep_kind(self):
        it = next_item(self.buf)
        if it[0] == "need":
            return "block" if self.out_open else "stop"
        if it[0] == "over":
            return "stop"
        d = decode(it[1])
        if d is None or d[0] not in self.pending:
            return "stop"
        return "ok"

    def kind(self, i):
        return self.kinds.get(i, (0, False))[0]

    def instant(self, i):
        return self.kinds.get(i, (0, False))[1]

    def forced(self):
        if self.checked is not None:
            return [SL, self.checked]
        if self.noop is not None:
            return [WFAIL, self.noop, self.kind(self.noop)]
        if self.mu is not None and self.instant(self.mu):
            return [WFAIL, self.mu, self.kind(self.mu)]     # the write fails without touching the pipe
        if self.mu is not None and not self.in_open:
            return [WFAIL, self.mu]
        if self.mu is None and self.blocked is not None:
            return [SL, self.blocked]
        if self.reader == "stop1" and self.mu is None:
            return [RCLOSE]
        if self.reader == "stop2":
            return [RDRAIN]
        return None

    def apply(self, a):
        self.acts.append(a)
        op = a[0]
        if op == SC:
            i, n = a[1], a[2]
            n = n.encode() if isinstance(n, str) else n
            self.names[i] = n
            kd = a[3] if len(a) > 3 else 0
            self.kinds[i] = (kd, kd == 1 or (kd == 2 and a[4] % req_len(n) == 0))
            if self.err:
                self.phase[i] = "ret"
            else:
                self.phase[i] = "checked"
                if self.mu is None:
                    self.checked = i
                else:
                    self.blocked = i
        elif op == SL:
            i = a[1]
            if self.phase.get(i) != "checked":
                return
            self.checked = None
            if self.blocked == i:
                self.blocked = None
            n = self.names[i]
            if self.closed or n in self.pending:
                self.phase[i] = "ret"
                if self.instant(i):
                    self.noop = i
            else:
                self.pending[n] = i
                self.phase[i] = "writing"
                self.mu = i
        elif op == WOK:
            self.phase[a[1]] = "ret"
            self.mu = None
        elif op == WFAIL:
            i = a[1]
            if self.noop == i:
                self.noop = None
            if self.phase.get(i) != "writing":
                return
            n = self.names[i]
            if self.pending.get(n) is not None:
                del self.pending[n]
                self.err = True
            self.phase[i] = "ret"
            self.mu = None
        elif op == COUT:
            self.buf += a[1]
        elif op == COUTP:
            total = (0, SRVSZ, MAXSZ)[a[3]] + a[4]
            nm = a[1].encode() if isinstance(a[1], str) else a[1]
            self.buf += resp(nm, a[2]) if total <= MAXSZ else total.to_bytes(4, "big")
        elif op == CCO:
            self.out_open = False
        elif op == CCI:
            self.in_open = False
        elif op == PEXIT:
            self.alive = False
            self.in_open = False
            self.out_open = False
            self.buf = b""
        elif op == NOTICE:
            self.noticed = True
        elif op == RSTEP:
            if self.reader != "run":
                return
            it = next_item(self.buf)
            if it[0] == "need":
                if self.out_open:
                    return
                self.eof_reason = len(self.buf) == 0
                self.buf = b""
                self._stop()
            elif it[0] == "over":
                self.buf = it[1]
                self._stop()
            else:
                self.buf = it[2]
                d = decode(it[1])
                if d is None or d[0] not in self.pending:
                    self._stop()
                else:
                    del self.pending[d[0]]
                    self.seen.add(d[0])
                    self.nfired += 1
        elif op == RCLOSE:
            self.reader = "stop2"
            self.closed = True
            self.in_open = False
        elif op == RDRAIN:
            self.nfired += len(self.pending)
            self.pending = {}
            self.reader = "done"
        elif op == CLOSESEND:
            self.closed = True
            self.in_open = False
        elif op == STOP:
            self.stopped = True
        elif op == WAIT:
            self.waited = True

    def _stop(self):
        self.reader = "stop1"
        if not self.eof_reason:
            self.err = True

    # ---- free choices (beyond forced ones) that the harness can force ----
    def can_send(self):
        """may a new sender start now?"""
        if self.blocked is not None or self.checked is not None:
            return False
        if self.mu is not None and self.reader == "stop1" and not self.err:
            return False          # it would park on sendMu next to the reader's closeSend
        return True

    def can_rstep(self):
        if self.reader != "run":
            return False
        k = self.rstep_kind()
        if k == "stop" and self.blocked is not None:
            return False
        return True


def finish(sim, rng=None, wait=True):
    """bring a script to a quiet end: process exit, notice, reader clean-up, Wait"""
    def drain_forced():
        while True:
            f = sim.forced()
            if f is None:
                return
            sim.apply(f)
    drain_forced()
    if sim.alive:
        sim.apply([PEXIT, 0, 0])
        drain_forced()
    if not sim.noticed:
        sim.apply([NOTICE])
    while sim.reader == "run":
        sim.apply([RSTEP])
        drain_forced()
    drain_forced()
    if wait and not sim.waited:
        sim.apply([WAIT])


def case_of(sim):
    ids = sorted(sim.names)
    return ["c10.script", sim.acts, ids]


NAMES = ["a", "b", "c", "d"]


def systematic(quick):
    """every request set x answer order x ending, in a few interleaving shapes"""
    for n in (1, 2, 3, 4):
        for names in ([NAMES[:n]] + ([["a", "a"]] if n == 2 else []) + ([["a", "b", "a"]] if n == 3 else [])
                      + ([["a", "b", "a", "b"]] if n == 4 and not quick else [])):
            distinct = sorted(set(names))
            orders = []
            for k in range(len(distinct) + 1):
                for sub in itertools.permutations(distinct, k):
                    orders.append(list(sub))
            for order in orders:
                unanswered = [x for x in distinct if x not in order]
                endings = [("exit", 0), ("exit", 1), ("unknown",), ("oversize",), ("garbage", 0), ("closeout",), ("none",)]
                if order:
                    endings.append(("dupresp",))
                cutname = unanswered[0] if unanswered else "zz"
                fr = resp(cutname, b"t")
                cuts = range(1, len(fr)) if (not quick or (len(order) <= 1 and n < 4)) else (1, 3, 4, 5, len(fr) - 1)
                if quick and n == 4 and len(order) >= 2:
                    cuts = (4, len(fr) - 1)
                for k in cuts:
                    endings.append(("cut", fr[:k], k % 2))
                for gi in range(1, len(GARBAGE)):
                    if not quick or len(order) == 0:
                        endings.append(("garbage", gi))
                if quick and n == 4 and len(order) >= 3:
                    endings = [e for e in endings if e[0] in ("exit", "unknown", "dupresp", "cut", "none")]
                for shape in ("batch", "pingpong", "early"):
                    for ending in endings:
                        yield from shape_case(names, order, ending, shape)


def shape_case(names, order, ending, shape):
    sim = Sim()
    sent = 0

    def send(i, read=True):
        sim.apply([SC, i, names[i]])
        while sim.forced() is not None:
            sim.apply(sim.forced())
        if read and sim.mu == i and sim.in_open and sim.alive:
            sim.apply([WOK, i])
            while sim.forced() is not None:
                sim.apply(sim.forced())

    def answer(x, tag):
        if sim.alive and sim.out_open:
            sim.apply([COUT, resp(x, tag)])
        if sim.can_rstep():
            sim.apply([RSTEP])
            while sim.forced() is not None:
                sim.apply(sim.forced())

    tag = lambda x: ("r-" + x).encode()
    if shape == "batch":            # client reads everything, then answers
        for i in range(len(names)):
            send(i)
        for x in order:
            answer(x, tag(x))
    elif shape == "pingpong":       # answers follow the requests they belong to as early as possible
        todo = list(order)
        for i in range(len(names)):
            send(i)
            while todo and todo[0].encode() in sim.pending:
                x = todo.pop(0)
                answer(x, tag(x))
        for x in todo:
            answer(x, tag(x))
    else:                           # "early": the client answers while the request's write is still in flight
        todo = list(order)
        for i in range(len(names)):
            send(i, read=False)
            if sim.mu == i and todo and todo[0] == names[i]:
                answer(todo.pop(0), tag(names[i]))
            if sim.mu == i and sim.in_open and sim.alive:
                sim.apply([WOK, i])
                while sim.forced() is not None:
                    sim.apply(sim.forced())
        for x in todo:
            answer(x, tag(x))
    kind = ending[0]
    if sim.alive and sim.out_open and sim.reader == "run":
        if kind == "exit":
            sim.apply([PEXIT, ending[1], 0])
        elif kind == "unknown":
            sim.apply([COUT, resp("zz", b"u")])
        elif kind == "dupresp":
            sim.apply([COUT, resp(order[0], b"again")])
        elif kind == "oversize":
            sim.apply([COUT, OVERSIZE + b"xy"])
        elif kind == "garbage":
            sim.apply([COUT, frame(GARBAGE[ending[1]])])
        elif kind == "closeout":
            sim.apply([CCO])
        elif kind == "cut":
            sim.apply([COUT, ending[1]])
            sim.apply([CCO])
        while sim.forced() is not None:
            sim.apply(sim.forced())
        if sim.can_rstep():
            sim.apply([RSTEP])
            while sim.forced() is not None:
                sim.apply(sim.forced())
    # one more request after whatever happened (refused after a failure)
    extra = len(names)
    if sim.can_send():
        names = names + ["late"]
        sim.apply([SC, extra, "late"])
        while sim.forced() is not None:
            sim.apply(sim.forced())
    finish(sim)
    yield case_of(sim)


def random_walk(rng, maxlen, nreq):
    sim = Sim()
    next_id = 0
    pool = ["a", "b", "c", "dd", "Suite/case 1"]
    partial = None            # rest of a frame whose first part was written
    for _ in range(maxlen):
        f = sim.forced()
        if f is not None:
            sim.apply(f)
            continue
        opts = []
        if next_id < nreq and sim.can_send():
            opts += ["send"] * 5
        if sim.mu is not None and sim.alive and sim.in_open:
            opts += (["wok"] if sim.kind(sim.mu) == 0 else ["wother"]) * 5
        if sim.alive and sim.out_open:
            opts += ["out"] * 5
            opts += ["cco"]
        if sim.alive:
            opts += ["exit", "cci"]
        if not sim.alive and not sim.noticed:
            opts += ["notice"] * 3
        if sim.can_rstep() and (sim.buf or not sim.out_open):
            opts += ["rstep"] * 8
        if sim.mu is None and sim.reader in ("run", "done") and not sim.closed:
            opts += ["closesend"]
        if not sim.stopped:
            opts += ["stop"]
        if sim.reader == "done" and not sim.alive and not sim.waited:
            opts += ["wait"] * 3
        if not opts:
            break
        o = rng.choice(opts)
        if o == "send":
            n = rng.choice(pool[:rng.choice([1, 2, 3, 5])])
            r = rng.random()
            if r < 0.8:
                sim.apply(send_act(next_id, n))
            elif r < 0.88:
                sim.apply(send_act(next_id, n, 1))
            else:
                sim.apply(send_act(next_id, n, 2, rng.randrange(0, 3 * req_len(n))))
            next_id += 1
        elif o == "wok":
            sim.apply([WOK, sim.mu])
        elif o == "wother":
            sim.apply([WFAIL, sim.mu, 2])
        elif o == "out":
            if partial is not None:
                data, partial = partial, None
            else:
                r = rng.random()
                pend = sorted(sim.pending)
                if r < 0.6 and pend:
                    data = resp(rng.choice(pend), rng.choice([b"", b"x", b"tag-%d" % rng.randrange(100)]))
                elif r < 0.7:
                    data = resp(rng.choice(pool), b"q")
                elif r < 0.76 and sim.seen:
                    data = resp(rng.choice(sorted(sim.seen)), b"again")
                elif r < 0.82:
                    data = OVERSIZE + bytes(rng.randrange(256) for _ in range(rng.randrange(3)))
                elif r < 0.9:
                    data = frame(rng.choice(GARBAGE))
                else:
                    data = resp("zz", b"u")
                if rng.random() < 0.25 and pend:
                    data += resp(rng.choice(pend), b"2nd")
                if rng.random() < 0.3:
                    k = rng.randrange(1, len(data))
                    data, partial = data[:k], data[k:]
            sim.apply([COUT, data])
        elif o == "cco":
            sim.apply([CCO])
        elif o == "cci":
            sim.apply([CCI])
        elif o == "exit":
            sim.apply([PEXIT, int(rng.random() < 0.3), int(rng.random() < 0.5)])
        elif o == "notice":
            sim.apply([NOTICE])
        elif o == "rstep":
            sim.apply([RSTEP])
        elif o == "closesend":
            sim.apply([CLOSESEND])
        elif o == "stop":
            sim.apply([STOP])
        elif o == "wait":
            sim.apply([WAIT])
    if rng.random() < 0.8:
        finish(sim, wait=rng.random() < 0.9)
    else:
        while sim.forced() is not None:
            sim.apply(sim.forced())
    return case_of(sim)


def exhaustive(depth, nreq, kinds=False):
    """every forceable script over a small alphabet up to `depth` free choices
    (kinds: each request also as one that cannot be marshalled / whose write fails mid-message)"""
    def alphabet(sim, nsent):
        acts = []
        if nsent < nreq and sim.can_send():
            nm = NAMES[nsent] if nsent < 2 else "a"
            acts.append(("send", [SC, nsent, nm]))
            if kinds:
                acts.append(("send", send_act(nsent, nm, 1)))
                acts.append(("send", send_act(nsent, nm, 2, 5)))
        if sim.mu is not None and sim.alive and sim.in_open:
            if sim.kind(sim.mu) == 0:
                acts.append(("wok", [WOK, sim.mu]))
            else:
                acts.append(("wother", [WFAIL, sim.mu, 2]))
        if sim.alive and sim.out_open:
            for x in sorted(set(list(sim.pending) + list(sim.seen)))[:2]:
                acts.append(("out", [COUT, resp(x, b"r" + x)]))
            if not sim.buf:
                acts.append(("out", [COUT, resp("zz")]))
                acts.append(("out", [COUT, frame(GARBAGE[0])[:5]]))
            acts.append(("cco", [CCO]))
        if sim.alive:
            acts.append(("exit", [PEXIT, 0, 0]))
        if not sim.alive and not sim.noticed:
            acts.append(("notice", [NOTICE]))
        if sim.can_rstep() and (sim.buf or not sim.out_open):
            acts.append(("rstep", [RSTEP]))
        if sim.mu is None and sim.reader == "run" and not sim.closed:
            acts.append(("closesend", [CLOSESEND]))
        return acts

    def rec(sim, d, nsent):
        while sim.forced() is not None:
            sim.apply(sim.forced())
        if d == 0:
            s = sim.clone()
            finish(s)
            yield case_of(s)
            return
        acts = alphabet(sim, nsent)
        if not acts:
            s = sim.clone()
            finish(s)
            yield case_of(s)
            return
        for kind, a in acts:
            s = sim.clone()
            s.apply(a)
            yield from rec(s, d - 1, nsent + (1 if kind == "send" else 0))

    yield from rec(Sim(), depth, 0)


def drain(sim):
    while sim.forced() is not None:
        sim.apply(sim.forced())


def write_failures(quick):
    """the three failure kinds of sendRequest's write path (marshalling before any byte / closed pipe / another
    pipe error after k bytes) at every request position, in several surroundings; afterwards the same test
    name is sent again, and the script is brought to its end (drain)"""
    for n in ((1, 2, 3) if quick else (1, 2, 3, 4)):
        for pos in range(n):
            nm = NAMES[pos]
            L = req_len(nm)
            specs = [(1, 0)] + [(2, k) for k in sorted({0, 1, 3, 4, 5, L - 1, L, L + 2})] + [(3, 0), (4, 0)]
            for kind, k in specs:                     # 3: stdin closed by the client, 4: process exits (kind 0 request)
                for answers in ("none", "before", "early", "after"):
                    for park in (None, "same", "other"):
                        for ending in ("exit", "exit-failed", "closeout", "unknown", "cut"):
                            if quick and n == 3 and ending in ("unknown", "exit-failed") and answers in ("early",):
                                continue
                            c = write_failure_case(n, pos, kind, k, answers, park, ending)
                            if c is not None:
                                yield c


def write_failure_case(n, pos, kind, k, answers, park, ending):
    sim = Sim()
    nid = n

    def answer(x):
        if sim.alive and sim.out_open and x.encode() in sim.pending:
            sim.apply([COUT, resp(x, b"r-" + x.encode())])
            if sim.can_rstep():
                sim.apply([RSTEP])
                drain(sim)

    for i in range(n):
        nm = NAMES[i]
        if i != pos:
            sim.apply([SC, i, nm])
            drain(sim)
            if sim.mu == i and sim.in_open and sim.alive:
                sim.apply([WOK, i])
                drain(sim)
            if answers == "before" and i < pos:
                answer(nm)
            continue
        # the request whose write fails
        sim.apply(send_act(i, nm, kind if kind in (1, 2) else 0, k))
        if sim.checked == i:
            sim.apply([SL, i])
        held = sim.mu == i and not sim.instant(i)
        if park is not None:
            if not held or not sim.can_send():
                return None                           # nobody can wait behind a write that fails at once
            sim.apply([SC, nid, nm if park == "same" else "p"])
            nid += 1
        if answers == "early" and held:
            answer(nm)                                # the client answers the request it has not finished reading
        if held:
            if kind == 2:
                sim.apply([WFAIL, i, 2])
            elif kind == 3:
                sim.apply([CCI])
            elif kind == 4:
                sim.apply([PEXIT, 0, 1])
        drain(sim)
        if sim.mu is not None and sim.in_open and sim.alive and sim.kind(sim.mu) == 0:
            sim.apply([WOK, sim.mu])                  # the parked sender's own write
            drain(sim)
    if answers == "after":
        for i in range(n):
            answer(NAMES[i])
    # the same test name once more (free again? refused because err is set?)
    if sim.can_send():
        sim.apply([SC, nid, NAMES[pos]])
        nid += 1
        drain(sim)
        if sim.mu is not None and sim.in_open and sim.alive and sim.kind(sim.mu) == 0:
            sim.apply([WOK, sim.mu])
            drain(sim)
    if sim.alive and sim.out_open and sim.reader == "run":
        if ending == "exit":
            sim.apply([PEXIT, 0, 0])
        elif ending == "exit-failed":
            sim.apply([PEXIT, 1, 0])
        elif ending == "closeout":
            sim.apply([CCO])
        elif ending == "unknown":
            sim.apply([COUT, resp("zz", b"u")])
        elif ending == "cut":
            sim.apply([COUT, resp(NAMES[0], b"t")[:7]])
            sim.apply([CCO])
        drain(sim)
        if sim.can_rstep():
            sim.apply([RSTEP])
            drain(sim)
    finish(sim)
    return case_of(sim)


def two_message_outputs(quick):
    """the client writes TWO messages back to back; the output is cut after every byte (stdout closed / process
    gone), or written in two pieces split at every byte"""
    pairs = [("a", "b"), ("b", "a"), ("a", "a"), ("a", "zz"), ("zz", "a"), ("a", "c")]
    for nreq in (2, 3):
        for x, y in pairs:
            if (y == "c" or x == "c") and nreq < 3:
                continue
            data = resp(x, b"r-" + x.encode()) + resp(y, b"r-" + y.encode())
            for k in range(1, len(data) + 1):
                for how in ("cco", "exit", "split", "split-late"):
                    if k == len(data) and how in ("split", "split-late"):
                        continue
                    if quick and nreq == 3 and how == "split-late":
                        continue
                    sim = Sim()
                    for i in range(nreq):
                        sim.apply([SC, i, NAMES[i]])
                        drain(sim)
                        sim.apply([WOK, i])
                        drain(sim)
                    sim.apply([COUT, data[:k]])
                    if how == "cco":
                        sim.apply([CCO])
                    elif how == "exit":
                        # whatever the reader has not pulled is lost with an in-process pipe: let it read first
                        for _ in range(2):
                            if sim.can_rstep() and sim.rstep_kind() != "block":
                                sim.apply([RSTEP])
                                drain(sim)
                        if sim.alive:
                            sim.apply([PEXIT, k % 2, 0])
                    else:
                        if how == "split-late":
                            for _ in range(2):
                                if sim.can_rstep() and sim.rstep_kind() != "block":
                                    sim.apply([RSTEP])
                                    drain(sim)
                        if sim.alive and sim.out_open:
                            sim.apply([COUT, data[k:]])
                    drain(sim)
                    for _ in range(3):
                        if sim.can_rstep() and sim.rstep_kind() != "block":
                            sim.apply([RSTEP])
                            drain(sim)
                    finish(sim)
                    yield case_of(sim)


def proc_cases(rng, quick):
    """c10.proc: the free-running in-process client that returns (nil / error) after reading r of n requests"""
    names = ["t0", "Suite/t1", "t2", "t-three", "t4"]
    # the client function returns at once, BEFORE runClient registers its whenDone callback (6th argument 1)
    for n in ((0, 1, 3) if quick else (0, 1, 2, 3, 4)):
        for failed in (0, 1):
            yield ["c10.proc", names[:n], 0, [], failed, 0, 1]
    # registrations and the exit on a real localProcess, every order of <= 3 (4) steps over two callbacks
    alphabet = ([0, 0], [0, 1], [1])
    for length in range(1, 4 if quick else 5):
        for seq in itertools.product(alphabet, repeat=length):
            yield ["c10.whendone", [list(a) for a in seq]]
    for _ in range(10 if quick else 200):
        yield ["c10.whendone", [[1] if rng.random() < 0.25 else [0, rng.randint(0, 3)] for _ in range(rng.randint(4, 10))]]
    for n in range(0, 5 if quick else 6):
        for r in range(0, n + 1):
            orders = []
            for m in range(r + 1):
                orders += [list(p) for p in itertools.permutations(range(r), m)]
            if len(orders) > 70:
                orders = orders[:1] + rng.sample(orders[1:], 40 if quick else 150)
            for order in orders:
                for failed in (0, 1):
                    for peek in ((0, 1, 4, 6) if r < n else (0,)):
                        yield ["c10.proc", names[:n], r, order, failed, peek]


# sizes of an answer around the two response-size limits: (base, delta), base 1 = the limit of the
# server-response reader, base 2 = the limit of the client-output reader, base 0 = absolute
LIMIT_SIZES = [(1, -1), (1, 0), (1, 1), (0, 2 * 1024 * 1024), (2, -1), (2, 0), (2, 1)]


def limit_case(names, order, big, size, shape="batch", second=None):
    """requests `names`; the client answers `order`; the answer to `big` has the encoded size `size`
    (and the one to `second`, if any, 2 MiB + 3), the others are small; then a late request, quiet end"""
    sim = Sim()

    def forced():
        while sim.forced() is not None:
            sim.apply(sim.forced())

    def answer(x):
        tg = ("r-" + x).encode()
        if not (sim.alive and sim.out_open and sim.reader == "run" and sim.buf == b""):
            return
        if x == big:
            sim.apply([COUTP, x, tg, size[0], size[1]])
        elif x == second:
            sim.apply([COUTP, x, tg, 0, 2 * 1024 * 1024 + 3])
        else:
            sim.apply([COUT, resp(x, tg)])
        if sim.can_rstep():
            sim.apply([RSTEP])
            forced()

    todo = list(order)
    for i, nm in enumerate(names):
        sim.apply([SC, i, nm])
        forced()
        if shape == "early" and sim.mu == i and todo and todo[0] == nm:
            answer(todo.pop(0))             # the answer arrives while the request's write is in flight
        if sim.mu == i and sim.in_open and sim.alive:
            sim.apply([WOK, i])
            forced()
    for x in todo:
        answer(x)
    if sim.can_send():
        sim.apply([SC, len(names), "late"])
        forced()
    finish(sim)
    return case_of(sim)


def limit_cases(rng, quick):
    """an answer whose encoded size lies between the two limits (and at each end of the window, and just
    above the client limit) in EVERY run; few multi-megabyte bodies: each case carries one or two"""
    three = ["a", "b", "c"]
    for size in LIMIT_SIZES:
        huge = size[0] == 2
        # the big answer in the middle of the answers, all tests answered
        yield limit_case(three, ["a", "b", "c"], "b", size)
        if huge and size[1] != 0 and quick:
            continue
        # ... first, in a random order of the others, one test left unanswered
        rest = rng.sample(["a", "c"], 2)
        yield limit_case(three, ["b"] + rest[:1], "b", size)
        if huge:
            continue
        # ... last; as the only answer; while its request's write is still in flight
        yield limit_case(three, rest + ["b"], "b", size)
        yield limit_case(["b"], ["b"], "b", size)
        yield limit_case(three, ["a", "b"], "b", size, shape="early")
        yield limit_case(["a", "b"], ["b", "a"], "b", size, shape="early")
    # two answers inside the window in one run, and random sizes inside the window
    yield limit_case(three, ["c", "a", "b"], "c", (1, 1), second="a")
    for _ in range(2 if quick else 12):
        k = rng.randint(2, 4)
        nms = NAMES[:k]
        order = rng.sample(nms, rng.randint(1, k))
        delta = rng.choice([rng.randint(2, 4096), rng.randint(2, 3 * 1024 * 1024)])
        yield limit_case(nms, order, rng.choice(order), (1, delta), shape=rng.choice(["batch", "early"]))
    if not quick:
        for d in (-2, 2, 1 << 20):
            yield limit_case(three, ["a", "b", "c"], "b", (2, d))
        for d in range(-8, 9):
            yield limit_case(three, ["a", "b", "c"], "b", (1, d))


class C10(Prop):
    id = "C10"
    props = "C10_Props"
    coq_files = ("Base", "C10_Consts", "C10_Model", "C10_Spec", "C10_Proofs", "C10_LimitProofs", "C10_Props")
    models = ("C10_Model",)
    consts = ("cc",)
    packages = {"cc": "internal/app/connectconformance"}
    kinds = {"c10.script": "cc", "c10.proc": "cc", "c10.whendone": "cc"}
    go_timeout = 600
    rule = ("c10.script: scripts of atomic actions (sender err-check / lock+register / write ok / write failed [closed pipe | request "
            "that cannot be marshalled: invalid UTF-8 in a proto3 string field | scripted stdin failing with a non-pipe error after k "
            "bytes], client output bytes, "
            "client closes stdout/stdin, process exit, exit notice, reader step, reader closeSend, reader drain, closeSend, stop, "
            "waitForResponses) forced on the REAL runClient/clientProcessRunner over the real runInProcess pipes by a scripted client, a "
            "gate on the reader's stdout, a gated whenDone and goroutine-state inspection for a sender parked on sendMu. "
            "systematic: 1-3 requests (distinct / duplicate names) x every answer order of every subset x every ending (exit ok/failed, "
            "unknown name, already-answered, oversize, 6 garbage bodies, stdout closed, output cut after every byte) x 3 interleaving "
            "shapes (client reads all then answers / answers as early as possible / answers while the request's write is in flight) "
            "+ a late request (1-4 requests in both tiers); write-path failures: each failure kind (marshal / other error at byte "
            "0,1,3,4,5,L-1,L,L+2 / stdin closed / process exit) at every request position x answers before/early/after x a sender of "
            "the same or another name parked on sendMu x 5 endings + the same name sent again; two-message outputs cut after EVERY byte "
            "(stdout closed / process exit) or split at every byte into two writes; exhaustive: every forceable script of <= D free "
            "choices over a small alphabet (2 requests: D=8 quick, 9 thorough; 3 requests: D=7 / 8; with the three request kinds: D=5 / 6); "
            "random walks up to 40 actions with partial frames, several frames per write, parked senders. compared after EVERY action: "
            "isRunning(); at the end: per request the sendRequest result class and the callback invocations (count, name, own "
            "response marker or error class), reader done, waitForResponses result class. EVERY response object handed to a callback "
            "is kept and read again at the end of the case (name, marker, digest of its deterministic encoding): a response that "
            "changed after the callback returned shows as a disagreement with the model's `fired` values. "
            "limits wiring (every run, first): action 15 = the scripted client writes an answer padded to an encoded size given "
            "RELATIVE to the two response-size limits of the compiled code (server limit -1 / exactly / +1, 2 MiB, client limit -1 / "
            "exactly: must be delivered to its own callback with the other pending tests unaffected; client limit +1: rejected at the "
            "prefix), in 6 positions / interleavings, two such answers in one run, random sizes inside the window; the model predicts "
            "the outcome from its wiring table limit_of. "
            "c10.proc: free-running client function on the real runInProcess (no gates) that reads r of n requests, answers a "
            "permutation of a subset, reads 0/1/4/6 bytes of the next request and RETURNS nil / an error while the sender is inside "
            "that write; compared with the model's canonical schedule (proc_script): per request result + callbacks, reader done, "
            "waitForResponses, isRunning; with early = 1 the client function returns at once and the starter hands the process to runClient "
            "only after it has ended (whenDone registered on a finished process; proc_script_early). c10.whendone: registrations and the "
            "exit in every order of <= 3 steps (+ random longer ones) on a real localProcess, runs per callback. Every wait of the Go side is bounded (15 s for the first hang of a binary): a hang is the "
            "outcome (hang <where>) of that case. extra: free-running -race stress (responses kept and re-read there too)")
    trusted_base = ("Coq 8.16.1 kernel (vm_compute used, native_compute not)", "extraction (ExtrOcamlBasic only) + ocaml/driver.ml",
                    "vlib generators/comparator, Go overlay harness (harness/C10)",
                    "modelled not verified: io.Pipe semantics, sync.Mutex, atomic.Bool/Pointer, goroutine scheduling (one action per "
                    "lock region / atomic op / pipe op), protobuf decoding (the model decodes only the message shapes the harness writes)",
                    "which limit constant consumeOutput's call of ReadDelimitedMessage is handed: the model's table limit_of is written by "
                    "hand (both constants are regenerated from the code) and tied to the code behaviourally, not by parsing the call site")
    assumptions = ("every shared variable of clientProcessRunner is accessed only in the lock regions / atomic operations that the "
                   "model's actions stand for (by inspection of client_runner.go; supported by the -race runs)",
                   "local steps merged with the neighbouring shared step of the same goroutine commute with the other actors' steps "
                   "(argued in C10_Model.v's header)",
                   "liveness needs the environment: an aborted or finished client process eventually exits (closing its pipe ends), "
                   "and a live client either reads a request being written or exits; the 20 s read timeout and the 3 s/5 s grace "
                   "periods of waitForResponses/stop are not modelled",
                   "a zero-length response frame is not generated (io.Pipe blocks a zero-length Read until the next write)",
                   "write path: which failure can happen to a request (cannot be marshalled / stdin fails with a non-pipe error) is "
                   "data of the script; the model lets the non-pipe error happen at any time during the write (the real io.Pipe never "
                   "produces one: the harness' stdin wrapper does); a write that fails before touching the pipe cannot be held by the "
                   "harness, so lock+register and the failed write are forced back to back for such requests")
    level_text = ("Machine-checked proof (Coq) over ARBITRARY action lists of the transition system of clientProcessRunner: callbacks "
                  "fire at most once; at quiescence a request whose sendRequest returned nil has fired exactly once and one that was "
                  "refused never; a response callback carries the request's own name and a message the client wrote on its stdout; "
                  "after a reader failure every later send is refused, isRunning is false, the drain leaves nothing pending and "
                  "waitForResponses returns; a request whose sendRequest returned an error (err check, duplicate, closed, write failed by "
                  "marshalling / closed pipe / any other pipe error) is never called back, and after a failed write its name is free "
                  "again; the end of the client process - function returned nil OR an error, at any point - closes stdin so the writer in "
                  "flight returns; from every reachable state the system can be driven to completion (no deadlock); the reader of the client's "
                  "output is handed the client limit, not the server-response limit: for ALL sizes an answer up to the client limit - the "
                  "window between the two regenerated constants is proved non-empty - is delivered to its own test's callback exactly once "
                  "with every other pending test untouched, a larger one stops the reader at the prefix (limits_wired); the exit notice "
                  "(localProcess.whenDone) reaches every registered callback exactly once for EVERY interleaving of registrations and the "
                  "exit - runClient registers after start() returned, the client may already be gone (exit_notice_any_order, "
                  "runner_notice_both_orders). "
                  "The model is tied to client_runner.go by forced-schedule differential runs on every check.")
    level_note = ("Trusted: Coq kernel, extraction, OCaml driver, harness. Model-code correspondence is sampled (systematic + "
                  "exhaustive small scope + random), not proved; only schedules the harness can force are compared (a sender cannot "
                  "be held between its err check and sendMu.Lock unless sendMu is held by a writer; the reader's closeSend and drain "
                  "run through once sendMu is free). Go's mutex/pipe/atomic semantics and data-race freedom are assumed (tested "
                  "with -race). Time-outs are not modelled. A panic of an in-process client function is not caught by "
                  "runInProcess (it ends the whole test binary) and is not modelled; cmdProcess (OS processes) is C04's. "
                  "Multi-megabyte answers are not built inside the model: the decoder replaces a padded answer the wiring lets through by "
                  "the plain answer's frame (proved equivalent at a frame boundary: padded_answer_read_like_plain); the Go side writes the "
                  "real bytes. The server-response reader itself belongs to C09 / C11. "
                  "whenDone is modelled as it is written today (one parked goroutine per registration); the order 'client function returned "
                  "before runClient registers' is forced by a starter wrapped around the real runInProcess starter (c10.proc early = 1) and "
                  "by calling whenDone on a finished real localProcess (c10.whendone); the order in which several callbacks run is not compared, "
                  "a callback that runs twice is seen only if the second run happens before the counts are read.")
    technique = "Coq invariant proofs over arbitrary action lists; forced-schedule differential against the real runner; -race stress"

    def nontrivial(self, case, res):
        return "(0 #" in res or "(1 #" in res

    def describe(self, case, g, m):
        if g is not None and "68616e67" in g:
            return ("client multiplexer: the real runner HANGS / does not reach the expected quiescent point "
                    "(the impl line says where the harness gave up waiting)")
        return ("client multiplexer: callbacks / sendRequest results / isRunning / waitForResponses differ from the proved model "
                "(model = repaired behaviour: the exit notice marks the runner as not running)")

    def generate(self, rng, tier):
        quick = tier == "quick"
        yield from limit_cases(rng, quick)
        yield from proc_cases(rng, quick)
        yield from write_failures(quick)
        yield from two_message_outputs(quick)
        yield from systematic(False)                     # (the reduced variant is kept for development runs)
        yield from exhaustive(8 if quick else 9, 2)
        yield from exhaustive(7 if quick else 8, 3)
        yield from exhaustive(5 if quick else 6, 2, kinds=True)
        yield from exhaustive(5 if quick else 6, 3, kinds=True)
        for _ in range(10000 if quick else 80000):
            yield random_walk(rng, rng.randint(8, 40), rng.randint(1, 6))

    def _race_run(self, ctx, testname, rounds, timeout):
        binp = core.go_test_bin(self, self.packages["cc"], race=True)
        out = os.path.join(ctx.work, testname + ".out")
        if os.path.exists(out):
            os.remove(out)
        rc, log, dt = core.run_cmd([binp, "-test.run", "^" + testname + "$", "-test.count=1", "-test.timeout", "%ds" % timeout],
                                   cwd=os.path.join(core.REPO, self.packages["cc"]), timeout=timeout + 30, check=False,
                                   extra_env={"VERIF_OUT": out, "VERIF_C10_ROUNDS": str(rounds), "VERIF_SEED": str(ctx.seed),
                                              "GORACE": "halt_on_error=0"})
        ctx.notes["t_" + testname + "_s"] = round(dt, 2)
        body = open(out).read() if os.path.exists(out) else ""
        vs = []
        if "DATA RACE" in log:
            i = log.index("DATA RACE")
            vs.append(core.Violation("%s: data race reported by the race detector" % testname,
                                     "; C10 %s (go test -race): data race\n; %s\n" % (testname, log[max(0, i - 200):i + 2500].replace("\n", "\n; ")),
                                     "no-failing-input-found"))
        elif body.startswith("problem"):
            vs.append(core.Violation("%s: %s" % (testname, body.splitlines()[0][:200]),
                                     "; C10 %s:\n; %s\n" % (testname, body.replace("\n", "\n; ")), "no-failing-input-found"))
        elif rc != 0 or not body.startswith("ok"):
            raise core.HarnessError("%s failed (rc=%d):\n%s" % (testname, rc, log[-4000:]))
        else:
            ctx.notes[testname] = body.strip()
        return vs

    def extra(self, ctx):
        if ctx.tier == "quick":
            return self._race_run(ctx, "TestVerifC10Race", 150, 300)
        return self._race_run(ctx, "TestVerifC10Race", 4000, 900)


PROP = C10()
