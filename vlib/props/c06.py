"""C06 — config expansion equals the declarative feature/include/exclude specification."""
import itertools
from ..core import Prop

FLAGS = (0, 1, 2)   # absent, false, true


def features(v=(), p=(), c=(), z=(), s=(), flags=(0,) * 7):
    return [list(v), list(p), list(c), list(z), list(s)] + list(flags)


def entry(v=0, p=0, c=0, z=0, s=0, tls=0, certs=0, limit=0):
    return [v, p, c, z, s, tls, certs, limit]


V_PROFILES = [(), (1,), (2,), (3,), (1, 2), (1, 3), (2, 3), (1, 2, 3)]
P_PROFILES = [(), (1,), (2,), (3,), (1, 3), (1, 2, 3)]
S_PROFILES = [(), (1,), (4,), (5,), (1, 4), (2, 3, 5), (1, 2, 3, 4, 5)]


class C06(Prop):
    id = "C06"
    props = "C06_Props"
    coq_files = ("Base", "C06_Model", "C06_Load", "C06_Spec", "C06_Proofs", "C06_LoadSpec", "C06_LoadProofs", "C06_Props")
    models = ("C06_Load",)
    packages = {"cc": "internal/app/connectconformance"}
    kinds = {"c06.parse": "cc", "c06.load": "cc", "c06.efn": "cc"}
    rule = ("c06.parse: a Config message (features, include_cases, exclude_cases) rendered as JSON/YAML text in one of 8 styles and "
            "parsed by the real parseConfig; compared: error-or-(count, sorted set of the ten-field config cases). Generators: every "
            "tri-state of the seven support flags (3^7) x sampled version/protocol/stream-type profiles; the full profile product "
            "under 12 flag settings; every single include/exclude entry over version x protocol x stream type x use_tls x "
            "use_tls_client_certs (x limit/codec/compression samples) under 8 feature profiles; random configs with 0-3 include "
            "and 0-3 exclude entries, lists with duplicates, *_UNSPECIFIED and CODEC_TEXT members; every axis list of the features with a "
            "repeated value ((x,x), (x,x,x), (x,x,y), (x,y,x), (y,x,x)) alone and with full-/half-duplex and random entries; pairs of entries "
            "in one configuration that differ only in one optional flag being omitted / false / true (all ordered pairs, each of the three "
            "flags, include+exclude, include+include, exclude+exclude). "
            "c06.load: the loader glue - the real Run (Verbose, a --test-file that does not exist, so it stops after the config step) over a real "
            "scratch directory: no --conf / regular file / named pipe (stat size 0) / missing file / directory, and parseConfig called directly; "
            "the document is no bytes, the rendering of a message, or one of 8 texts protoyaml rejects (checked on every use); compared: "
            "error-or-number of config cases (the first number Run logs). c06.efn: the real internal.EnsureFileName on message x file name "
            "(all strings over {a,b} up to length 4 x 3, and realistic ones); compared: (non-nil, result mentions the file, result mentions the message). "
            "non-trivial = every distinct config (both error and non-error outcomes are observable results)")
    trusted_base = ("Coq 8.16.1 kernel (vm_compute used in examples only)", "extraction (ExtrOcamlBasic only) + ocaml/driver.ml",
                    "vlib generators/comparator, Go overlay harness file (renders the message with protojson, checks that protoyaml reads it back)",
                    "modelled not verified: protoyaml/protojson text syntax (the decoder is a parameter of the loader theorems; per case the harness "
                    "checks how protoyaml reads the document it wrote), Go map semantics (set of comparable structs), os.ReadFile / the file system "
                    "(an object has a reported size and contents; reading ignores the size)",
                    "not covered: how the command line chooses the file handed to Run (cmd/connectconformance/main.go flag wiring)")
    assumptions = ("enum numbers in a configuration are those declared in config.proto (0..3 / 0..6 / 0..5); the theorems hold for any N, "
                   "the differential run only exercises declared numbers",
                   "Go map iteration order does not influence the compared observable (the case slice is compared as a sorted set)")
    level_text = ("Machine-checked proof (Coq) that the model of parseConfig/resolveFeatures/computeCasesFromFeatures/resolveCase returns, "
                  "for every configuration, exactly the set {features-implied or matching an include entry} minus {matching an exclude "
                  "entry}, that every returned case is internally possible, and that an error is returned exactly for contradictory or "
                  "empty configurations; and that the loader glue (Run's reading of the --conf file, parseConfig's decoding step, "
                  "internal.EnsureFileName) parses exactly the bytes of the named file whatever size is reported for it, turns an unreadable "
                  "or undecodable file into an error and otherwise returns the set the file's contents denote (load_exact, load_err_iff). "
                  "The model is tied to the Go code by a bounded-exhaustive plus random differential run through "
                  "the real YAML parser, the real Run over real files / named pipes and the real EnsureFileName on every check.")
    level_note = ("Nothing partial: parse_ok_iff, parse_valid, parse_err_iff, parse_ok_when hold for every configuration (no well-formedness "
                  "hypothesis: lists with *_UNSPECIFIED/CODEC_TEXT members and duplicate members are covered); observable_faithful shows the "
                  "compared key list determines the case set for enum numbers below 16. Trusted: Coq kernel, extraction, OCaml driver, "
                  "harness; the correspondence between model and Go code is sampled (all 3^7 flag tri-states, all single entries over the "
                  "interacting axes, thousands of random configs; for the loader: 6 ways of naming x 17 documents + random documents through "
                  "file, pipe and direct call; every axis list with a repeated value; every omitted/false/true pair of an optional entry flag), not proved. only_exact / duplex_entry_over_http1_rejected state the helper `only` as coded (non-empty and all elements equal, any length); exclude_explicit_false_keeps_tls / _keeps_flagged state that an explicit false in an exclude entry is not an omitted flag. The loader theorems hold for every decoder function; which of several --conf "
                  "occurrences the command line hands to Run is outside the property and not checked (seed C06-18).")
    technique = "Coq proof of model = set-comprehension spec (membership characterisation of the nested loops); differential model-vs-Go correspondence"

    def nontrivial(self, case, res):
        return True

    def describe(self, case, g, m):
        if case and case[0] == "c06.load":
            return ("config loading: the set (or error) that Run / parseConfig computes from the named file differs from the proved "
                    "model (= the set denoted by the bytes of the file; unreadable / undecodable = error)")
        if case and case[0] == "c06.efn":
            return "config loading: internal.EnsureFileName differs from the proved model (an error stays an error and names the file)"
        return ("config expansion: parseConfig differs from the proved model (= features + includes - excludes, "
                "contradictory/empty rejected)")

    # ------------------------------------------------------------------
    def generate(self, rng, tier):
        quick = tier == "quick"

        def opt():
            return rng.randrange(8)

        def cfg(f, inc=(), exc=()):
            return ["c06.parse", opt(), f, [list(e) for e in inc], [list(e) for e in exc]]

        # L. the loader glue (real Run over real files; real EnsureFileName)
        yield from self.gen_load(rng, quick)

        # 0. the four shipped configurations and the empty one
        yield ["c06.parse", 0, features(), [], []]
        yield cfg(features(v=(1, 2, 3), p=(1, 2, 3), c=(1, 2), z=(1, 2, 3, 4, 5, 6), flags=(0, 0, 2, 0, 2, 0, 0)))
        yield cfg(features(v=(2,), p=(2,), c=(1,), flags=(0, 1, 0, 0, 0, 0, 0)))
        yield cfg(features(v=(1,), p=(3,), c=(1,), z=(1,), s=(1, 3), flags=(0, 1, 0, 0, 0, 0, 0)))
        yield cfg(features(v=(1, 2), p=(3,), c=(1,), flags=(0, 1, 0, 0, 0, 0, 0)))

        # 1. every tri-state of the seven flags x sampled axis profiles (small codec/compression lists:
        #    those two axes interact with nothing)
        per_flags = 4 if quick else 40
        for flags in itertools.product(FLAGS, repeat=7):
            for _ in range(per_flags):
                yield cfg(features(v=rng.choice(V_PROFILES), p=rng.choice(P_PROFILES), c=rng.choice([(1,), (), (2, 3)]),
                                   z=rng.choice([(1,), (), (3,)]), s=rng.choice(S_PROFILES), flags=flags))

        # 2. the full profile product under chosen flag settings
        settings = [(0,) * 7, (1, 1, 0, 0, 0, 0, 0), (1, 0, 0, 0, 0, 0, 0), (0, 1, 0, 0, 0, 0, 0), (2, 2, 2, 2, 2, 2, 2),
                    (1, 1, 1, 1, 1, 1, 1), (0, 0, 2, 1, 2, 1, 1), (2, 1, 0, 0, 2, 0, 0), (0, 0, 0, 1, 0, 0, 0),
                    (1, 2, 2, 0, 0, 2, 1), (0, 1, 0, 0, 2, 0, 0), (1, 1, 0, 0, 2, 1, 0)]
        for flags in settings:
            for v, p, s in itertools.product(V_PROFILES, P_PROFILES, S_PROFILES):
                yield cfg(features(v=v, p=p, c=(1,), z=(1,), s=s, flags=flags))

        # 3. every single entry over the interacting axes, as include and as exclude
        profiles = [features(),
                    features(v=(1,)),
                    features(v=(1,), flags=(0, 0, 0, 0, 2, 0, 0)),
                    features(flags=(1, 1, 0, 0, 0, 0, 0)),
                    features(flags=(1, 0, 2, 0, 0, 0, 0)),
                    features(v=(1, 2, 3), flags=(0, 0, 2, 1, 0, 1, 1)),
                    features(v=(2,), p=(2,), flags=(0, 1, 0, 0, 0, 0, 0)),
                    features(v=(1, 2), p=(1,), s=(1, 4), flags=(2, 1, 0, 0, 0, 0, 0))]
        for f in profiles:
            f = [f[0], f[1], [1], [1]] + f[4:]
            for v, p, s, tls, certs in itertools.product(range(4), (0, 1, 2, 3), (0, 1, 4, 5), FLAGS, FLAGS):
                if quick and rng.random() < 0.5:
                    continue
                e = entry(v=v, p=p, s=s, tls=tls, certs=certs, limit=rng.choice(FLAGS),
                          c=rng.choice((0, 0, 1, 2, 3)), z=rng.choice((0, 0, 1, 2)))
                if rng.random() < 0.5:
                    yield cfg(f, inc=[e])
                else:
                    yield cfg(f, exc=[e])

        # 4. random configurations
        def rnd_list(vals, allow_odd=True):
            k = rng.choice([0, 0, 1, 1, 2, 3, len(vals)])
            out = rng.sample(vals, min(k, len(vals)))
            if allow_odd and out and rng.random() < 0.08:
                out.insert(rng.randrange(len(out) + 1), rng.choice(out))        # duplicate
            if allow_odd and rng.random() < 0.04:
                out.insert(rng.randrange(len(out) + 1), 0)                     # *_UNSPECIFIED
            return out

        def rnd_flag():
            return rng.choice([0, 0, 1, 2])

        def rnd_entry():
            return entry(v=rng.choice([0, 0, 1, 2, 3]), p=rng.choice([0, 0, 1, 2, 3]), c=rng.choice([0, 0, 0, 1, 2, 3]),
                         z=rng.choice([0, 0, 0, 1, 2, 5]), s=rng.choice([0, 0, 1, 3, 4, 5]),
                         tls=rnd_flag(), certs=rnd_flag(), limit=rnd_flag())

        n_rand = 4000 if quick else 150000
        for _ in range(n_rand):
            f = features(v=rnd_list([1, 2, 3]), p=rnd_list([1, 2, 3]), c=rnd_list([1, 2, 3]),
                         z=rng.choice([[], [], [1], [2], [1, 2], [1, 3, 6], [4, 5]]), s=rnd_list([1, 2, 3, 4, 5]),
                         flags=[rnd_flag() for _ in range(7)])
            inc = [rnd_entry() for _ in range(rng.choice([0, 0, 1, 1, 2, 3]))]
            exc = [rnd_entry() for _ in range(rng.choice([0, 0, 1, 1, 2, 3]))]
            yield cfg(f, inc, exc)

        # 5. mostly-valid: entries derived from the features so that includes/excludes overlap the implied set
        for _ in range(1500 if quick else 40000):
            vs = rng.choice(V_PROFILES)
            ps = rng.choice(P_PROFILES)
            ss = rng.choice(S_PROFILES)
            flags = [rng.choice([0, 0, 0, 1, 2]) for _ in range(7)]
            if flags[1] == 1:
                flags[2] = rng.choice([0, 1])
            f = features(v=vs, p=ps, c=rng.choice([(), (1,), (1, 2)]), z=rng.choice([(), (1,), (1, 2)]), s=ss, flags=flags)

            def near():
                return entry(v=rng.choice([0] + list(vs or (1, 2))), p=rng.choice([0] + list(ps or (1, 2, 3))),
                             c=rng.choice([0, 0, 1, 2]), z=rng.choice([0, 0, 1, 2]), s=rng.choice([0] + list(ss or (1, 2, 3, 4, 5))),
                             tls=rng.choice([0, 0, 1, 2]), certs=rng.choice([0, 0, 0, 1, 2]), limit=rng.choice([0, 0, 1, 2]))
            yield cfg(f, [near() for _ in range(rng.choice([0, 1, 2]))], [near() for _ in range(rng.choice([0, 1, 2, 3]))])

        # 6. axis lists that REPEAT a value - (x,x), (x,x,x), (x,x,y), (x,y,x), (y,x,x) - on every axis of the features, alone and
        #    with include/exclude entries that omit that axis (the helpers `only` / `contains` see the repeated list: a full-duplex or
        #    half-duplex entry over versions [HTTP_1, HTTP_1] must still be rejected)
        axis_vals = [(1, 2, 3), (1, 2, 3), (1, 2, 3), (1, 2, 3, 4, 5, 6), (1, 2, 3, 4, 5)]
        dup_flags = [(0,) * 7, (0, 0, 0, 0, 2, 0, 0), (0, 1, 0, 0, 0, 0, 0), (1, 0, 2, 0, 1, 0, 0)]
        for ax, vals in enumerate(axis_vals):
            for x in vals:
                shapes = [(x, x), (x, x, x)]
                others = [y for y in vals if y != x]
                if quick and len(others) > 2:
                    others = rng.sample(others, 2)
                for y in others:
                    shapes += [(x, x, y), (x, y, x), (y, x, x)]
                for lst in shapes:
                    lists = [(), (), (1,), (1,), ()]
                    lists[ax] = lst
                    for flags in dup_flags:
                        f = features(*lists, flags=flags)
                        yield cfg(f)
                        for st in (4, 5):
                            e = entry(s=st)
                            yield cfg(f, inc=[e])
                            yield cfg(f, exc=[e])
                        e = entry(v=rng.choice([0, 0, 1, 2]), p=rng.choice([0, 0, 1, 2, 3]), s=rng.choice([0, 1, 4, 5]),
                                  tls=rng.choice(FLAGS), certs=rng.choice([0, 0, 1, 2]), limit=rng.choice([0, 0, 1, 2]))
                        e2 = entry(v=rng.choice([0, 1, 2, 3]), p=rng.choice([0, 0, 1, 2, 3]), s=rng.choice([0, 4, 5]), tls=rng.choice(FLAGS))
                        yield cfg(f, inc=[e], exc=[e2])
                        yield cfg(f, inc=[e2, e])

        # 7. pairs of entries in ONE configuration that differ only in one optional bool (omitted / false / true), every ordered pair of
        #    states, for each of the three optional bools, as (include e, exclude e'), (include e, e'), (exclude e, e') and
        #    (include e', exclude e): each entry must be resolved on its own (an omitted flag is not an explicit false)
        pair_profiles = [features(c=(1,), z=(1,), flags=(0, 0, 2, 0, 0, 0, 0)),
                         features(v=(1,), c=(1,), z=(1,), flags=(0, 0, 2, 0, 0, 0, 0)),
                         features(v=(1, 2), p=(1,), c=(1,), z=(1,), s=(1, 4), flags=(0, 0, 2, 0, 2, 0, 0)),
                         features(c=(1,), z=(1,))]
        for rep in range(1 if quick else 12):
            for f in pair_profiles:
                for v, p, st in itertools.product((0, 1, 2), (0, 1), (0, 1)):
                    for idx in (5, 6, 7):
                        base = entry(v=v, p=p, s=st, tls=rng.choice([0, 0, 1, 2]), certs=rng.choice([0, 0, 0, 1, 2]),
                                     limit=rng.choice([0, 0, 1, 2]))
                        if rep == 0 and idx != 5:
                            base[5] = 0 if rng.random() < 0.5 else base[5]
                        for a, b in itertools.permutations(FLAGS, 2):
                            e1 = list(base)
                            e1[idx] = a
                            e2 = list(base)
                            e2[idx] = b
                            yield cfg(f, inc=[e1], exc=[e2])
                            yield cfg(f, inc=[e1, e2])
                            yield cfg(f, exc=[e1, e2])
                            if rng.random() < 0.5:
                                yield cfg(f, inc=[entry(v=rng.choice([1, 2, 3])), e1], exc=[entry(p=rng.choice([1, 2, 3])), e2])


    # ------------------------------------------------------------------
    NAMES = ["verif.yaml", "c", "conf with space.yaml", "features", "yaml", "7", "A-b_c.1"]
    N_BAD = 8

    def gen_load(self, rng, quick):
        """c06.load: how (no --conf / regular file / named pipe / missing / directory / direct parseConfig) x document
        (no bytes / rendering of a message / rejected by the decoder); c06.efn: message x file name."""
        one = features(v=(1,), p=(1,), c=(2,), z=(1,), s=(1,), flags=(1, 1, 0, 0, 0, 1, 1))        # 1 case
        docs = [[0],
                [1, 0, features(), [], []],                                                          # "{}": 464
                [1, 4, one, [], []],
                [1, 1, features(v=(1, 2, 3), p=(1, 2, 3), c=(1, 2), z=(1, 2, 3, 4, 5, 6), flags=(0, 0, 2, 0, 2, 0, 0)), [], []],
                [1, 6, features(v=(1,)), [entry(v=2)], []],                                          # include extends: 288
                [1, 2, features(), [], [entry(p=2)]],                                                # exclude removes: 384
                [1, 5, features(v=(1,), s=(5,)), [], []],                                            # contradictory
                [1, 3, features(), [], [entry()]],                                                   # empty
                [1, 7, features(), [entry(v=1, p=2)], []]]                                           # contradictory entry
        docs += [[2, k] for k in range(self.N_BAD)]
        for how in range(6):
            for d in docs:
                yield ["c06.load", how, rng.choice(self.NAMES), d]
        # random documents: a pipe and a regular file with the same contents, and the direct call
        for _ in range(60 if quick else 1500):
            f = features(v=rng.choice(V_PROFILES), p=rng.choice(P_PROFILES), c=rng.choice([(1,), (), (1, 2)]),
                         z=rng.choice([(1,), (), (1, 2)]), s=rng.choice(S_PROFILES),
                         flags=[rng.choice([0, 0, 0, 1, 2]) for _ in range(7)])
            inc = [entry(v=rng.choice([0, 1, 2, 3]), p=rng.choice([0, 1, 2, 3]), s=rng.choice([0, 1, 4, 5]), tls=rng.choice(FLAGS))
                   for _ in range(rng.choice([0, 0, 1, 2]))]
            exc = [entry(v=rng.choice([0, 1, 2, 3]), p=rng.choice([0, 1, 2, 3]), s=rng.choice([0, 1, 4, 5]), tls=rng.choice(FLAGS))
                   for _ in range(rng.choice([0, 0, 1, 2]))]
            d = [1, rng.randrange(8), f, inc, exc]
            name = rng.choice(self.NAMES)
            for how in (1, 2, 5):
                yield ["c06.load", how, name, d]
        # EnsureFileName: every message / file name over {a, b} up to length 4 / 3, and realistic ones
        alpha = [b"".join(t) for n in range(0, 5) for t in itertools.product((b"a", b"b"), repeat=n)]
        for m in alpha:
            for f in alpha:
                if len(f) <= 3:
                    yield ["c06.efn", m, f]
        real = [b"c.yaml", b"/tmp/x/c.yaml", b"conf", b""]
        msgs = [b"open c.yaml: no such file or directory", b"c.yaml:2:3 unknown field", b"unknown field", b"read /tmp/x/c.yaml: is a directory",
                b"", b"c.yam", b".yaml", b"x/c.yaml"]
        for m in msgs:
            for f in real:
                yield ["c06.efn", m, f]


PROP = C06()
