"""C05 — each selected permutation is executed exactly once against a matching server."""
import itertools
import os

from .. import core
from ..core import Prop

PROTOS = [1, 2, 3]          # connect, grpc, grpc-web
HEADERS = [["x-a", ["1"]], ["x-b", ["v1", "v2"]], ["x-test-case-name", ["spoof"]], ["k", []]]


def full_name(suite, simple):
    name, tls = suite[0], suite[6]
    return "%s/%s" % (name, simple) if tls else "%s/TLS:false/%s" % (name, simple)


def inst_of(suite):
    return (suite[2], suite[3], 1 if suite[6] else 0, 1 if (suite[6] and suite[7]) else 0)


def gen_suites(rng, nsuites, versions, allow_tls, modes, raw_ok=True, ncases=(1, 3), tls_p=0.07):
    """suites with one relevant protocol/version/codec/compression each; a (protocol, version, codec,
    compression) cell is never shared between a non-TLS suite and a TLS suite without client
    certificates (C07's expansion would then add TLS:true permutations of the non-TLS suite)."""
    suites = []
    cell_tls = {}
    for i in range(nsuites):
        for _ in range(20):
            proto = rng.choice(PROTOS)
            ver = rng.choice(versions)
            codec = rng.choice([1, 1, 1, 2])
            comp = rng.choice([1, 1, 2, 3])
            tls = allow_tls and rng.random() < tls_p
            certs = tls and rng.random() < 0.4
            cell = (proto, ver, codec, comp)
            kind = "c" if certs else ("t" if tls else "n")
            prev = cell_tls.setdefault(cell, set())
            if (kind == "n" and "t" in prev) or (kind == "t" and "n" in prev):
                continue
            prev.add(kind)
            break
        else:
            continue
        mode = rng.choice(modes)
        templates = []
        for j in range(rng.randint(*ncases)):
            rawreq = raw_ok and mode == 2 and rng.random() < 0.3
            rawresp = raw_ok and mode == 1 and rng.random() < 0.3
            hs = [rng.choice(HEADERS) for _ in range(rng.choice([0, 0, 1, 2]))]
            rh = [rng.choice(HEADERS) for _ in range(rng.choice([0, 1]))] if rawreq else []
            templates.append(["c%d%d" % (i, j), rawreq, rh, rawresp, rng.random() < 0.2, hs])
        suites.append(["S%d" % i, mode, proto, ver, codec, comp, tls, certs, templates])
    return suites


def gen_patterns(rng, suites, marked=False):
    names = [full_name(s, t[0]) for s in suites for t in s[8]]
    if not names:
        return [], []

    def pat():
        n = rng.choice(names).split("/")
        r = rng.random()
        if r < 0.3:
            return n[0] + "/**"
        if r < 0.55:
            return "**/" + n[-1]
        if r < 0.7:
            return "/".join(n)
        if r < 0.8 and marked:
            return "**/" + rng.choice(["(grpc client impl)", "(grpc server impl)"]) + "/**"
        if r < 0.9:
            return n[0] + "/*/" + n[-1] if len(n) == 3 else n[0] + "/*"
        return "**/c*" if False else "**"
    runp = [pat() for _ in range(rng.choice([0, 0, 1, 2]))]
    skipp = [pat() for _ in range(rng.choice([0, 0, 1]))]
    return runp, [p for p in skipp if p != "**"]


def gen_decisions(rng, suites, fail_rate=0.15):
    ds = []
    port = 20000
    for g in sorted({inst_of(s) for s in suites}):
        port += rng.randint(1, 9)
        ok = rng.random() >= fail_rate
        host = rng.choice(["", "127.0.0.1", "localhost", "h%d" % port])
        cert = b""
        if g[2]:
            cert = b"" if rng.random() < 0.1 else b"PEM-%d" % port
        elif rng.random() < 0.05:
            cert = b"stray"
        ds.append([list(g), ok, host, port, cert])
    return ds


def gen_script(rng, suites, ds, length):
    insts = [d[0] for d in ds]
    okset = {tuple(d[0]) for d in ds if d[1]}
    by_inst = {}
    for s in suites:
        for t in s[8]:
            by_inst.setdefault(inst_of(s), []).append(full_name(s, t[0]))
    pending = list(insts)
    rng.shuffle(pending)
    answerable = []
    script = []
    for _ in range(length):
        r = rng.random()
        if pending and (r < 0.4 or not answerable):
            g = pending.pop(rng.randrange(len(pending))) if rng.random() < 0.85 else rng.choice(insts)
            script.append([0, list(g)])
            if tuple(g) in okset:
                answerable.extend(by_inst.get(tuple(g), []))
        elif answerable:
            if rng.random() < 0.9:
                n = answerable.pop(rng.randrange(len(answerable)))
            else:
                n = rng.choice(answerable) + rng.choice(["", "x"])
            script.append([1, n])
        else:
            script.append([0, list(rng.choice(insts))] if insts else [1, "none"])
    return script


LOAD_DIRS = ["a", "b", "sub/x", ""]
LOAD_BASES = ["suite.yaml", "suite.yaml", "other.yaml", "t.yaml"]
LOAD_NOT_YAML = ["suite.yml", "notes.txt", "suite.yaml.bak", "suite", "yaml"]


def load_case(rng, mode, same_base=False, dup_suite=False, clean=False):
    """[kind, mode, files on disk [[rel path, suite name, [case names]]...], paths given as --test-file]"""
    def rel(d, b):
        return (d + "/" + b) if d else b
    n = rng.randint(2, 4)
    rels = []
    if same_base:
        rels = ["a/suite.yaml", "b/suite.yaml"]
    while len(rels) < n:
        r = rel(rng.choice(LOAD_DIRS), rng.choice(LOAD_BASES))
        if r not in rels:
            rels.append(r)
    suites = ["One", "Two", "Three", "S4"]
    rng.shuffle(suites)
    files = []
    for i, r in enumerate(rels):
        name = suites[i]
        if (dup_suite and i == 1) or (not clean and not same_base and i > 0 and rng.random() < 0.08):
            name = suites[0]
        files.append([r, name, rng.sample(["x", "y", "z"], rng.randint(1, 3))])
    paths = list(rels)
    rng.shuffle(paths)
    if not clean and not same_base:
        t = rng.random()
        if t < 0.12:
            paths.insert(rng.randint(0, len(paths)), rng.choice(paths))          # the same path twice
        elif t < 0.22:
            paths.insert(rng.randint(0, len(paths)), rng.choice(["c/suite.yaml", "a", "missing.yaml"]))
        elif t < 0.32:
            bad = rel(rng.choice(LOAD_DIRS), rng.choice(LOAD_NOT_YAML))
            if all(not (f[0] + "/").startswith(bad + "/") and not (bad + "/").startswith(f[0] + "/") for f in files):
                files.append([bad, "Other", ["x"]])
                paths.insert(rng.randint(0, len(paths)), bad)
        elif t < 0.42 and len(paths) > 1:
            paths.pop()                                                          # a file on disk that is not asked for
    return ["c05.load", mode, files, paths]


class C05(Prop):
    id = "C05"
    props = "C05_Props"
    coq_files = ("Base", "C08_Model", "C05_Load", "C05_Model", "C05_Spec", "C05_Proofs", "C05_LoadProofs", "C05_Props")
    models = ("C05_Model",)
    packages = {"cc": "internal/app/connectconformance"}
    kinds = {"c05.run": "cc", "c05.complete": "cc", "c05.load": "cc"}
    rule = ("c05.run: the real run() with the test binary re-executed as scripted server / client PROCESSES that report every "
            "ServerCompatRequest, ClientCompatRequest, start and exit to a coordinator (logical clock). detail 0: scripted server and "
            "client, lockstep schedules (per move: which held server answers/dies, which request the client answers; quiescence "
            "detected from the runner's own log + peer events, snapshot of held/serving/outstanding compared after every move) and "
            "free-running ones (instance order from Go's map), max-servers in {1,2,3,8}, run/skip patterns, suites of 1-5 instances, "
            "server decisions ok/die/TLS-without-cert/command-not-executable; detail 1: scripted server listening on real sockets "
            "(h1, h2c, TLS) with the real in-process reference and gRPC clients; detail 2: scripted client with the real in-process "
            "reference and gRPC servers. Compared: every send (name, instance of the serving server, address/cert match at the time "
            "of receipt, completed request), max concurrently alive, spawned = stopped, outcome keys + setup flag, start order. "
            "c05.complete: one batch through runTestCasesForServer with a scripted response: server request + every completed request. "
            "c05.load: suite files below a temp dir (same base name in different directories in every run, non-yaml names, missing "
            "paths, a path twice, two files defining one suite) through the real testsuites.LoadTestSuitesFromFiles + parseTestSuites "
            "(compared: error class or the loaded suites) and through the real Run() with child peers (compared: the test names handed "
            "to the client, the printed total)."
            " detail 3 (run from extra(), never shrunk): client mode with BOTH in-process server kinds (reference, then grpc-go) having "
            "batches (Connect + gRPC + gRPC-Web suites), max-servers 1 and 2, sorted and map order; the scripted client holds its answers "
            "until no request has arrived for 400 ms and at every request dials every server address seen so far: the number of servers "
            "accepting connections at once, across the two kinds, is compared with the model's max_alive <= max-servers.")
    trusted_base = ("Coq 8.16.1 kernel (vm_compute used, native_compute not)", "extraction (ExtrOcamlBasic only) + ocaml/driver.ml",
                    "vlib generators/comparator, Go overlay harness (harness/C05): coordinator, scripted peer processes",
                    "modelled not verified: golang.org/x/sync/semaphore.Weighted (a counter bounded by MaxServers), sync.WaitGroup, "
                    "goroutine scheduling (one action per semaphore op / process start / exit / message), os/exec")
    assumptions = ("--test-file paths are read literally (no '.'/'..' elements naming one file twice); suite expansion of a loaded file is C07's",
                   "the library (C07), the name matcher (C08), the client multiplexer (C10: each request sent is answered by one "
                   "Answer action) and the in-batch fault handling (C11) are interfaces: C05's theorems hold for every library, "
                   "every selection predicate and every answer order",
                   "the client process stays up (run() leaves early through the isRunning check otherwise: C04/C10)",
                   "progress of peers is a fairness assumption: a held server eventually answers or dies, a sent request is "
                   "eventually answered (C10/C11 own the time-outs that enforce it)")
    level_text = ("Machine-checked proof (Coq) over ARBITRARY action lists (= all schedules) and all libraries, filters, MaxServers >= 1: "
                  "the batches partition the selected permutations (gRPC variants only where supported, under marked names); every "
                  "permutation of a finished run is sent exactly once or recorded as setup failure; each send happens while the server "
                  "spawned for that batch's instance is serving, with its address and certificate and the name header; never more than "
                  "MaxServers server processes exist; every spawned server has exited at the end; every action lowers a measure and a "
                  "non-final state always has an enabled action; and the loader of --test-file suite files keeps one entry per distinct "
                  "path with that file's content, so every given file's permutations are in the library the run is planned from. "
                  "Tied to the Go code by lockstep differential runs of the real run() against scripted peer processes and by runs of the "
                  "real loader / Run() on generated suite files.")
    level_note = ("Trusted: Coq kernel, extraction, OCaml driver, harness. Model-code correspondence is sampled, not proved; goroutine "
                  "interleavings inside a burst are the Go runtime's (free-running and -race runs sample them). semaphore.Weighted, "
                  "WaitGroup and os/exec are modelled, not verified. Crash of a server in the middle of a batch and client death are "
                  "C11/C10/C04's (not modelled here). The flag layer of cmd/connectconformance (--port forcing --max-servers=1) is not "
                  "modelled: the property bounds by --max-servers as given to Run (seed C05-16 triaged out of scope)."
                  " Live-server bound in client mode (both in-process server kinds): observed by the scripted client dialing every address "
                  "it was handed (detail 3, held answers, idle time 400 ms); an overlap shorter than the client's sweep can be missed.")
    technique = "Coq invariant proofs over arbitrary schedules of a transition system; lockstep differential against scripted peer processes"
    go_timeout = 1500

    def nontrivial(self, case, res):
        if case[0] == "c05.load":
            return "657272" not in res[:12]      # not an (err ...) result
        return len(res) > 40

    def describe(self, case, g, m):
        if case[0] == "c05.complete":
            return "request completion / server request differ from the proved model"
        if case[0] == "c05.load":
            return "suite files taking part in the run (LoadTestSuitesFromFiles / Run) differ from the proved model"
        return "scheduling of run(): sends / server lifetimes / outcomes differ from the proved model"

    # -- generators ---------------------------------------------------------
    def run_case(self, rng, detail, lockstep, verbose=None, maxs=None, missing=False, nsuites=None, tls=True, tls_p=0.07):
        # TLS instances make run() generate RSA keys (slow, and slow to shrink): few of them in the general
        # stream, a dedicated small family below
        if detail == 0:
            suites = gen_suites(rng, nsuites or rng.randint(1, 5), [1, 2, 3], tls, [0, 0, 0, 0, 1, 2], tls_p=tls_p)
        elif detail == 1:
            suites = gen_suites(rng, nsuites or rng.randint(2, 5), [1, 2], tls, [0, 0, 2, 2, 1], ncases=(1, 2), tls_p=tls_p)
        else:
            suites = gen_suites(rng, nsuites or rng.randint(2, 4), [1, 2], False, [0, 0, 1, 1, 2], ncases=(1, 2))
        runp, skipp = gen_patterns(rng, suites, marked=detail != 0)
        ds = gen_decisions(rng, suites, fail_rate=0.15 if detail != 2 else 0.0)
        if maxs is None:
            maxs = rng.choice([1, 1, 2, 2, 3, 8])
        if verbose is None:
            verbose = True if lockstep else rng.random() < 0.5
        script = gen_script(rng, suites, ds, rng.randint(3, 14)) if lockstep else []
        return ["c05.run", detail, lockstep, verbose, maxs, missing, runp, skipp, suites, ds, script]

    def hold_case(self, rng, maxs, verbose):
        """client mode with BOTH in-process server kinds (reference, then grpc-go) having batches: a Connect, a gRPC and
        a gRPC-Web suite; detail 3 = the scripted client holds its answers, so every batch the semaphore admits is open
        when the client counts the servers that accept connections (max alive across the kinds <= --max-servers)."""
        suites = []
        for i, (proto, ver) in enumerate([(1, 1), (2, 2), (3, rng.choice([1, 2]))] + ([(2, 2)] if rng.random() < 0.5 else [])):
            templates = [["c%d%d" % (i, j), False, [], False, False, []] for j in range(rng.randint(1, 2))]
            suites.append(["S%d" % i, rng.choice([0, 1]), proto, ver, 1, rng.choice([1, 2]) if i < 3 else 3, False, False, templates])
        rng.shuffle(suites)
        ds = gen_decisions(rng, suites, fail_rate=0.0)
        return ["c05.run", 3, False, verbose, maxs, False, [], [], suites, ds, []]

    def generate(self, rng, tier):
        quick = tier == "quick"
        # which --test-file suite files take part: two files of the same base name in different directories in
        # every run, at loader level and through Run(); then random file sets
        for mode in (0, 1):
            yield load_case(rng, mode, same_base=True)
            yield load_case(rng, mode, same_base=True, dup_suite=True)
        for _ in range(150 if quick else 3000):
            yield load_case(rng, 0)
        for i in range(24 if quick else 300):
            yield load_case(rng, 1, clean=(i % 2 == 0))
        # a few small runs without TLS first (no RSA key generation: cheap to shrink when something is wrong)
        for maxs in (1, 2, 3):
            yield self.run_case(rng, 0, lockstep=True, maxs=maxs, nsuites=4, tls=False)
            yield self.run_case(rng, 0, lockstep=False, verbose=False, maxs=maxs, nsuites=4, tls=False)
            yield self.run_case(rng, 1, lockstep=False, maxs=maxs, nsuites=3, tls=False)
        yield self.run_case(rng, 2, lockstep=False, nsuites=2, tls=False)
        # TLS family: certificates, client certificates, servers rejected for answering without a certificate
        for i in range(14 if quick else 200):
            yield self.run_case(rng, 0, lockstep=(i % 3 != 2), maxs=rng.choice([1, 1, 2]), nsuites=rng.randint(2, 3), tls_p=0.7)
        for i in range(4 if quick else 40):
            yield self.run_case(rng, 1, lockstep=False, nsuites=2, tls_p=0.7)
        # request completion: every instance x reference-server flag on a fixed suite, then random
        for g in itertools.product([1, 2, 3], [1, 2], [0, 1], [0, 1]):
            for sref in (0, 1):
                for host, cert in (("", b""), ("h", b"PEM")):
                    suite = ["S", 0, g[0], g[1], 1, 1, bool(g[2]), bool(g[3]),
                             [["a", False, [], False, False, []], ["b", True, [["r", ["1"]]], False, True, [["x-a", ["1"]]]]]]
                    yield ["c05.complete", list(g), sref, [host, 4711, cert], suite]
        for _ in range(1500 if quick else 30000):
            suite = gen_suites(rng, 1, [1, 2, 3], True, [0], ncases=(1, 4))[0]
            for t in suite[8]:
                if rng.random() < 0.3:
                    t[1], t[2] = True, [rng.choice(HEADERS) for _ in range(rng.choice([0, 1, 2]))]
            g = list(inst_of(suite)) if rng.random() < 0.6 else [rng.choice(PROTOS), rng.choice([1, 2, 3]), rng.randint(0, 1), rng.randint(0, 1)]
            host = rng.choice(["", "127.0.0.1", "localhost", "::1"])
            cert = rng.choice([b"", b"PEM", b"-----BEGIN CERTIFICATE-----"])
            yield ["c05.complete", g, rng.randint(0, 1), [host, rng.choice([0, 1, 8080, 65535, 4294967295]), cert], suite]
        # scheduling through run()
        n0 = 600 if quick else 2500
        for i in range(n0):
            yield self.run_case(rng, 0, lockstep=(i % 4 != 3))
        for maxs in (1, 2, 3, 8):
            yield self.run_case(rng, 0, lockstep=True, maxs=maxs, nsuites=5)
            yield self.run_case(rng, 0, lockstep=False, verbose=False, maxs=maxs, nsuites=5)
        for _ in range(3 if quick else 40):
            yield self.run_case(rng, 0, lockstep=False, missing=True)
        for _ in range(40 if quick else 300):
            yield self.run_case(rng, 1, lockstep=False)
        for _ in range(12 if quick else 60):
            yield self.run_case(rng, 2, lockstep=False)

    # -- thorough tier: free-running schedules under the race detector, several GOMAXPROCS ----
    def hold_runs(self, ctx):
        """client mode, both in-process server kinds, held answers (detail 3): the bound on live servers across the
        kinds.  Run from extra() rather than the generated stream because a disagreement here must not be
        shrunk (every candidate is a run of several seconds); the unshrunk case is the replay."""
        import random
        rng = random.Random(ctx.seed * 7919 + 11)
        combos = ((1, True), (1, False), (2, True), (2, False)) if ctx.tier == "quick" else \
            [(m, v) for m in (1, 1, 2, 2, 3) for v in (True, False)] * 3
        cases = [self.hold_case(rng, maxs, verbose) for maxs, verbose in combos]
        g, m = ctx.eval_both(cases, "hold")
        bad = [i for i in range(len(cases)) if g[i] != m[i]]
        ctx.notes["hold_runs"] = "%d client-mode runs with held answers (both server kinds), %d disagreements" % (len(cases), len(bad))
        vs = []
        for i in bad[:2]:
            body = "; C05: %s\n; impl : %s\n; model: %s\n; replay: ./check C05 --replay <this file>\n%s\n" % (
                self.describe(cases[i], g[i], m[i]), g[i], m[i], core.sx([cases[i][0], 0] + list(cases[i][1:])))
            vs.append(core.Violation("disagreement on %s" % core.sx(cases[i])[:300], body))
        return vs

    def extra(self, ctx):
        if ctx.tier != "thorough":
            return self.hold_runs(ctx)
        import random
        rng = random.Random(ctx.seed * 7919 + 5)
        cases = []
        for i in range(120):
            cases.append(self.run_case(rng, 0, lockstep=False, verbose=bool(i % 2)))
        for i in range(20):
            cases.append(self.run_case(rng, 1, lockstep=False))
        for i in range(6):
            cases.append(self.run_case(rng, 2, lockstep=False))
        path = os.path.join(ctx.work, "race.cases")
        with open(path, "w") as f:
            for i, c in enumerate(cases):
                f.write(core.sx([c[0], i] + list(c[1:])) + "\n")
        mo = os.path.join(ctx.work, "race.model.out")
        core.run_model(self, path, mo)
        mres = core.read_results(mo)
        binp = core.go_test_bin(self, self.packages["cc"], race=True)
        vs = self.hold_runs(ctx)
        for procs in (1, 4, 16):
            out = os.path.join(ctx.work, "race.%d.go.out" % procs)
            if os.path.exists(out):
                os.remove(out)
            rc, log, dt = core.run_cmd([binp, "-test.run", "^TestVerifEval$", "-test.count=1", "-test.timeout", "1500s"],
                                       cwd=os.path.join(core.REPO, self.packages["cc"]), timeout=1600, check=False,
                                       extra_env={"VERIF_CASES": path, "VERIF_OUT": out, "GOMAXPROCS": str(procs),
                                                  "GORACE": "halt_on_error=0"})
            ctx.notes["t_race_gomaxprocs_%d_s" % procs] = round(dt, 1)
            if "DATA RACE" in log:
                i = log.index("DATA RACE")
                vs.append(core.Violation("free-running run() under -race, GOMAXPROCS=%d: data race" % procs,
                                         "; C05 race run: data race\n; %s\n" % log[max(0, i - 200):i + 3000].replace("\n", "\n; "),
                                         "no-failing-input-found"))
                continue
            if not os.path.exists(out):
                raise core.HarnessError("race run failed (rc=%d):\n%s" % (rc, log[-4000:]))
            gres = core.read_results(out)
            bad = [i for i in range(len(cases)) if gres.get(str(i)) != mres.get(str(i))]
            ctx.notes["race_gomaxprocs_%d" % procs] = "%d cases, %d disagreements" % (len(cases), len(bad))
            for i in bad[:2]:
                body = "; C05 free-running under -race, GOMAXPROCS=%d\n; impl : %s\n; model: %s\n%s\n" % (
                    procs, gres.get(str(i)), mres.get(str(i)), core.sx([cases[i][0], 0] + list(cases[i][1:])))
                vs.append(core.Violation("GOMAXPROCS=%d: disagreement on %s" % (procs, core.sx(cases[i])[:200]), body))
        return vs


PROP = C05()
