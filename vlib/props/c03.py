"""C03 — result assertion flags every semantic deviation and allows only the documented leniencies."""
import copy
import itertools
from ..core import Prop

GRACE = 500  # only steers the generator towards the window's edges; the model uses the regenerated constant

NAMES = ["x-a", "X-A", "x-b", "Content-Type", "x-c", "X-b"]
VALS = ["a", "b c", "x,y", "x, y", " lead", "trail ", "", "a ,b", ",", " , ", "a,,b", "  two", "q  ,  r", "v1", "proto", "a, b,c"]
CODES = list(range(1, 17))


# ---- builders (dicts, so that mutations stay readable) ----
def ri(h=(), to=None, rq=(), q=None):
    return {"h": [list(x) for x in h], "to": to, "rq": [tuple(x) for x in rq], "q": None if q is None else [list(x) for x in q]}


def res(h=(), t=(), p=(), e=None, s=None, u=0):
    return {"h": [list(x) for x in h], "t": [list(x) for x in t], "p": list(p), "e": e, "s": s, "u": u}


def enc_h(hs):
    return [[n, list(vs)] for n, vs in hs]


def enc_ri(r):
    return [enc_h(r["h"]), [] if r["to"] is None else [r["to"]], [[t, d] for t, d in r["rq"]],
            [] if r["q"] is None else [enc_h(r["q"])]]


def enc_res(r):
    ps = [[p["d"], [] if p["i"] is None else [enc_ri(p["i"])]] for p in r["p"]]
    e = []
    if r["e"] is not None:
        ds = [[0, enc_ri(d[1])] if d[0] == "r" else [1, [d[1][0], d[1][1]]] for d in r["e"]["ds"]]
        e = [[r["e"]["c"], [] if r["e"]["m"] is None else [r["e"]["m"]], ds]]
    return [enc_h(r["h"]), enc_h(r["t"]), ps, e, [] if r["s"] is None else [r["s"]], r["u"]]


def case(stream, other, e, a):
    return ["c03.assert", [stream, list(other)], enc_res(e), enc_res(a)]


def rundef_case(ref, stream, other, e):
    """the definition that reaches assert through the real runTestCasesForServer, read back by probes (16 codes, merged metadata)"""
    return ["c03.rundef", 1 if ref else 0, [stream, list(other)], enc_res(e)]


def run_case(ref, stream, other, e, a):
    """the same comparison, reached through the real runTestCasesForServer with a fake client reporting [a]"""
    return ["c03.run", 1 if ref else 0, [stream, list(other)], enc_res(e), enc_res(a)]


# echoed timeouts for an expected one: both edges of the window and far away from them
def echoed_timeouts(t):
    xs = [t, t + 1, t - 1, t - GRACE - 1, t - GRACE, t - GRACE + 1, t + GRACE, t // 2, t // 2 - GRACE, t - 10 * GRACE,
          t - 1000 * GRACE, 1, 0, -1, -GRACE, -2 ** 40, 2 ** 40, max(0, t - GRACE), max(0, t - GRACE) + 1, None]
    out = []
    for x in xs:
        if x not in out:
            out.append(x)
    return out


EXPECTED_TIMEOUTS = [0, 1, 50, GRACE - 1, GRACE, GRACE + 1, 2 * GRACE, 2000, 10000, 3600000, 2 ** 31, 2 ** 40, 10 ** 9 * GRACE + 7,
                     2 ** 62, -1, -5]


# ---- random structured values ----
def rnd_vals(rng, lo=0):
    return [rng.choice(VALS) for _ in range(rng.randint(lo, 3))]


def rnd_headers(rng, n=3):
    return [[rng.choice(NAMES), rnd_vals(rng)] for _ in range(rng.randint(0, n))]


def rnd_any(rng, resolv=0.9):
    ty = rng.randint(0, 3) if rng.random() < resolv else rng.randint(4, 5)
    return (ty, bytes(rng.choice(b"ab\x00\xff") for _ in range(rng.randint(0, 3))))


def rnd_ri(rng, resolv=0.9):
    q = None
    r = rng.random()
    if r < 0.35:
        q = [[rng.choice(["encoding", "connect", "Compression", "x"]), [rng.choice(["proto", "json", "v1", "gzip"])]]
             for _ in range(rng.randint(0, 3))]
    to = None
    if rng.random() < 0.4:
        to = rng.choice([0, 1, 50, GRACE - 1, GRACE, GRACE + 1, 2 * GRACE, 10000, -5, 2 ** 62])
    return ri(rnd_headers(rng), to, [rnd_any(rng, resolv) for _ in range(rng.randint(0, 3))], q)


def rnd_result(rng, resolv=0.9):
    r = res(rnd_headers(rng), rnd_headers(rng))
    for _ in range(rng.choice([0, 0, 1, 1, 2, 3, 4])):
        r["p"].append({"d": bytes(rng.choice(b"abc\x00") for _ in range(rng.randint(0, 4))),
                       "i": rnd_ri(rng, resolv) if rng.random() < 0.7 else None})
    if rng.random() < 0.5:
        ds = []
        for _ in range(rng.choice([0, 0, 1, 2, 3])):
            ds.append(("r", rnd_ri(rng, resolv)) if rng.random() < 0.5 else ("o", rnd_any(rng, 0.6)))
        r["e"] = {"c": rng.choice(CODES), "m": rng.choice([None, "", "boom", "oops"]), "ds": ds}
    if rng.random() < 0.4:
        r["s"] = rng.choice([200, 400, 404, 500])
    r["u"] = rng.choice([0, 0, 1, 7])
    return r


# ---- every single deviation of an expected result (actual := expected with one thing changed) ----
def hdr_deviations(hs):
    """deviations of a header list the expectation [hs] must notice (applied to a copy of the actual)"""
    for i, (n, vs) in enumerate(hs):
        # missing: drop every entry with that name (mod case)
        yield "missing", [h for h in hs if h[0].lower() != n.lower()]
        for k in range(len(vs)):
            yield "value-altered", hs[:i] + [[n, vs[:k] + [vs[k] + "z"] + vs[k + 1:]]] + hs[i + 1:]
            yield "value-dropped", hs[:i] + [[n, vs[:k] + vs[k + 1:]]] + hs[i + 1:]
            yield "value-doubled", hs[:i] + [[n, vs[:k] + [vs[k], vs[k]] + vs[k + 1:]]] + hs[i + 1:]
            if k + 1 < len(vs):
                yield "values-swapped", hs[:i] + [[n, vs[:k] + [vs[k + 1], vs[k]] + vs[k + 2:]]] + hs[i + 1:]
        yield "value-added", hs[:i] + [[n, vs + ["extra"]]] + hs[i + 1:]
        yield "shadowed", hs + [[n.upper(), ["other"]]]   # a later entry with the same name wins
        yield "outer-space", hs[:i] + [[n, [" " + v + " " for v in vs]]] + hs[i + 1:]


def ri_deviations(r, first=True):
    if first:
        for what, hs in hdr_deviations(r["h"]):
            a = copy.deepcopy(r); a["h"] = hs
            yield "reqhdr-" + what, a
        if r["q"]:
            for what, hs in hdr_deviations(r["q"]):
                a = copy.deepcopy(r); a["q"] = hs
                yield "query-" + what, a
            a = copy.deepcopy(r); a["q"] = None
            yield "query-missing-all", a
            a = copy.deepcopy(r); a["q"] = []
            yield "query-missing-all-empty", a
        t = r["to"]
        if t is not None:
            for x in (t + 1, t - GRACE - 1, t - GRACE, t - GRACE + 1, t - 1, -1, 0, t + GRACE, None):
                a = copy.deepcopy(r); a["to"] = x
                yield "timeout", a
        else:
            for x in (0, 1, GRACE):
                a = copy.deepcopy(r); a["to"] = x
                yield "timeout-unexpected", a
    rq = r["rq"]
    for i in range(len(rq)):
        a = copy.deepcopy(r); a["rq"] = rq[:i] + rq[i + 1:]
        yield "req-dropped", a
        a = copy.deepcopy(r); a["rq"] = rq[:i] + [(rq[i][0], rq[i][1] + b"z")] + rq[i + 1:]
        yield "req-content", a
        a = copy.deepcopy(r); a["rq"] = rq[:i] + [((rq[i][0] + 1) % 4, rq[i][1])] + rq[i + 1:]
        yield "req-type", a
        a = copy.deepcopy(r); a["rq"] = rq[:i] + [(4, rq[i][1])] + rq[i + 1:]
        yield "req-unresolvable", a
        if i + 1 < len(rq):
            a = copy.deepcopy(r); a["rq"] = rq[:i] + [rq[i + 1], rq[i]] + rq[i + 2:]
            yield "req-order", a
    a = copy.deepcopy(r); a["rq"] = rq + [(0, b"more")]
    yield "req-added", a


def deviations(e):
    for what, hs in hdr_deviations(e["h"]):
        a = copy.deepcopy(e); a["h"] = hs
        yield "hdr-" + what, a
    for what, hs in hdr_deviations(e["t"]):
        a = copy.deepcopy(e); a["t"] = hs
        yield "trl-" + what, a
    ps = e["p"]
    for i, p in enumerate(ps):
        a = copy.deepcopy(e); del a["p"][i]
        yield "payload-dropped", a
        a = copy.deepcopy(e); a["p"][i]["d"] = p["d"] + b"\x01"
        yield "payload-data", a
        a = copy.deepcopy(e); a["p"][i]["d"] = p["d"][:-1] if p["d"] else b"\x00"
        yield "payload-data", a
        if i + 1 < len(ps):
            a = copy.deepcopy(e); a["p"][i], a["p"][i + 1] = a["p"][i + 1], a["p"][i]
            yield "payload-order", a
        base = p["i"] if p["i"] is not None else ri()
        for what, r2 in ri_deviations(base, first=True):   # also on later payloads: the model decides
            a = copy.deepcopy(e); a["p"][i]["i"] = r2
            yield "payload-info-" + what, a
        if p["i"] is not None:
            a = copy.deepcopy(e); a["p"][i]["i"] = None
            yield "payload-info-nil", a
    a = copy.deepcopy(e); a["p"].append({"d": b"more", "i": None})
    yield "payload-added", a
    if e["e"] is None:
        a = copy.deepcopy(e); a["e"] = {"c": 2, "m": None, "ds": []}
        yield "error-unexpected", a
    else:
        a = copy.deepcopy(e); a["e"] = None
        yield "error-missing", a
        for c in CODES + [0]:
            a = copy.deepcopy(e); a["e"]["c"] = c
            yield "error-code", a
        for m in (None, "", "other", (e["e"]["m"] or "") + "!"):
            a = copy.deepcopy(e); a["e"]["m"] = m
            yield "error-message", a
        ds = e["e"]["ds"]
        for i, d in enumerate(ds):
            a = copy.deepcopy(e); del a["e"]["ds"][i]
            yield "detail-dropped", a
            if i + 1 < len(ds):
                a = copy.deepcopy(e); a["e"]["ds"][i], a["e"]["ds"][i + 1] = a["e"]["ds"][i + 1], a["e"]["ds"][i]
                yield "detail-order", a
            if d[0] == "o":
                a = copy.deepcopy(e); a["e"]["ds"][i] = ("o", (d[1][0], d[1][1] + b"z"))
                yield "detail-content", a
                a = copy.deepcopy(e); a["e"]["ds"][i] = ("o", ((d[1][0] + 1) % 6, d[1][1]))
                yield "detail-type", a
                a = copy.deepcopy(e); a["e"]["ds"][i] = ("r", ri())
                yield "detail-kind", a
            else:
                a = copy.deepcopy(e); a["e"]["ds"][i] = ("o", (0, b""))
                yield "detail-kind", a
                for what, r2 in ri_deviations(d[1], first=True):
                    a = copy.deepcopy(e); a["e"]["ds"][i] = ("r", r2)
                    yield "detail-info-" + what, a
        a = copy.deepcopy(e); a["e"]["ds"].append(("o", (1, b"more")))
        yield "detail-added", a
    for s in (None, 200, 201, 500, 0):
        a = copy.deepcopy(e); a["s"] = s
        yield "status", a


# ---- leniency-preserving rewrites (the model decides; these are the ones the property documents) ----
def join_variants(vs):
    if len(vs) >= 2:
        for sep in (",", ", ", " ,", " , "):
            yield [sep.join(vs)]
            yield [vs[0] + sep + vs[1]] + vs[2:]
            yield vs[:-2] + [vs[-2] + sep + vs[-1]]
    out = []
    for v in vs:
        out.extend(v.split(","))
    yield out
    yield [p.strip(" ") for p in out]   # NOT a leniency when outer spaces existed: the model decides


def hdr_rewrites(hs, rng):
    yield [[n.upper(), vs] for n, vs in hs]
    yield [[n.lower(), vs] for n, vs in hs]
    yield [[n.swapcase(), vs] for n, vs in hs]
    yield hs + [["x-extra", ["1"]]]
    yield [["x-extra", ["1", "2"]]] + hs + [["Date", ["now"]]]
    yield list(reversed(hs))
    for i, (n, vs) in enumerate(hs):
        yield [[n, ["stale"]]] + hs            # an earlier entry with the same name is overwritten
        for v2 in join_variants(vs):
            yield hs[:i] + [[n, v2]] + hs[i + 1:]


def ri_rewrites(r, rng):
    for hs in hdr_rewrites(r["h"], rng):
        a = copy.deepcopy(r); a["h"] = hs
        yield a
    if r["q"] is not None:
        for hs in hdr_rewrites(r["q"], rng):
            a = copy.deepcopy(r); a["q"] = hs
            yield a
    else:
        a = copy.deepcopy(r); a["q"] = [["encoding", ["proto"]]]
        yield a
        a = copy.deepcopy(r); a["q"] = []
        yield a
    t = r["to"]
    if t is not None:
        for x in (t, t - 1, max(0, t - GRACE), max(0, t - GRACE) + 1, (t + max(0, t - GRACE)) // 2):
            a = copy.deepcopy(r); a["to"] = x
            yield a


def rewrites(stream, other, e, rng):
    for hs in hdr_rewrites(e["h"], rng):
        a = copy.deepcopy(e); a["h"] = hs
        yield a
    for hs in hdr_rewrites(e["t"], rng):
        a = copy.deepcopy(e); a["t"] = hs
        yield a
    # headers and trailers merged (a leniency only for unary / client stream errors without payloads)
    a = copy.deepcopy(e); a["h"], a["t"] = e["h"] + e["t"], []
    yield a
    a = copy.deepcopy(e); a["h"], a["t"] = [], e["h"] + e["t"]
    yield a
    merged = {}
    for n, vs in e["h"]:
        merged[n.lower()] = list(vs)
    for n, vs in e["t"]:
        merged[n.lower()] = merged.get(n.lower(), []) + list(vs)
    ml = [[n, vs] for n, vs in merged.items()]
    for tgt in ("h", "t"):
        a = copy.deepcopy(e); a["h"], a["t"] = [], []
        a[tgt] = ml
        yield a
        a = copy.deepcopy(e); a["h"], a["t"] = [["x-extra", ["1"]]], [["x-extra", ["2"]]]
        a[tgt] = [[n.upper(), [", ".join(vs)] if vs else []] for n, vs in ml] + a[tgt]
        yield a
        if ml:
            a = copy.deepcopy(e); a["h"], a["t"] = [], []
            a[tgt] = ml[:-1]               # one merged entry missing: not a leniency
            yield a
    a = copy.deepcopy(e); a["h"], a["t"] = e["t"], e["h"]     # swapped: the model decides
    yield a
    for i, p in enumerate(e["p"]):
        base = p["i"] if p["i"] is not None else ri()
        for r2 in ri_rewrites(base, rng):
            a = copy.deepcopy(e); a["p"][i]["i"] = r2
            yield a
        if p["i"] is None:
            a = copy.deepcopy(e); a["p"][i]["i"] = ri()
            yield a
    if e["e"] is not None:
        for c in other:
            a = copy.deepcopy(e); a["e"]["c"] = c
            yield a
        if e["e"]["m"] is None:
            for m in ("", "anything", None):
                a = copy.deepcopy(e); a["e"]["m"] = m
                yield a
        elif e["e"]["m"] == "":
            a = copy.deepcopy(e); a["e"]["m"] = None
            yield a
        for i, d in enumerate(e["e"]["ds"]):
            if d[0] == "r":
                for r2 in ri_rewrites(d[1], rng):
                    a = copy.deepcopy(e); a["e"]["ds"][i] = ("r", r2)
                    yield a
    for s in (None, e["s"]):
        a = copy.deepcopy(e); a["s"] = s
        yield a
    for u in (0, 1, 99):
        a = copy.deepcopy(e); a["u"] = u
        yield a


# ---- hand-made expected results shaped like the ones the test-case library derives ----
def seeds():
    rq = lambda *d: [(0, x) for x in d]
    hdrs = [["x-test-case-name", ["n"]], ["X-Conformance-Test", ["v1", "v2"]]]
    trl = [["x-conformance-trailer", ["t1", "t2", "t3"]]]
    # unary success, with request info
    yield 1, res(hdrs, trl, [{"d": b"resp", "i": ri([["x-req", ["1", "2"]]], 2000, rq(b"r1"))}], None, 200)
    # unary GET
    yield 1, res(hdrs, trl, [{"d": b"resp", "i": ri([["x-req", ["1"]]], None, rq(b"r1"),
                                                     [["encoding", ["proto"]], ["connect", ["v1"]]])}])
    # unary error with request info in details
    yield 1, res(hdrs, trl, [], {"c": 8, "m": "oops", "ds": [("r", ri([["x-req", ["1"]]], 300, rq(b"r1"))), ("o", (1, b"d2")),
                                                            ("o", (5, b"raw"))]}, 429)
    yield 2, res(hdrs, trl, [], {"c": 8, "m": None, "ds": [("r", ri([], None, rq(b"a", b"b", b"c"), [["encoding", ["json"]], ["connect", ["v1"]]]))]})
    yield 2, res([["x-a", ["1"]], ["x-b", ["2"]]], [["x-a", ["3", "4"]], ["x-c", []]], [], {"c": 3, "m": "", "ds": []})
    # server stream: request info on the first response only
    yield 3, res(hdrs, trl, [{"d": b"p1", "i": ri([["x-req", ["1"]]], 700, [(1, b"r1")])}, {"d": b"p2", "i": None},
                             {"d": b"p3", "i": None}])
    yield 3, res(hdrs, trl, [{"d": b"p1", "i": ri([], 100, [(1, b"r1")])}, {"d": b"p2", "i": None}],
                 {"c": 10, "m": "late", "ds": [("o", (2, b"x")), ("o", (2, b"y")), ("o", (3, b"z"))]})
    # full duplex: one request echoed per response
    yield 5, res(hdrs, trl, [{"d": b"p1", "i": ri([["x-req", ["1", "2", "3"]]], None, [(3, b"r1")])},
                             {"d": b"p2", "i": ri([], None, [(3, b"r2")])}, {"d": b"p3", "i": ri([], None, [(3, b"r3")])}])
    # half duplex
    yield 4, res([], [], [{"d": b"p1", "i": ri([], 0, [(3, b"r1"), (3, b"r2"), (3, b"r3")])}, {"d": b"", "i": None}])
    yield 3, res([], [], [], {"c": 4, "m": None, "ds": []})
    yield 1, res([], [], [], None)


class C03(Prop):
    id = "C03"
    props = "C03_Props"
    coq_files = ("Base", "C03_Consts", "C03_Model", "C03_Spec", "C03_Proofs", "C03_Props")
    models = ("C03_Model",)
    packages = {"cc": "internal/app/connectconformance"}
    kinds = {"c03.assert": "cc", "c03.run": "cc", "c03.rundef": "cc", "c03.canon": "cc", "c03.merge": "cc"}
    consts = ("cc",)
    rule = ("c03.assert: (definition, expected, actual) through the real newResults/assert; expected results = 11 hand-made shapes "
            "(one per stream type / error / GET form) x every stream type and other-codes list, plus seeded random results; for each: "
            "the identical actual, every single deviation of every kind at every position (payload, detail, echoed request, value of a "
            "repeated header/trailer/request header/query parameter, timeout around both window edges, status), every leniency rewrite "
            "(case, extra, join/split on commas with and without spaces, merged metadata, other codes, unspecified message, window, "
            "absent status, unsent count), and random pairs with 0-3 stacked mutations; compared: pass/fail and the sorted multiset of "
            "discrepancy kinds with positions and names. Grace window: 16 expected timeouts (0, 1, below / at / above the window's width, hours, "
            "2^31, 2^40, 2^62, negative) x 20 echoed values (both edges +-1, half, ten and a thousand windows below, 1, 0, negative, far above, absent), "
            "on a payload and in an error detail, plus random pairs; the window's width is not a harness constant: TestVerifConsts reads the "
            "DECLARATION of the grace constant from the package source (value and the unit it is counted in) and the model computes in the "
            "declared duration. c03.run: the same comparison reached through the real runTestCasesForServer (in-process server, recording fake "
            "clientRunner reporting the actual result; reference and non-reference client): every expectation shape x identical / every status "
            "deviation / sampled other deviations and rewrites, expected x reported status grid, random pairs; also required: the reported "
            "message and the test case are unchanged afterwards (proto.Equal with a copy taken before); run cases with a list of alternative "
            "allowed codes and the reported code the first / middle / last alternative, an unlisted code, the primary code. c03.rundef: the "
            "DEFINITION that reaches assert through the real runner, read back by probes - the expected result reported with each code 1..16 "
            "(accepted = primary + other_allowed_error_codes of the library's case) and with all metadata as headers / as trailers (accepted "
            "iff the library's stream type allows the merged form): every expectation shape x {three alternatives, none} x own / every other "
            "stream type, random results. c03.canon: canonicalizeHeaderVals on every string of length <=5 over "
            "{a,space,comma} and random lists; c03.merge: mergeHeaders + merged check on random triples. "
            "non-trivial = the assertion reported at least one discrepancy, or a canonical list differs from its input")
    trusted_base = ("Coq 8.16.1 kernel (vm_compute used)", "extraction (ExtrOcamlBasic only) + ocaml/driver.ml",
                    "vlib generators/comparator, Go overlay harness (error text -> kind enum by anchored prefixes; the reader of the grace "
                    "constant's declaration: go/parser over the package's non-test files, integer literals, products/sums, time units, "
                    "time.Duration conversions, unit of an untyped number from the name's suffix - an unreadable declaration is an ERROR, not a pass)",
                    "modelled not verified: protocmp/anypb equality of Any values is represented by (type, content) equality of "
                    "deterministically marshalled messages; re-encodings of one message, malformed Any payloads and unknown fields are out of scope")
    assumptions = ("header names, values and messages are ASCII (strings.ToLower Unicode folding is not modelled)",
                   "timeouts are modelled in Z; int64 wrap-around of expected-grace cannot change the verdict (any negative expectation fails either way)",
                   "Go map iteration order in mergeHeaders does not influence the verdict (only emptiness of the merged check is used)")
    level_text = ("Machine-checked proof (Coq) that the model of assert reports no discrepancy exactly when expected and actual agree up to the "
                  "documented leniencies (assert_iff), with one corollary per deviation kind (universally quantified position) and per leniency; "
                  "the grace window's width is the duration the constant is DECLARED with (value x unit regenerated from the source; "
                  "grace_is_declared_duration), and the way from the client's report to the assertion in runTestCasesForServer is modelled as "
                  "the identity for every client (runner_hands_over_reported_result, run_verdict_iff, run_dev_status), and so is the way of the "
                  "library's test-case definition to it (runner_hands_over_definition: other allowed codes and stream type arrive as the library "
                  "holds them - run_len_other_code, run_dev_code, run_no_merge_elsewhere; probe_code_allowed / probe_code_flagged: the probes of "
                  "c03.rundef read the accepted codes back); "
                  "the model is tied to results.go and to the runner's response callback by a differential run over every single deviation / "
                  "rewrite of generated expectations.")
    level_note = ("Trusted: Coq kernel, extraction, OCaml driver, harness; model-to-code correspondence is sampled (systematic single deviations "
                  "and rewrites + random), not proved. Any equality is abstracted to (type, content); the value canonicalisation in the "
                  "specification is the model's own function, characterised by canon_idempotent / canon_join / canon_split. "
                  "The runner glue is covered for the response callback only (one test case, no TLS, no reference-server side band; the definition "
                  "handed to assert is observed through verdicts on probes, i.e. exactly the fields assert reads today: expected response, other "
                  "allowed codes, stream type in {unary, client stream} or not); which "
                  "test-case definition reaches assert for a gRPC-peer variant is C07's subject (same_but_name).")
    technique = "Coq proof of model = agreement specification (iff) + corollaries; differential model-vs-Go correspondence"

    def nontrivial(self, case, res):
        if case[0] in ("c03.assert", "c03.run"):
            return res.startswith("(0")
        if case[0] == "c03.rundef":
            return "(0 " in res and "(1 " in res
        return True

    def describe(self, case, g, m):
        return ("result assertion: the discrepancies reported by results.go differ from the proved model "
                "(= agreement up to the documented leniencies)")

    def generate(self, rng, tier):
        quick = tier == "quick"
        # ---- canonicalisation ----
        for n in range(0, 6):
            for t in itertools.product("a ,", repeat=n):
                yield ["c03.canon", ["".join(t)]]
        for _ in range(300 if quick else 4000):
            yield ["c03.canon", ["".join(rng.choice("ab ,,  ") for _ in range(rng.randint(0, 9))) for _ in range(rng.randint(0, 4))]]
        for _ in range(300 if quick else 4000):
            yield ["c03.merge", enc_h(rnd_headers(rng, 4)), enc_h(rnd_headers(rng, 4)), enc_h(rnd_headers(rng, 5))]
        # ---- the grace window: every expected timeout (below, at, above the window's width, huge, negative) x echoed
        # timeouts at both edges and far below / zero / negative / far above; on a payload and in an error detail ----
        for t in EXPECTED_TIMEOUTS:
            for x in echoed_timeouts(t):
                e = res([], [], [{"d": b"p", "i": ri([], t, [(0, b"r")])}])
                a = res([], [], [{"d": b"p", "i": ri([], x, [(0, b"r")])}])
                yield case(1, [], e, a)
                e = res([], [], [], {"c": 4, "m": None, "ds": [("r", ri([], t, [(0, b"r")]))]})
                a = res([], [], [], {"c": 4, "m": None, "ds": [("r", ri([], x, [(0, b"r")]))]})
                yield case(rng.choice([1, 2, 3]), [], e, a)
        for _ in range(200 if quick else 3000):
            t = rng.choice([rng.randint(0, 3 * GRACE), rng.randint(0, 10 ** 6), rng.randint(0, 2 ** 62)])
            x = rng.choice([rng.randint(0, max(0, t)), rng.randint(max(0, t - 2 * GRACE), t + 2), rng.randint(-5, GRACE)])
            e = res([], [], [{"d": b"", "i": ri([], t)}])
            yield case(rng.randint(0, 5), [], e, res([], [], [{"d": b"", "i": ri([], x)}]))
        # ---- through the runner: what the client reports is what is asserted, reference client or not ----
        for st, e in seeds():
            for ref in (0, 1):
                yield run_case(ref, st, [], e, e)
                for what, a in deviations(e):
                    if what == "status" or rng.random() < (0.06 if quick else 0.5):
                        yield run_case(ref, st, [], e, a)
                rews = list(rewrites(st, [], e, rng))
                for a in rng.sample(rews, min(len(rews), 6 if quick else 60)):
                    yield run_case(ref, st, [], e, a)
        for s_e in (200, 429, 503, 0):
            for s_a in (None, 200, 201, 429, 500, 503, 0):
                for ref in (0, 1):
                    for u in (0, 1):
                        e = res([["x-a", ["1"]]], [], [{"d": b"p", "i": None}], None, s_e)
                        a = res([["x-a", ["1"]]], [], [{"d": b"p", "i": None}], None, s_a, u)
                        yield run_case(ref, 1, [], e, a)
                        e = res([], [], [], {"c": 14, "m": None, "ds": []}, s_e)
                        a = res([], [], [], {"c": 14, "m": "down", "ds": []}, s_a, u)
                        yield run_case(ref, rng.randint(1, 5), [13], e, a)
        # ---- the DEFINITION that reaches assert is the library's: alternative allowed codes (first, middle, last of the
        # list, and a code that is not listed), the stream type (merged metadata), the expected response ----
        for st, e in seeds():
            if e["e"] is None:
                continue
            prim = e["e"]["c"]
            alts = [c for c in rng.sample(CODES, 5) if c != prim][:3]
            outsider = next(c for c in CODES if c != prim and c not in alts)
            for ref in (0, 1):
                for c in alts + [outsider, prim]:
                    a = copy.deepcopy(e); a["e"]["c"] = c
                    yield run_case(ref, st, alts, e, a)
                a = copy.deepcopy(e); a["e"]["c"] = alts[-1]
                yield run_case(ref, st, alts[:1], e, a)
        rd = []
        for st, e in seeds():
            prim = e["e"]["c"] if e["e"] is not None else 0
            alts = [c for c in rng.sample(CODES, 5) if c != prim][:3]
            rd.append((rng.randint(0, 1), st, alts, e))
            rd.append((rng.randint(0, 1), st, [], e))
            if e["e"] is not None:
                rd.append((rng.randint(0, 1), rng.choice([x for x in (1, 2, 3, 4, 5, 0) if x != st]), alts[:rng.randint(1, 2)], e))
                if not e["p"]:
                    for st2 in (1, 2, 3, 4, 5, 0):
                        if st2 != st:
                            rd.append((rng.randint(0, 1), st2, rng.choice([[], alts[1:2]]), e))
        for _ in range(12 if quick else 200):
            e = rnd_result(rng, 0.95)
            rd.append((rng.randint(0, 1), rng.randint(0, 5), [rng.choice(CODES) for _ in range(rng.choice([0, 1, 2, 4]))], e))
        for ref, st, other, e in rd:
            yield rundef_case(ref, st, other, e)
        for _ in range(150 if quick else 2000):
            e = rnd_result(rng, 0.9)
            st = rng.randint(0, 5)
            other = [rng.choice(CODES) for _ in range(rng.choice([0, 0, 1]))]
            a = copy.deepcopy(e)
            for _ in range(rng.choice([0, 1, 1, 2])):
                a = rng.choice(list(deviations(a)))[1] if rng.random() < 0.5 else rng.choice(list(rewrites(st, other, a, rng)))
            yield run_case(rng.randint(0, 1), st, other, e, a)
        # ---- systematic: seeds x definitions ----
        bases = []
        for st, e in seeds():
            bases.append((st, [], e))
            if e["e"] is not None:
                bases.append((st, [e["e"]["c"] % 16 + 1, 13], e))
                for st2 in (1, 2, 3, 4, 5, 0):
                    if st2 != st:
                        bases.append((st2, [], e))
        n_rand_bases = 25 if quick else 100
        for _ in range(n_rand_bases):
            e = rnd_result(rng, 0.95)
            other = [rng.choice(CODES) for _ in range(rng.choice([0, 0, 1, 2]))]
            bases.append((rng.randint(0, 5), other, e))
        for st, other, e in bases:
            yield case(st, other, e, e)
            devs = list(deviations(e))
            rews = list(rewrites(st, other, e, rng))
            if quick and len(devs) > 260:
                devs = rng.sample(devs, 260)
            if quick and len(rews) > 160:
                rews = rng.sample(rews, 160)
            for _, a in devs:
                yield case(st, other, e, a)
            for a in rews:
                yield case(st, other, e, a)
            # a deviation stacked on a rewrite (and vice versa) must still be noticed
            for a in (rews[:: max(1, len(rews) // 12)] if quick else rews):
                ds = list(deviations(a))
                if ds:
                    yield case(st, other, e, rng.choice(ds)[1])
        # ---- random pairs ----
        for _ in range(2500 if quick else 30000):
            e = rnd_result(rng, 0.85)
            st = rng.randint(0, 5)
            other = [rng.choice(CODES) for _ in range(rng.choice([0, 0, 1, 3]))]
            a = copy.deepcopy(e)
            for _ in range(rng.choice([0, 1, 1, 2, 3])):
                if rng.random() < 0.5:
                    c = list(deviations(a))
                    a = rng.choice(c)[1]
                else:
                    c = list(rewrites(st, other, a, rng))
                    a = rng.choice(c)
            yield case(st, other, e, a)
        for _ in range(500 if quick else 6000):
            yield case(rng.randint(0, 5), [rng.choice(CODES)], rnd_result(rng, 0.8), rnd_result(rng, 0.8))


PROP = C03()
