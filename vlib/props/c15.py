"""C15 — HTTP/2 connection tracing is transparent and attributes frames to the right call."""
import collections
import itertools
import os
import random

from .. import core
from ..core import Prop

PREFACE = b"PRI * HTTP/2.0\r\n\r\nSM\r\n\r\n"
M = (1 << 30) - 1

# frame kinds of the synth input (harness/C15: c15Synth)
H, D, RST, GOAWAY, PING, SETTINGS, WUPD, RAW, TIMESUP, CLOSE = range(10)
REQ, RESP = 0, 1


# ----------------------------------------------------------------------------------------------
# checksum binding streams and oracle tables together (C15_Model.sx_hash): a shrink candidate that
# edits them is ill-formed for the model (`bad-case`) and skipped, so a shrunk replay stays consistent
# ----------------------------------------------------------------------------------------------
def h_sx(acc, v):
    if isinstance(v, bool):
        v = int(v)
    if isinstance(v, int):
        return (acc * 31 + 11 + v) & M
    if isinstance(v, str):
        v = v.encode()
    if isinstance(v, (bytes, bytearray)):
        acc = (acc * 31 + 7) & M
        for c in v:
            acc = (acc * 31 + c + 1) & M
        return acc
    acc = (acc * 31 + 5) & M
    for x in v:
        acc = h_sx(acc, x)
    return (acc * 31 + 3) & M


# ----------------------------------------------------------------------------------------------
# abstract exchanges
# ----------------------------------------------------------------------------------------------
def envelope(flags, payload):
    return bytes([flags]) + len(payload).to_bytes(4, "big") + payload


def cut(rng, data, maxparts):
    """data -> 1..maxparts consecutive pieces (possibly empty ones)"""
    n = rng.randint(1, maxparts)
    pts = sorted(rng.randint(0, len(data)) for _ in range(n - 1))
    out, prev = [], 0
    for p in pts + [len(data)]:
        out.append(data[prev:p])
        prev = p
    return out


EXTRA_HDRS = [("user-agent", "grpc-go/1.70.0"), ("te", "trailers"), ("accept-encoding", "identity"),
              ("x-custom", "a b"), ("x-custom", "second"), ("grpc-timeout", "200m"), ("x-bin-bin", "AAEC"),
              ("cookie", "a=b"), ("connect-protocol-version", "1")]


def mk_stream(rng, sid, name, path, allow_cont=True, proto=None, ending=None):
    """-> (request frames, response frames) of one stream, each a list of frame tuples without dir"""
    proto = proto or rng.choice(["grpc", "grpc", "connect", "unary", "grpc-web"])
    ctype = {"grpc": "application/grpc", "connect": "application/connect+proto", "unary": "application/proto",
             "grpc-web": "application/grpc-web+proto"}[proto]
    ending = ending or rng.choice(["normal"] * 6 + ["rst-server", "rst-client", "refused", "open", "resp-only-headers"])
    q = rng.choice(["", "", "", "?", "?a=1&b=2", "?x?y"])
    req_fields = [(":method", rng.choice(["POST", "POST", "GET"])), (":scheme", "http"), (":authority", "127.0.0.1:8080"),
                  (":path", path + q), ("content-type", ctype)]
    if name is not None:
        req_fields.append(("x-test-case-name", name))
    req_fields += rng.sample(EXTRA_HDRS, rng.randint(0, 3))
    ncont = rng.choice([0, 0, 0, 1, 2]) if allow_cont else 0
    pad = rng.choice([-1, -1, -1, 0, 3])
    prio = rng.choice([0, 0, 0, 5])
    streamy = proto != "unary"
    req_msgs = [envelope(rng.choice([0, 0, 1]), bytes(rng.randrange(256) for _ in range(rng.choice([0, 1, 3, 8, 20]))))
                for _ in range(rng.randint(0, 3))] if streamy else [bytes(rng.randrange(256) for _ in range(rng.randint(0, 12)))]
    body = b"".join(req_msgs)
    if streamy and rng.random() < 0.1:
        body = body + envelope(0, b"abcdefgh")[:rng.randint(1, 9)]  # request cut inside a message
    req = []
    pieces = cut(rng, body, 4) if body else []
    req_trailers = rng.random() < 0.08
    if not pieces and not req_trailers and rng.random() < 0.5:
        req.append((H, sid, 1, req_fields, ncont, pad, prio))
    else:
        req.append((H, sid, 0, req_fields, ncont, pad, prio))
        for i, p in enumerate(pieces):
            last = i == len(pieces) - 1 and not req_trailers
            req.append((D, sid, 1 if last else 0, p, rng.choice([-1, -1, 0, 2])))
        if not pieces and not req_trailers:
            req.append((D, sid, 1, b"", -1))
        if req_trailers:
            req.append((H, sid, 1, [("x-req-trailer", "t")], 0, -1, 0))
    if ending == "rst-client":
        k = rng.randint(1, len(req))
        req = req[:k] + [(RST, sid, rng.choice([8, 8, 2, 5]))]
    # response
    resp = []
    if ending == "refused":
        resp.append((RST, sid, 7))
        return req, resp
    if ending == "open":
        if rng.random() < 0.5:
            return req, resp
    status = rng.choice(["200", "200", "200", "404", "abc", ""]) if proto == "unary" else "200"
    resp_fields = ([(":status", status)] if status else []) + [("content-type", ctype)] + rng.sample(EXTRA_HDRS, rng.randint(0, 2))
    rcont = rng.choice([0, 0, 0, 1, 2]) if allow_cont else 0
    if ending == "resp-only-headers":
        # trailers-only response
        resp.append((H, sid, 1, resp_fields + [("grpc-status", "12")], rcont, -1, 0))
        return req, resp
    resp.append((H, sid, 0, resp_fields, rcont, rng.choice([-1, -1, 2]), 0))
    if streamy:
        msgs = [envelope(rng.choice([0, 0, 1]), bytes(rng.randrange(256) for _ in range(rng.choice([0, 2, 5, 17]))))
                for _ in range(rng.randint(0, 3))]
        if proto == "connect":
            msgs.append(envelope(2, rng.choice([b"{}", b'{"error":{"code":"internal"}}', b""])))
        if proto == "grpc-web":
            msgs.append(envelope(0x80, rng.choice([b"grpc-status: 0\r\n", b"grpc-status:3\r\ngrpc-message:x\r\n"])))
        rbody = b"".join(msgs)
        if rng.random() < 0.08:
            rbody += envelope(rng.choice([0, 2]), b"0123456789")[:rng.randint(1, 12)]
    else:
        rbody = bytes(rng.randrange(256) for _ in range(rng.randint(0, 12)))
    pieces = cut(rng, rbody, 4) if rbody else []
    trailers = proto == "grpc" or (proto == "unary" and rng.random() < 0.2)
    if ending == "open":
        for p in pieces[:-1]:
            resp.append((D, sid, 0, p, -1))
        return req, resp
    for i, p in enumerate(pieces):
        last = i == len(pieces) - 1 and not trailers
        resp.append((D, sid, 1 if last else 0, p, rng.choice([-1, -1, 1])))
    if ending == "rst-server":
        k = rng.randint(1, len(resp))
        resp = resp[:k] + [(RST, sid, rng.choice([2, 7, 8, 11]))]
        return req, resp
    if trailers:
        resp.append((H, sid, 1, [("grpc-status", rng.choice(["0", "13"])), ("grpc-message", "m")], rng.choice([0, 0, 1]) if allow_cont else 0, -1, 0))
    elif not pieces:
        resp.append((D, sid, 1, b"", -1))
    return req, resp


def merge(rng, seqs):
    """random interleaving of sequences preserving each one's order"""
    seqs = [list(s) for s in seqs if s]
    out = []
    while seqs:
        ws = [len(s) for s in seqs]
        i = rng.choices(range(len(seqs)), weights=ws)[0]
        out.append(seqs[i].pop(0))
        if not seqs[i]:
            seqs.pop(i)
    return out


def stream_seq(rng, req, resp):
    """one stream's frames tagged with direction: the request HEADERS first, the rest merged"""
    r = [(REQ,) + f for f in req]
    s = [(RESP,) + f for f in resp]
    return [r[0]] + merge(rng, [r[1:], s])


def all_merges(a, b):
    if not a:
        yield list(b)
        return
    if not b:
        yield list(a)
        return
    for m in all_merges(a[1:], b):
        yield [a[0]] + m
    for m in all_merges(a, b[1:]):
        yield [b[0]] + m


NOISE = [
    lambda rng, d: (d, PING, rng.randrange(2), bytes(rng.randrange(256) for _ in range(8))),
    lambda rng, d: (d, SETTINGS, 1),
    lambda rng, d: (d, SETTINGS, 0, (3, 100), (4, 65535)),
    lambda rng, d: (d, WUPD, rng.choice([0, 1, 3]), rng.randint(1, 1 << 20)),
    lambda rng, d: (d, RAW, rng.randint(10, 255), rng.randrange(256), rng.randrange(8), bytes(rng.randrange(256) for _ in range(rng.randint(0, 12)))),
    lambda rng, d: (d, RAW, 2, 0, rng.choice([1, 3]), bytes(5)),                       # PRIORITY
    lambda rng, d: (d, RAW, 5, 4, rng.choice([1, 3]), bytes([0, 0, 0, 2]) + b"\x82"),  # PUSH_PROMISE
]

# frames the framer rejects on structure alone: the direction's tracer must go `broken`, nothing else
MALFORMED = [
    lambda rng, d: (d, RAW, 0, 0, 0, b"xy"),                 # DATA on stream 0
    lambda rng, d: (d, RAW, 0, 8, 1, b""),                   # padded DATA without pad length
    lambda rng, d: (d, RAW, 0, 8, 1, b"\x09abc"),            # pad length > payload
    lambda rng, d: (d, RAW, 3, 0, 1, b"\x00\x00\x08"),       # RST_STREAM of 3 bytes
    lambda rng, d: (d, RAW, 3, 0, 0, b"\x00\x00\x00\x08"),   # RST_STREAM on stream 0
    lambda rng, d: (d, RAW, 6, 0, 0, b"1234567"),            # PING of 7 bytes
    lambda rng, d: (d, RAW, 6, 0, 1, b"12345678"),           # PING on a stream
    lambda rng, d: (d, RAW, 8, 0, 1, bytes(4)),              # WINDOW_UPDATE increment 0
    lambda rng, d: (d, RAW, 8, 0, 0, bytes(3)),              # WINDOW_UPDATE of 3 bytes
    lambda rng, d: (d, RAW, 4, 0, 0, bytes(5)),              # SETTINGS not a multiple of 6
    lambda rng, d: (d, RAW, 4, 1, 0, bytes(6)),              # SETTINGS ack with payload
    lambda rng, d: (d, RAW, 4, 0, 1, b""),                   # SETTINGS on a stream
    lambda rng, d: (d, RAW, 4, 0, 0, b"\x00\x04\x80\x00\x00\x00"),  # initial window 2^31
    lambda rng, d: (d, RAW, 7, 0, 0, bytes(7)),              # GOAWAY of 7 bytes
    lambda rng, d: (d, RAW, 7, 0, 1, bytes(8)),              # GOAWAY on a stream
    lambda rng, d: (d, RAW, 9, 4, 1, b"\x82"),               # CONTINUATION out of the blue
    lambda rng, d: (d, RAW, 1, 4, 0, b"\x82"),               # HEADERS on stream 0
    lambda rng, d: (d, RAW, 1, 4 | 8, 1, b""),               # padded HEADERS without pad length
    lambda rng, d: (d, RAW, 1, 4 | 8, 1, b"\x05\x82"),       # HEADERS pad length > payload
    lambda rng, d: (d, RAW, 1, 4 | 0x20, 1, b"\x00\x00"),    # HEADERS with short priority
    lambda rng, d: (d, RAW, 2, 0, 1, bytes(4)),              # PRIORITY of 4 bytes
    lambda rng, d: (d, RAW, 2, 0, 0, bytes(5)),              # PRIORITY on stream 0
    lambda rng, d: (d, RAW, 5, 0, 0, bytes(4)),              # PUSH_PROMISE on stream 0
    lambda rng, d: (d, RAW, 5, 0, 1, bytes(3)),              # PUSH_PROMISE too short
]


def gen_exchange(rng, nstreams, allow_cont=True, noise=True, goaway=None, malformed=False, retry=False, unnamed=0.12):
    """-> (preface bytes, global frame list).  Test names are unique per exchange except for a retry."""
    seqs = []
    sid = 1
    for k in range(nstreams):
        name = None if rng.random() < unnamed else "Suite/%s/case-%d" % (rng.choice(["a", "bb"]), k)
        if retry and k == 0:
            name = name or "Suite/retried"
            req1, resp1 = mk_stream(rng, sid, name, "/svc.S/M%da" % k, allow_cont, ending="refused")
            sid += 2
            req2, resp2 = mk_stream(rng, sid, name, "/svc.S/M%db" % k, allow_cont, ending=rng.choice(["normal", "normal", "rst-server"]))
            seqs.append(stream_seq(rng, req1, resp1) + stream_seq(rng, req2, resp2))
        else:
            req, resp = mk_stream(rng, sid, name, "/svc.S/M%d" % k, allow_cont)
            seqs.append(stream_seq(rng, req, resp))
        sid += 2
    extra = []
    if noise:
        extra += [rng.choice(NOISE)(rng, rng.randrange(2)) for _ in range(rng.randint(0, 4))]
    if goaway is not None:
        extra.append((RESP if rng.random() < 0.85 else REQ, GOAWAY, goaway[0], goaway[1], b"dbg"))
    if malformed:
        extra.append(rng.choice(MALFORMED)(rng, rng.randrange(2)))
    frames = merge(rng, seqs + [[e] for e in extra])
    pre = PREFACE
    r = rng.random()
    if malformed and r < 0.15:
        pre = PREFACE[:rng.randint(0, 23)] + b"X" + PREFACE[24:]
        pre = pre[:24] if len(pre) >= 24 else pre + b"Y" * (24 - len(pre))
    return pre, frames


# ----------------------------------------------------------------------------------------------
# ops: cutting both directions into Read/Write calls that complete the frames in the global order
# ----------------------------------------------------------------------------------------------
def build_ops(rng, side, prelen, frames, lens, mode, tail, p_timeout=0.0):
    """frames: global list; lens[i] = (dir, nbytes).  mode: 'frame' | 'rand' | 'one' | 'max'.
    p_timeout: probability that a Read delivers its bytes together with a timeout error (not fatal: the
    bytes must be traced like any others and the connection goes on)"""
    total = [prelen, 0]
    ends = []
    for (d, n) in lens:
        total[d] += n
        ends.append(total[d])
    pos = [0, 0]
    ops = []

    def emit(d, n):
        if n <= 0:
            return
        if (d == REQ) == (side == 1):
            ops.append([0, n, 2 if (p_timeout and rng.random() < p_timeout) else 0])
        else:
            ops.append([1, n, n, 0])
        pos[d] += n

    i = 0
    nf = len(frames)
    while i < nf:
        f = frames[i]
        d = f[0]
        if f[1] == TIMESUP:
            ops.append([3, f[2]])
            i += 1
            continue
        if f[1] == CLOSE:
            ops.append([2, f[2]])
            i += 1
            continue
        # maximal run of consecutive frames in this direction (pseudo frames end a run)
        j = i
        while j + 1 < nf and frames[j + 1][0] == d and frames[j + 1][1] not in (TIMESUP, CLOSE):
            j += 1
        limit = ends[j]
        # may run into the next frame of this direction without completing it
        nxt = next((k for k in range(j + 1, nf) if frames[k][0] == d and frames[k][1] not in (TIMESUP, CLOSE)), None)
        over = (lens[nxt][1] - 1) if nxt is not None else 0
        target = ends[i]
        while pos[d] < target:
            if mode == "frame":
                n = target - pos[d]
            elif mode == "one":
                n = 1
            elif mode == "max":
                n = limit + over - pos[d]
            else:
                n = rng.choice([1, 1, 2, 3, 5, 9, 17, 40, 100, 1000])
                n = min(n, limit + over - pos[d])
            emit(d, n)
        i += 1
    # what is left (nothing unless frames were dropped) and the tail ops
    for d in (REQ, RESP):
        if pos[d] < total[d]:
            emit(d, total[d] - pos[d])
    return ops + tail


def tail_ops(rng, side):
    r = rng.random()
    if r < 0.55:
        return [[2, rng.choice([0, 0, 3])]]
    if r < 0.70:
        return [[0, 0, rng.choice([1, 3])]]              # Read fails (EOF / other)
    if r < 0.78:
        return [[0, 0, 2], [2, 0]]                       # a timeout is not fatal; then Close
    if r < 0.86:
        return [[1, 0, 0, 3]]                            # Write fails
    return []


# ----------------------------------------------------------------------------------------------
# the shapes of the grammar C15_SpecL3.exchange, systematically
# ----------------------------------------------------------------------------------------------
GRPC = "application/grpc"


def base_stream(sid, name, path, ncont=(0, 0, 0), unary_req=False):
    """a gRPC stream in a fixed order, both directions interleaved, messages cut across DATA frames:
    reqH reqD respH respD reqD(es) respD respT(es).  ncont: CONTINUATIONs of request headers / response headers / trailers"""
    rf = [(":method", "POST"), (":scheme", "http"), (":authority", "h"), (":path", path), ("content-type", GRPC), ("te", "trailers")]
    if name is not None:
        rf.append(("x-test-case-name", name))
    m2 = envelope(0, b"cde")
    r1 = envelope(0, b"xyz")
    return [(REQ, H, sid, 0, rf, ncont[0], -1, 0),
            (REQ, D, sid, 0, envelope(0, b"ab") + m2[:3], -1),
            (RESP, H, sid, 0, [(":status", "200"), ("content-type", GRPC)], ncont[1], -1, 0),
            (RESP, D, sid, 0, r1[:4], -1),
            (REQ, D, sid, 1, m2[3:], -1),
            (RESP, D, sid, 0, r1[4:] + envelope(1, b""), -1),
            (RESP, H, sid, 1, [("grpc-status", "0"), ("grpc-message", "ok")], ncont[2], -1, 0)]


def shape_streams(rng):
    """-> list of (label, frames of ONE stream sid 1) covering the productions of the grammar"""
    out = []
    b = base_stream(1, "Suite/g/base", "/svc.S/G")
    out.append(("base", b))
    # RST_STREAM by either peer after every prefix (k = 7: after the end, a late frame)
    for k in range(1, len(b) + 1):
        for d in (REQ, RESP):
            out.append(("rst", base_stream(1, "Suite/g/rst%d%d" % (k, d), "/svc.S/G")[:k] + [(d, RST, 1, 8 if d == REQ else 2)]))
    # late DATA / RST after the end
    out.append(("late", base_stream(1, "Suite/g/late", "/svc.S/G") + [(REQ, D, 1, 0, b"zz", -1), (RESP, RST, 1, 0), (REQ, RST, 1, 8)]))
    # CONTINUATION chains on request headers, response headers, trailers
    for nc in ((1, 0, 0), (0, 2, 0), (0, 0, 3), (3, 2, 1)):
        out.append(("cont", base_stream(1, "Suite/g/cont%d%d%d" % nc, "/svc.S/G", ncont=nc)))
    # no test name
    out.append(("unnamed", base_stream(1, None, "/svc.S/G")))
    out.append(("unnamed", base_stream(1, None, "/svc.S/G")[:3] + [(RESP, RST, 1, 2)]))
    rf = lambda n: [(":method", "POST"), (":scheme", "http"), (":authority", "h"), (":path", "/svc.S/Z"), ("content-type", GRPC),
                    ("x-test-case-name", n)]
    rh = [(":status", "200"), ("content-type", GRPC)]
    tr = [("grpc-status", "0")]
    # trailers-only responses; request without body (END_STREAM on HEADERS); zero DATA in either direction
    out.append(("trailers-only", [(REQ, H, 1, 1, rf("Suite/g/to1"), 0, -1, 0), (RESP, H, 1, 1, rh + [("grpc-status", "12")], 0, -1, 0)]))
    out.append(("trailers-only", [(REQ, H, 1, 0, rf("Suite/g/to2"), 0, -1, 0), (RESP, H, 1, 1, rh + [("grpc-status", "12")], 1, -1, 0),
                                  (REQ, D, 1, 1, envelope(0, b"q"), -1)]))
    out.append(("zero-data", [(REQ, H, 1, 1, rf("Suite/g/zd1"), 0, -1, 0), (RESP, H, 1, 0, rh, 0, -1, 0), (RESP, H, 1, 1, tr, 0, -1, 0)]))
    out.append(("zero-data", [(REQ, H, 1, 0, rf("Suite/g/zd2"), 0, -1, 0), (REQ, D, 1, 1, b"", -1), (RESP, H, 1, 0, rh, 0, -1, 0),
                              (RESP, D, 1, 1, b"", -1)]))
    # request trailers
    out.append(("req-trailers", [(REQ, H, 1, 0, rf("Suite/g/rt"), 0, -1, 0), (REQ, D, 1, 0, envelope(0, b"abc"), -1),
                                 (RESP, H, 1, 0, rh, 0, -1, 0), (REQ, H, 1, 1, [("x-req-trailer", "t")], 1, -1, 0),
                                 (RESP, D, 1, 0, envelope(0, b"r"), -1), (RESP, H, 1, 1, tr, 0, -1, 0)]))
    # left open
    out.append(("open", base_stream(1, "Suite/g/open", "/svc.S/G")[:4]))
    return out


# ----------------------------------------------------------------------------------------------
# ill-formed sequences, systematically: every state of one stream's table entry x every frame kind
# from either direction, bounded-exhaustive (seeded C15-14 - response DATA before response HEADERS,
# then RST_STREAM - was missed because only GOAWAY / Close ever followed that state)
# ----------------------------------------------------------------------------------------------
ST_SID = 3          # the stream under test; GOAWAY last-stream-ids 1 / 3 / 5 are below / at / above it
ST_NAME = "Suite/st/x"


def st_req_fields(name):
    f = [(":method", "POST"), (":scheme", "http"), (":authority", "h"), (":path", "/svc.S/T"), ("content-type", GRPC)]
    return f + ([("x-test-case-name", name)] if name is not None else [])


ST_RESP_FIELDS = [(":status", "200"), ("content-type", GRPC)]
# one whole message and a second one cut inside its prefix: whoever flushes this direction's dataTracer has
# something unfinished to report (and needs a builder for it)
ST_PART = envelope(0, b"ab") + envelope(1, b"cde")[:3]


def st_states():
    """-> [(label, frames)]: the states of c.streams[3] (none / request open / half-closed / response DATA before
    response HEADERS / response open / closed), named and nameless, each reached by the shortest frame list"""
    def rq(es, name=ST_NAME):
        return (REQ, H, ST_SID, es, st_req_fields(name), 0, -1, 0)

    def rh(es):
        return (RESP, H, ST_SID, es, ST_RESP_FIELDS, 0, -1, 0)
    qd = (REQ, D, ST_SID, 0, ST_PART, -1)
    pd = (RESP, D, ST_SID, 0, ST_PART, -1)
    return [
        ("none", []),
        ("req-open", [rq(0)]),
        ("req-open/mid-message", [rq(0), qd]),
        ("half-closed", [rq(0), (REQ, D, ST_SID, 1, envelope(0, b"ab"), -1)]),
        ("resp-data-before-headers/req-open", [rq(0), qd, pd]),
        ("resp-data-before-headers/half-closed", [rq(1), pd]),
        ("resp-open/req-open", [rq(0), rh(0), pd]),
        ("resp-open/half-closed", [rq(1), rh(0)]),
        ("closed", [rq(1), rh(1)]),
        ("unnamed/resp-data-before-headers", [rq(0, None), pd]),
        ("unnamed/resp-open", [rq(0, None), qd, rh(0), pd]),
    ]


def st_alphabet(full):
    """the frames tried in every state, from either direction.  full: also CONTINUATION (a block continued, and a
    stray one: the direction goes broken), WINDOW_UPDATE, PING, an unknown frame type, GOAWAY at the stream's id and
    from the client, REFUSED_STREAM, the retry timer; reduced: what handleFrame does not ignore."""
    out = []
    for d in (REQ, RESP):
        fields = st_req_fields(ST_NAME) if d == REQ else ST_RESP_FIELDS
        out += [("H", (d, H, ST_SID, 0, fields, 0, -1, 0)),
                ("H+es", (d, H, ST_SID, 1, fields, 0, -1, 0)),
                ("D", (d, D, ST_SID, 0, ST_PART, -1)),
                ("D+es", (d, D, ST_SID, 1, b"", -1)),
                ("RST", (d, RST, ST_SID, 8 if d == REQ else 2))]
        if full:
            out += [("H+CONT", (d, H, ST_SID, 0, fields, 1, -1, 0)),
                    ("CONT-stray", (d, RAW, 9, 4, ST_SID, b"\x82")),
                    ("GOAWAY-below", (d, GOAWAY, 1, 0, b"")), ("GOAWAY-at", (d, GOAWAY, ST_SID, 2, b"")),
                    ("GOAWAY-above", (d, GOAWAY, 5, 0, b"")),
                    ("WINDOW_UPDATE", (d, WUPD, ST_SID, 7)), ("PING", (d, PING, 0, b"12345678")),
                    ("unknown-type", (d, RAW, 0x4A, 1, ST_SID, b"xyz"))]
            if d == RESP:
                out.append(("RST-refused", (d, RST, ST_SID, 7)))
        elif d == RESP:
            out += [("GOAWAY-below", (d, GOAWAY, 1, 0, b"")), ("GOAWAY-above", (d, GOAWAY, 5, 0, b""))]
    out.append(("Close", (REQ, CLOSE, 0)))
    if full:
        out.append(("timer", (REQ, TIMESUP, ST_NAME)))
    return [("%s/%s" % ("-" if f[1] in (CLOSE, TIMESUP) else ("req" if f[0] == REQ else "resp"), lab), f) for lab, f in out]


def st_sequences(quick):
    """-> (state label, frames, sides): the state's prefix followed by every sequence of 1 and 2 frames of the full
    alphabet (both sides) and every sequence of 3 frames of the reduced one (sides alternating; thorough: both)"""
    full, red = st_alphabet(True), st_alphabet(False)
    k = 0
    for label, prefix in st_states():
        for n in (1, 2):
            for seq in itertools.product(full, repeat=n):
                yield label, [s[0] for s in seq], prefix + [s[1] for s in seq], [0, 1]
        if label in ("none", "closed"):
            # no table entry: only request HEADERS do anything, and then the state is one of the others (covered
            # with its own sequences of 2)
            continue
        for seq in itertools.product(red, repeat=3):
            k += 1
            yield label, [s[0] for s in seq], prefix + [s[1] for s in seq], [k % 2] if quick else [0, 1]


def resid(frames, sid):
    """the same stream on another id"""
    return [f[:2] + (sid,) + f[3:] for f in frames]


def count_shapes(frames, cnt):
    """which productions of the grammar an abstract exchange (without malformed frames) goes through"""
    st = {}
    for f in frames:
        d, k = f[0], f[1]
        if k in (H, D, RST):
            sid = f[2]
            s = st.get(sid)
            if s is None:
                if k == H and d == REQ:
                    named = any(n == "x-test-case-name" for n, _ in f[4])
                    s = st[sid] = {"q": not f[3], "p": False, "done": False, "qd": 0, "pd": 0}
                    cnt["streams"] += 1
                    cnt["stream-unnamed" if not named else "stream-named"] += 1
                    if f[3]:
                        cnt["req-end-on-headers"] += 1
                    if f[5] >= 1:
                        cnt["continuation-chain"] += 1
                    if f[5] >= 2:
                        cnt["continuation-chain>=2"] += 1
                continue
            if s["done"]:
                cnt["late-data" if k == D else "late-rst" if k == RST else "late-headers"] += 1
                continue
            if k == H:
                if f[5] >= 1:
                    cnt["continuation-chain"] += 1
                if f[5] >= 2:
                    cnt["continuation-chain>=2"] += 1
                if d == REQ:
                    cnt["req-trailers"] += 1
                    if f[3]:
                        s["q"] = False
                elif not s["p"]:
                    s["p"] = True
                    if f[3]:
                        cnt["resp-trailers-only"] += 1
                        s["done"] = True
                else:
                    cnt["resp-trailers"] += 1
                    if s["pd"] == 0:
                        cnt["resp-zero-data"] += 1
                    if f[3]:
                        s["done"] = True
            elif k == D:
                s["qd" if d == REQ else "pd"] += 1
                if f[3]:
                    if d == REQ:
                        s["q"] = False
                        if s["qd"] == 1 and not f[4]:
                            cnt["req-zero-data"] += 1
                    else:
                        s["done"] = True
                        if s["pd"] == 1 and not f[4]:
                            cnt["resp-zero-data"] += 1
            else:
                cnt["rst-by-%s/req-%s/resp-%s" % ("client" if d == REQ else "server", "open" if s["q"] else "closed",
                                                 "open" if s["p"] else "none")] += 1
                s["done"] = True
        elif k == GOAWAY:
            live = [sid for sid, s in st.items() if not s["done"]]
            lo = [x for x in live if x <= f[2]]
            hi = [x for x in live if x > f[2]]
            cnt["goaway"] += 1
            if lo and hi:
                cnt["goaway-open-streams-both-sides"] += 1
            elif hi:
                cnt["goaway-open-streams-above-only"] += 1
            elif lo:
                cnt["goaway-open-streams-below-only"] += 1
            for x in hi:
                st[x]["done"] = True
                cnt["goaway-abandons-req-%s/resp-%s" % ("open" if st[x]["q"] else "closed", "open" if st[x]["p"] else "none")] += 1


# ----------------------------------------------------------------------------------------------
# (2f) the CONFIGURATION of the tracer's HPACK decoders and framer (seeded C15-15: decoders built with the protocol
# default 4096 instead of an unlimited table - invisible as long as no peer ever resizes its table)
# ----------------------------------------------------------------------------------------------
S_HEADER_TABLE_SIZE, S_MAX_FRAME_SIZE, S_MAX_HEADER_LIST_SIZE = 1, 5, 6


def wide_fields(tag, k, vlen=90):
    """k distinct header fields (each a dynamic table entry of ~ vlen + 40 bytes)"""
    return [("x-%s-%03d" % (tag, i), ("%s%03d-" % (tag, i)) * (vlen // (len(tag) + 4))) for i in range(k)]


def table_stream(sid, name, path, qf, pf, ncont=0):
    """a gRPC stream whose request / response HEADERS carry the given extra fields"""
    b = base_stream(sid, name, path, ncont=(ncont, ncont, 0))
    b[0] = b[0][:4] + (b[0][4] + qf,) + b[0][5:]
    b[2] = b[2][:4] + (b[2][4] + pf,) + b[2][5:]
    return b


def table_exchanges(rng):
    """-> [(label, frames)]: one peer announces SETTINGS_HEADER_TABLE_SIZE (above / below / at the default 4096, once
    or twice), the other peer's encoder adopts it (its next header block opens with dynamic table size updates) and
    fills the table with distinct fields well beyond 4096 bytes; later streams repeat the fields, so their blocks
    are index references into the enlarged table - in both directions, at the start of the connection and between
    two streams."""
    out = []
    for val in (8192, 65536, 1 << 20):
        k = 50 if val == 8192 else 90          # 50 x ~130 = 6.5 KB; 90 x ~130 = 11.7 KB of table
        qf, pf = wide_fields("q", k), wide_fields("p", k)
        sq = [(RESP, SETTINGS, 0, (S_HEADER_TABLE_SIZE, val)), (REQ, SETTINGS, 1)]
        sp = [(REQ, SETTINGS, 0, (S_HEADER_TABLE_SIZE, val)), (RESP, SETTINGS, 1)]
        s1 = table_stream(1, "Suite/cfg/t%d-1" % val, "/svc.S/T1", qf, pf, ncont=rng.choice([0, 1]))
        s3 = table_stream(3, "Suite/cfg/t%d-3" % val, "/svc.S/T3", qf, pf)
        s5 = table_stream(5, "Suite/cfg/t%d-5" % val, "/svc.S/T5", list(reversed(qf)), pf[::2])
        out.append(("table-size-%d/at-start" % val, sq + sp + s1 + s3 + s5))
        out.append(("table-size-%d/between-streams" % val, s1 + sq + s3 + sp + s5))
        out.append(("table-size-%d/one-direction" % val, (sq if val != 65536 else sp) + s1 + [s3[0]] + merge(rng, [s3[1:], s5])))
    qf, pf = wide_fields("q", 40), wide_fields("p", 40)
    # lowered to 0 and raised again before the next block (two updates in one block: RFC 7541 4.2), lowered only,
    # and the sizes around the default
    for label, vals in (("0-then-65536", (0, 65536)), ("100", (100,)), ("4095", (4095,)), ("4096", (4096,)), ("4097", (4097,)),
                        ("65536-then-4097", (65536, 4097))):
        pre = []
        for v in vals:
            pre += [(RESP, SETTINGS, 0, (S_HEADER_TABLE_SIZE, v)), (REQ, SETTINGS, 1),
                    (REQ, SETTINGS, 0, (S_HEADER_TABLE_SIZE, v)), (RESP, SETTINGS, 1)]
        s1 = table_stream(1, "Suite/cfg/s%s-1" % label, "/svc.S/U1", qf, pf)
        s3 = table_stream(3, "Suite/cfg/s%s-3" % label, "/svc.S/U3", qf, pf)
        out.append(("table-size-%s" % label, s1[:3] + pre + s1[3:] + s3))
    return out


def hp_int(prefix_bits, first, v):
    """RFC 7541 5.1"""
    lim = (1 << prefix_bits) - 1
    if v < lim:
        return bytes([first | v])
    out = [first | lim]
    v -= lim
    while v >= 128:
        out.append(v % 128 + 128)
        v //= 128
    out.append(v)
    return bytes(out)


def hp_block(updates, fields):
    """a header block written by hand: dynamic table size updates, then every field as a literal without indexing
    with a new name (the dynamic table stays empty: the block's meaning does not depend on the table)"""
    b = b"".join(hp_int(5, 0x20, v) for v in updates)
    for n, v in fields:
        n, v = n.encode(), v.encode()
        b += b"\x00" + hp_int(7, 0, len(n)) + n + hp_int(7, 0, len(v)) + v
    return b


def raw_frame(typ, flags, sid, payload):
    return len(payload).to_bytes(3, "big") + bytes([typ, flags]) + sid.to_bytes(4, "big") + payload


UPDATE_SIZES = [0, 1, 30, 31, 32, 4095, 4096, 4097, 8191, 8192, 8193, 65535, 65536, 65537, 1 << 20, (1 << 24) + 5,
                (1 << 31) - 1, 1 << 31, (1 << 32) - 2, (1 << 32) - 1, 1 << 32, (1 << 32) + 1, 1 << 35]


def update_case(name, uq, up, ut):
    """one gRPC stream, bytes written by hand: the request block opens with the size updates uq, the response
    header block with up, the trailers with ut.  -> (preface-less frames list for build_ops, reqb, respb, reqt, respt, lens)"""
    fq = [(":method", "POST"), (":scheme", "http"), (":authority", "h"), (":path", "/svc.S/V"), ("content-type", GRPC),
          ("x-test-case-name", name)]
    fp = [(":status", "200"), ("content-type", GRPC)]
    ft = [("grpc-status", "0")]
    bq, bp, bt = hp_block(uq, fq), hp_block(up, fp), hp_block(ut, ft)
    big = max(uq + up + ut + [4096])
    # the announcement that makes the updates legal (a SETTINGS value is 32 bits; what does not fit cannot be announced)
    ann = raw_frame(4, 0, 0, (1).to_bytes(2, "big") + min(big, (1 << 32) - 1).to_bytes(4, "big"))
    ack = raw_frame(4, 1, 0, b"")
    msg = envelope(0, b"abc")
    units = [(RESP, ann), (REQ, ack), (REQ, ann), (RESP, ack),
             (REQ, raw_frame(1, 4, 1, bq)), (REQ, raw_frame(0, 1, 1, msg)),
             (RESP, raw_frame(1, 4, 1, bp)), (RESP, raw_frame(0, 0, 1, msg)), (RESP, raw_frame(1, 5, 1, bt))]
    reqb = PREFACE + b"".join(u for d, u in units if d == REQ)
    respb = b"".join(u for d, u in units if d == RESP)
    tbl = lambda blk, fs: [blk, [[n.encode(), v.encode()] for n, v in fs]]
    frames = [(d, RAW) for d, _ in units]
    lens = [(d, len(u)) for d, u in units]
    return frames, reqb, respb, [tbl(bq, fq)], [tbl(bp, fp), tbl(bt, ft)], lens


def frame_size_exchanges(rng):
    """-> [(label, frames)]: frames and header blocks beyond the default SETTINGS_MAX_FRAME_SIZE 16384 (the receiving
    peer raised it), CONTINUATION chains whose total is far above 16 KiB, header values of tens of KiB"""
    out = []
    raise_q = [(RESP, SETTINGS, 0, (S_MAX_FRAME_SIZE, 1 << 20), (S_MAX_HEADER_LIST_SIZE, 1 << 24)), (REQ, SETTINGS, 1)]
    raise_p = [(REQ, SETTINGS, 0, (S_MAX_FRAME_SIZE, (1 << 24) - 1)), (RESP, SETTINGS, 1)]
    for n in (16384, 16385, 16384 + 9, 40000, 70000):
        payload = bytes(rng.randrange(256) for _ in range(64)) * (n // 64 + 1)
        m = envelope(0, payload[:n - 5 - 3])
        b = base_stream(1, "Suite/cfg/d%d" % n, "/svc.S/D")
        b[1] = (REQ, D, 1, 0, m + envelope(0, b"ab")[:3], -1)          # a DATA frame of exactly n bytes
        b[4] = (REQ, D, 1, 1, envelope(0, b"ab")[3:], -1)
        b[3] = (RESP, D, 1, 0, m[:4], -1)
        b[5] = (RESP, D, 1, 0, m[4:] + envelope(1, b""), -1)           # n - 4 + 5 bytes
        out.append(("data-frame-%d" % n, raise_q + raise_p + b))
    for label, k, vlen, nc in (("headers-frame-40k", 30, 1300, (0, 0, 0)), ("continuation-chain-60k", 40, 1500, (3, 5, 0)),
                               ("continuation-chain-40k/2", 30, 1300, (1, 1, 0)), ("header-value-30k", 2, 30000, (0, 2, 0))):
        qf, pf = wide_fields("q", k, vlen), wide_fields("p", k, vlen)
        b = base_stream(1, "Suite/cfg/h-%s" % label, "/svc.S/H", ncont=nc)
        b[0] = b[0][:4] + (b[0][4] + qf,) + b[0][5:]
        b[2] = b[2][:4] + (b[2][4] + pf,) + b[2][5:]
        b[6] = b[6][:4] + (b[6][4] + wide_fields("t", 3, vlen),) + b[6][5:]
        out.append((label, raise_q + raise_p + b + resid(base_stream(1, "Suite/cfg/h2-%s" % label, "/svc.S/H2"), 3)))
    return out


class C15(Prop):
    id = "C15"
    props = "C15_Props"
    coq_files = ("Base", "C15_Consts", "C15_Model", "C15_Spec", "C15_SpecL2", "C15_SpecL3", "C15_Proofs", "C15_ProofsL2b", "C15_Cfg",
                 "C15_ProofsL3", "C15_ProofsL3b", "C15_Props")
    consts = ("tr",)
    models = ("C15_Model",)
    packages = {"tr": "internal/tracer"}
    kinds = {"c15.conn": "tr", "c15.fuzz": "tr"}
    go_timeout = 900
    rule = ("c15.conn: generated multi-stream HTTP/2 exchanges (1-4 streams; gRPC / gRPC-web / Connect streaming / unary; HEADERS split "
            "into 0-2 CONTINUATIONs, padding, priority; DATA cut at arbitrary points; request trailers; RST_STREAM from either side; "
            "refused-and-retried; unnamed streams; GOAWAY (also at every position of three open streams); every production of the grammar of well-formed streams (RST by either peer after every prefix, trailers-only, zero DATA, CONTINUATION chains, late frames); Reads delivering bytes together with a timeout / EOF / error at every position; PING/SETTINGS/WINDOW_UPDATE/PRIORITY/PUSH_PROMISE/unknown-type noise; one "
            "structurally malformed frame or a bad preface; ILL-FORMED ORDERS bounded-exhaustively: every state of a stream's table entry (none / "
            "request open / half-closed / response DATA before response HEADERS / response open / closed; named and nameless) followed by every "
            "sequence of <= 2 frames from either direction out of HEADERS(+END_STREAM, +CONTINUATION), stray CONTINUATION, DATA(+END_STREAM), "
            "RST_STREAM, GOAWAY below/at/above the stream, WINDOW_UPDATE, PING, unknown type, Close, retry timer - client and server conn - and "
            "every sequence of 3 frames handleFrame acts on) synthesised by x/net/http2's Framer + hpack.Encoder (dynamic table shared per "
            "direction), x random interleavings (all interleavings of two short streams in the exhaustive part) x chunkings (one op per "
            "frame, random cuts, byte-by-byte, maximal), played through the real TracingHTTP2Conn over a scripted net.Conn on client and "
            "server side, with scripted Read/Write/Close errors, short writes and retry-timer expiry; compared: per op the count, error and "
            "bytes seen by the caller / handed to the inner conn, `broken` per direction, open stream ids, parked names, and every completed "
            "trace (name, request line, headers, trailers, status, events with envelopes/lengths/indices, end-stream content, error). "
            "DECODER / FRAMER CONFIGURATION: SETTINGS_HEADER_TABLE_SIZE raised (8192, 65536, 2^20), lowered (0, 100, 4095) or set around the "
            "default by either peer - at the start and between streams - and adopted by the other peer's hpack.Encoder (its next block opens "
            "with dynamic table size updates, the table is filled far beyond 4096 bytes and later blocks are index references into it); header "
            "blocks written by hand opening with size updates at every boundary (0..32, 4095-4097, 8191-8193, 65535-65537, 2^20, 2^24, 2^31, "
            "2^32-2, 2^32-1 accepted; 2^32, 2^32+1, 2^35 a decoding error) on request headers / response headers / trailers; DATA frames of "
            "16384 / 16385 / 40000 / 70000 bytes, a 40 KB HEADERS frame, CONTINUATION chains of 40-60 KB, 30 KB header values; "
            "c15.fuzz: arbitrary and bit-flipped byte streams, passthrough + never-crash only. Extra: limits probe through the real tracer "
            "(DATA frames of 2^24-1 bytes, 2 MiB header blocks, a 9 MiB header value: one complete trace each) and the decoder limits read "
            "off the constructed connection into C15_Consts.v")
    trusted_base = ("Coq 8.16.1 kernel", "extraction (ExtrOcamlBasic only) + ocaml/driver.ml",
                    "vlib generators/comparator, Go overlay harness (harness/C15)",
                    "modelled not verified: HPACK decoding (x/net/http2/hpack) is an oracle: a function of the header blocks seen so far in "
                    "one direction; the run instantiates it with the table of what the real hpack.Encoder was given; modelled on top of it: "
                    "the decoder's configured table limit (a block opening with a dynamic table size update above it is refused; RFC 7541 "
                    "5.1/6.3 integer decoding transcribed from hpack.readVarInt); the limits are read off the real connection by reflection "
                    "on hpack.Decoder.dynTab (allowedMaxSize, maxSize)",
                    "modelled not verified: end-stream decompression (identity only in the generated exchanges), time.AfterFunc (the timer "
                    "is the explicit action TimesUp)")
    assumptions = ("handleFrame, cancelAll and the retry collector's methods are each one critical section (c.mu / h.mu), and Read and "
                   "Write feed distinct frame tracers, so any concurrent execution is a list of model ops",
                   "the inner net.Conn returns 0 <= n <= len(buf)",
                   "x/net/http2's Framer accepts/rejects frames as parse_buf says (frame.go v0.37.0 transcribed; exercised on every run, "
                   "including one malformation per frame type)")
    level_text = ("Machine-checked proof (Coq, 31 theorems). L1: every Read/Write/Close returns exactly the inner conn's bytes, count and "
                  "error from ANY tracer state; for any op list, bytes and HPACK behaviour the run exists (never_crashes: no nil "
                  "dereference reachable - the model carries `builder == nil` of the response dataTracer explicitly (d_hasb; dt_flush = None when "
                  "an event would need the missing builder) and close_stream / abandon_resp mirror the code's guards branch by branch -, "
                  "stream-table invariant); every chunk the inner Reads deliver - with or without an error - and "
                  "everything handed to Write goes through the frame tracers, a Read with bytes and an error traces first and handles the "
                  "error afterwards (all_bytes_traced, read_error_after_tracing). L2: for ALL byte streams, ALL partitions into chunks and "
                  "ANY decoder, chunk by chunk = one call on the concatenation (state and frames; preface, 9-byte header, payload, header "
                  "blocks continued in CONTINUATION frames); broken is absorbing; and against an independent one-shot spec written from RFC 9113 "
                  "(preface, split by the 9-byte header's length field, header blocks joined, each unit through the framer, stop at the "
                  "first rejection) the emitted frames are exactly spec_frames of the direction's byte stream, for all chunkings "
                  "(frames_are_split_frames, chunks_are_split_frames). L3: (a) for ALL lists of decoded frames the traces a "
                  "stream completes and its final state are those of the run over its own frames and GOAWAYs (stream_independent); (b) "
                  "C15_SpecL3.exchange is a grammar of well-formed streams over decoded frames (request HEADERS, DATA*, END_STREAM on "
                  "DATA/trailers/HEADERS; response HEADERS, DATA*, END_STREAM on DATA/trailers/HEADERS; both directions interleaved; "
                  "RST_STREAM by either peer anywhere; late frames) generating the expected trace with the frames; for EVERY exchange the "
                  "model completes exactly that one trace iff the request carries a test name (single_stream_trace_content), hence for ANY "
                  "interleaving of ANY number of well-formed streams the multiset of completed traces is the multiset of the expected ones "
                  "(wellformed_interleaving_traces); (c) a stream id without test name never completes a trace, for all frame lists "
                  "(no_name_no_trace); (d) GOAWAY(last) leaves every stream <= last exactly as without it and abandons every stream above "
                  "it exactly as setMaxStreamIDLocked does, for good (goaway_keeps_lower, goaway_cancels_higher[_any]); (e) the retry "
                  "collector delivers only the retry's trace after a retryable refusal, and the parked one exactly once when no retry "
                  "comes; (f) decoder configuration: HPACK decoding is an oracle, but which blocks a decoder REFUSES because of the "
                  "dynamic-table limit TracingHTTP2Conn builds it with is modelled (cfg_dec: a block opening with a dynamic table size update "
                  "above the limit); well-formed traffic = the receiver announced SETTINGS_HEADER_TABLE_SIZE = any 32-bit value and the blocks' "
                  "size updates stay below it, i.e. the receiver's own decoder is cfg_dec allowed dec; with decoders built with math.MaxUint32 the "
                  "tracer decodes exactly what the receiver decodes for EVERY negotiable size and ANY oracle, emits the receiver's frames for all "
                  "byte streams and chunkings and whole runs coincide (unlimited_decodes_what_the_receiver_decodes, "
                  "tracer_frames_are_the_receivers_frames, tracer_runs_as_with_the_receivers_decoders), so every theorem above (all hold for "
                  "ANY decoder) speaks about the fields the receiver sees; a limit suffices iff it is >= 2^32-1 (limit_suffices_iff; the "
                  "protocol default 4096 is refuted by a concrete block, Example limit_4096_refuted); the limits the compiled code gives its "
                  "four decoders are read off the constructed connection on every run and proved sufficient (configured_decoders_suffice, "
                  "configured_decoders_complete). The model is tied to http2.go on every run by the differential check, whose generator goes "
                  "through every production of the grammar (counted in evidence: grammar_shapes) and through table sizes negotiated above and "
                  "below 4096 by either peer with the table actually used (cfg/* shapes).")
    level_note = ("Gaps: the grammar leaves out 1xx response HEADERS, request HEADERS arriving after the stream is over, and streams ended "
                  "by cancelAll (connection close; modelled and exercised, not in a content theorem); wellformed_interleaving_traces "
                  "excludes GOAWAY inside the interleaving (GOAWAY is covered by goaway_keeps_lower / goaway_cancels_higher plus "
                  "stream_independent, whose projection keeps GOAWAYs); goaway_keeps_lower assumes no earlier GOAWAY already cut the stream "
                  "off (the code overwrites maxStreamID); last-stream-id 0 is stored as `no limit` by the code (quirk, recorded). Expected "
                  "messages are defined by threading the envelope parser over the DATA payloads; equality with one parse of the whole body "
                  "is C14's theorem, not re-proved for this model's dt_*. From completions to collector deliveries only the refusal/retry "
                  "patterns are proved. spec_frames still uses parse_buf (the transcription of Framer.ReadFrame) for a single unit. "
                  "The framer emitFrame builds has the library's defaults: frames up to 2^24-1 bytes (the protocol maximum: no legal "
                  "frame is refused; probed on every run), header lists up to 16 MiB and header strings up to 16 MiB - beyond that the "
                  "library truncates the field list silently or fails (the tracer: fields missing / broken); the model has NO such limit, "
                  "the generated traffic stays below it (largest: 9 MiB value in the probe) and 16 MiB is also the limit of the grpc-go "
                  "peers the tracer is installed in (grpcclient / grpcserver), so this is recorded as a boundary of the check, not a finding. "
                  "The tracer's decoders START at 2^32-1 too instead of 4096 (they never evict until a size update arrives): harmless for "
                  "decoding (indices count from the newest entry), memory only. "
                  "Trusted: Coq kernel, extraction, OCaml driver, harness, generator. HPACK decoding is an oracle (function of the "
                  "direction's header-block history; only the table-limit refusal is modelled on top of it); Framer.ReadFrame's structural checks are transcribed from x/net v0.37.0 and compared "
                  "on every run; dataTracer's uint32 subtraction `expecting - uint32(actual)` is modelled with its wrap-around (dt_need: reached "
                  "only when response DATA precedes the response HEADERS); compression of end-stream messages is outside the modelled fragment (identity only); strconv.Atoi signs "
                  "in :status not modelled; time.AfterFunc is the explicit TimesUp action; lock-region atomicity assumed.")
    technique = "Coq: chunking independence by a trace-append lemma, stream independence by simulation over arbitrary frame lists, trace content by a grammar of well-formed streams + simulation; differential run"

    def nontrivial(self, case, res):
        if case[0] == "c15.fuzz":
            return True
        return "#5375697465" in res  # a completed trace of a "Suite..." test

    def describe(self, case, g, m):
        if g is not None and "6372617368" in g:
            return "the tracing connection PANICKED (the property demands it never crashes)"
        if case[0] == "c15.fuzz":
            return "passthrough differs: bytes/counts/errors seen through the tracing conn are not the inner conn's"
        return "traces / passthrough differ from the proved model"

    def extra(self, ctx):
        """regression probe for the hostile end-stream length (DESIGN.md section 9 #19, fixed in /repo a5f7fc6 by C14):
        a response envelope announcing 0xFFFFFFFF bytes must not make the tracer allocate anything like it"""
        out = os.path.join(ctx.work, "alloc.out")
        core.run_go(ctx.bin("tr"), self.packages["tr"], "/dev/null", out, timeout=120, testname="TestVerifC15Alloc")
        body = open(out).read().strip()
        ctx.notes["alloc_probe"] = body
        # how often each production of the grammar C15_SpecL3.exchange (and GOAWAY / bytes-with-error shape) occurred in
        # the generated exchanges of this run (abstract exchanges, before they are multiplied by chunkings and sides)
        ctx.notes["grammar_shapes"] = dict(sorted(getattr(self, "_shapes", {}).items()))
        try:
            alloc = int(body.split("total_alloc_delta=")[1].split()[0])
        except (IndexError, ValueError):
            raise core.HarnessError("C15 alloc probe: unreadable output %r" % body)
        viol = self._limits_probe(ctx)
        if viol:
            return viol
        if alloc > (64 << 20):
            return [core.Violation("tracer allocated %d bytes for an end-stream envelope that only announced its length" % alloc,
                                   "; C15 TestVerifC15Alloc: response DATA 80 ff ff ff ff 00 on a traced gRPC stream: %s\n" % body,
                                   "no-failing-input-found")]
        return []

    def _limits_probe(self, ctx):
        """traffic too large for case files, through the real tracer (harness: TestVerifC15Limits): DATA frames of
        2^24-1 bytes (the largest SETTINGS_MAX_FRAME_SIZE), a 2 MiB header block in 16 KiB CONTINUATIONs / in one
        HEADERS frame, a 9 MiB header value.  The model has no size limit anywhere, so its answer is known: exactly
        one trace, with the whole message in both directions and the whole header value."""
        out = os.path.join(ctx.work, "limits.out")
        core.run_go(ctx.bin("tr"), self.packages["tr"], "/dev/null", out, timeout=300, testname="TestVerifC15Limits")
        lines = [l.strip() for l in open(out) if l.strip()]
        ctx.notes["limits_probe"] = lines
        if len(lines) != 10:
            raise core.HarnessError("C15 limits probe: %d lines instead of 10" % len(lines))
        bad = []
        for l in lines:
            kv = dict(x.split("=", 1) for x in l.split()[1:])
            if not (kv["traces"] == "1" and kv["broken"] == "0" and kv["reqmsg"] == kv["want-msg"] == kv["respmsg"]
                    and kv["hdr"] == kv["want-hdr"]):
                bad.append(l)
        if bad:
            return [core.Violation("well-formed traffic with large frames / header blocks is not traced: " + bad[0],
                                   "; C15 TestVerifC15Limits (one gRPC stream; expected: one trace, both messages and the header "
                                   "value complete):\n; " + "\n; ".join(bad) + "\n", "no-failing-input-found")]
        return []

    # ------------------------------------------------------------------------------------------
    def _synth(self, items):
        """items: list of (preface, frames) -> list of (reqBytes, respBytes, reqTable, respTable, lens)"""
        binp = core.go_test_bin(self, self.packages["tr"])
        work = os.path.join(core.BUILD, self.id, "synth")
        os.makedirs(work, exist_ok=True)
        inp, outp = os.path.join(work, "in.sx"), os.path.join(work, "out.sx")
        with open(inp, "w") as f:
            for i, (pre, frames) in enumerate(items):
                f.write(core.sx([i, pre, [list(fr) for fr in frames]]) + "\n")
        core.run_go(binp, self.packages["tr"], inp, outp, timeout=300, testname="TestVerifC15Synth")
        out = []
        for line in open(outp):
            line = line.strip()
            if line:
                v = core.parse_sx(line)
                out.append((v[1], v[2], v[3], v[4], [(a, b) for a, b in v[5]]))
        if len(out) != len(items):
            raise core.HarnessError("C15 synth returned %d of %d exchanges" % (len(out), len(items)))
        return out

    @staticmethod
    def _case(kind, side, reqb, respb, reqt, respt, ops):
        if side == 1:
            R, W, TR, TW = reqb, respb, reqt, respt
        else:
            R, W, TR, TW = respb, reqb, respt, reqt
        chk = h_sx(0, [R, W, TR, TW])
        return [kind, side, R, W, TR, TW, chk, ops]

    def generate(self, rng, tier):
        quick = tier == "quick"
        items = []   # (preface, frames, modes, sides)
        shapes = self._shapes = collections.Counter()
        malformed_items = set()
        # (1) bounded-exhaustive: every interleaving of two short streams (frame-aligned and byte-wise)
        srng = random.Random(rng.randrange(1 << 30))
        for variant in range(4 if quick else 16):
            ra, pa = mk_stream(srng, 1, "Suite/a/x", "/svc.S/A", True, proto="grpc", ending="normal")
            rb, pb = mk_stream(srng, 3, "Suite/b/y" if variant % 4 else None, "/svc.S/B", True,
                               proto=srng.choice(["connect", "unary"]), ending=srng.choice(["normal", "rst-server"]))
            a = stream_seq(srng, ra, pa)[:6]
            b = stream_seq(srng, rb, pb)[:5 if quick else 6]
            for m in all_merges(a, b):
                items.append((PREFACE, m, ["frame", "rand"], [variant % 2]))
        # (2) random exchanges
        n = 420 if quick else 6000
        for k in range(n):
            ns = rng.choice([1, 2, 2, 3, 3, 4])
            r = rng.random()
            goaway = None
            if r < 0.2:
                goaway = (rng.choice([0, 1, 3, 5, 2 * ns + 1]), rng.choice([0, 0, 2, 11]))
            malformed = rng.random() < 0.15
            if malformed:
                malformed_items.add(len(items))
            pre, frames = gen_exchange(rng, ns, noise=rng.random() < 0.7, goaway=goaway, malformed=malformed,
                                       retry=rng.random() < 0.2)
            # timer expiry of a parked name somewhere after the middle
            if rng.random() < 0.15:
                at = rng.randint(len(frames) // 2, len(frames))
                frames = frames[:at] + [(REQ, TIMESUP, rng.choice(["Suite/retried", "Suite/a/case-0", "Suite/bb/case-1"]))] + frames[at:]
            if rng.random() < 0.05:
                at = rng.randint(1, len(frames))
                frames = frames[:at] + [(REQ, CLOSE, 0)] + frames[at:]
            modes = ["rand", rng.choice(["frame", "max", "rand", "one" if k % 6 == 0 else "rand"])]
            items.append((pre, frames, modes, [k % 2] if k % 5 else [0, 1]))
        # (2b) the productions of the grammar C15_SpecL3.exchange, each with a concurrent stream interleaved at random:
        # RST_STREAM by either peer after every prefix, late frames, CONTINUATION chains, no test name, trailers-only,
        # zero DATA, request trailers, left open
        grng = random.Random(rng.randrange(1 << 30))
        n_shape = 0
        for label, one in shape_streams(grng):
            other = base_stream(3, "Suite/g/other", "/svc.S/O") if grng.random() < 0.5 else \
                stream_seq(grng, *mk_stream(grng, 3, "Suite/g/other", "/svc.S/O", True, ending="normal"))
            frames = [one[0]] + merge(grng, [one[1:], other])
            items.append((PREFACE, frames, ["frame", "rand"], [n_shape % 2]))
            n_shape += 1
        # (2c) GOAWAY at every position of three interleaved streams (ids 1, 3, 5), last-stream-id 1 and 3: open streams
        # on both sides of the cut, in every phase
        three = merge(grng, [base_stream(1, "Suite/g/ga1", "/svc.S/A"), resid(base_stream(1, "Suite/g/ga3", "/svc.S/B"), 3),
                             resid(base_stream(1, None if quick else "Suite/g/ga5", "/svc.S/C"), 5)])
        for pos in range(1, len(three) + 1):
            for last in (1, 3):
                if not quick or (pos + last // 2) % 2 == 0 or pos < 8:
                    code = grng.choice([0, 0, 2])
                    items.append((PREFACE, three[:pos] + [(RESP, GOAWAY, last, code, b"")] + three[pos:], ["frame"], [pos % 2]))
        for i, it in enumerate(items):
            if i not in malformed_items:
                count_shapes(it[1], shapes)
        synth = self._synth([(p, f) for p, f, _, _ in items])
        fuzz_src = []
        for (pre, frames, modes, sides), (reqb, respb, reqt, respt, lens) in zip(items, synth):
            for side in sides:
                for mode in modes:
                    tail = tail_ops(rng, side)
                    # Reads that deliver bytes TOGETHER with an error: timeouts anywhere (not fatal), and io.EOF / another
                    # error on the last Read that carries bytes (the bytes are traced first, then cancelAll)
                    p_timeout = rng.choice([0, 0, 0, 0.1, 0.4, 1.0])
                    ops = build_ops(rng, side, len(pre), frames, lens, mode, tail, p_timeout)
                    if rng.random() < 0.15:
                        idx = [i for i, o in enumerate(ops) if o[0] == 0 and o[1] > 0]
                        if idx:
                            ops[idx[-1]] = [0, ops[idx[-1]][1], rng.choice([1, 3])]
                    if rng.random() < 0.12:
                        # a read timeout in the middle is not fatal: nothing may be cancelled
                        ops.insert(rng.randint(0, len(ops)), [0, 0, 2])
                    for o in ops:
                        if o[0] == 0 and o[1] > 0 and o[2] != 0:
                            shapes["read-bytes-with-%s" % {1: "eof", 2: "timeout", 3: "error"}[o[2]]] += 1
                    yield self._case("c15.conn", side, reqb, respb, reqt, respt, ops)
            if len(fuzz_src) < 200:
                fuzz_src.append((reqb, respb))
        # (2d) bytes with an error at EVERY Read of two exchanges (one op per frame, and cut inside the frames), both
        # sides: timeout (goes on), io.EOF and another error (cancelAll after the bytes were traced) - including the Read
        # that carries the trailers / END_STREAM
        ex1 = base_stream(1, "Suite/g/err1", "/svc.S/E")
        ex2 = [ex1[0]] + merge(grng, [ex1[1:], resid(base_stream(1, "Suite/g/err3", "/svc.S/F"), 3)])
        for (reqb, respb, reqt, respt, lens), frames in zip(self._synth([(PREFACE, ex1), (PREFACE, ex2)]), (ex1, ex2)):
            for side in (0, 1):
                for mode in ("frame", "rand"):
                    base = build_ops(grng, side, len(PREFACE), frames, lens, mode, [[2, 0]])
                    for i, op in enumerate(base):
                        if op[0] == 0 and op[1] > 0:
                            for e in (2, 1, 3):
                                shapes["read-bytes-with-%s" % {1: "eof", 2: "timeout", 3: "error"}[e]] += 1
                                yield self._case("c15.conn", side, reqb, respb, reqt, respt, base[:i] + [[0, op[1], e]] + base[i + 1:])
        # (2e) ill-formed sequences, bounded-exhaustive: every state of a stream's table entry (none / request open /
        # half-closed / response DATA before response HEADERS / response open / closed; named and nameless) followed
        # by every sequence of <= 2 frames of either direction out of HEADERS(+END_STREAM, +CONTINUATION), a stray
        # CONTINUATION, DATA(+END_STREAM), RST_STREAM, GOAWAY below/at/above the stream, WINDOW_UPDATE, PING, an
        # unknown type, Close, the retry timer - on the client and on the server side - and by every sequence of 3
        # frames out of the ones handleFrame acts on; one op per frame
        seqs = list(st_sequences(quick))
        for (label, labs, frames, sides), (reqb, respb, reqt, respt, lens) in zip(seqs, self._synth([(PREFACE, s[2]) for s in seqs])):
            shapes["state-seq/%s" % label] += len(sides)
            shapes["state-seq-len-%d" % len(labs)] += len(sides)
            for side in sides:
                yield self._case("c15.conn", side, reqb, respb, reqt, respt,
                                 build_ops(grng, side, len(PREFACE), frames, lens, "frame", []))
        # (2f) decoder / framer configuration: SETTINGS_HEADER_TABLE_SIZE raised / lowered by either peer and adopted by
        # the other one's encoder (table filled far beyond 4096 bytes and referenced), dynamic table size updates
        # around every boundary written by hand, frames and header blocks beyond 16384 bytes
        cfg = table_exchanges(grng) + frame_size_exchanges(grng)
        for (label, frames), (reqb, respb, reqt, respt, lens) in zip(cfg, self._synth([(PREFACE, f) for _, f in cfg])):
            big = len(reqb) + len(respb) > 60000
            nupd = sum(1 for blk, _ in reqt + respt if blk[:1] and 0x20 <= blk[0] < 0x40)
            shapes["cfg/" + label.split("/")[0]] += 1
            shapes["cfg/blocks-opening-with-a-table-size-update"] += nupd
            if label.startswith("table-size-") and label.split("/")[0] not in ("table-size-4096",) and nupd == 0:
                raise core.HarnessError("C15 generator: %s produced no dynamic table size update" % label)
            for side in (0, 1):
                for mode in (("frame",) if big else ("frame", "rand")):
                    yield self._case("c15.conn", side, reqb, respb, reqt, respt,
                                     build_ops(grng, side, len(PREFACE), frames, lens, mode, [[2, 0]]))
        k = 0
        for v in UPDATE_SIZES:
            for where in range(4):
                k += 1
                uq, up, ut = (([v], [], []), ([], [v], []), ([], [], [v]), ([min(v, 17), v], [v, v], [0, v]))[where]
                frames, reqb, respb, reqt, respt, lens = update_case("Suite/cfg/u%d-%d" % (v, where), uq, up, ut)
                shapes["cfg/size-update-%s" % ("above-2^32-1" if v >= 1 << 32 else "above-4096" if v > 4096 else "upto-4096")] += 1
                for side in ((0, 1) if not quick or v >= 4096 else (k % 2,)):
                    yield self._case("c15.conn", side, reqb, respb, reqt, respt,
                                     build_ops(grng, side, len(PREFACE), frames, lens, "frame" if k % 3 else "rand", [[2, 0]]))
        # (3) every split of a short exchange into two reads / two writes
        pre, frames = gen_exchange(random.Random(7), 2, noise=False)
        (reqb, respb, reqt, respt, lens), = self._synth([(pre, frames)])
        base = build_ops(rng, 1, len(pre), frames, lens, "frame", [[2, 0]])
        for i, op in enumerate(base):
            if op[0] in (0, 1) and op[1] > 1:
                for c in range(1, op[1]):
                    two = [[0, c, 2 if c % 3 == 0 else 0], [0, op[1] - c, 0]] if op[0] == 0 else \
                        [[1, c, c, 0], [1, op[1] - c, op[1] - c, 0]]
                    if two[0][0] == 0 and two[0][2] == 2:
                        shapes["read-bytes-with-timeout"] += 1
                    yield self._case("c15.conn", 1, reqb, respb, reqt, respt, base[:i] + two + base[i + 1:])
        # (4) arbitrary bytes and mutated valid streams: passthrough and never-crash
        nf = 500 if quick else 20000
        for k in range(nf):
            if k % 2 == 0 or not fuzz_src:
                R = bytes(rng.randrange(256) for _ in range(rng.randint(0, 120)))
                W = bytes(rng.randrange(256) for _ in range(rng.randint(0, 120)))
                if rng.random() < 0.5:
                    # plausible frame headers with small lengths
                    def fr():
                        p = bytes(rng.randrange(256) for _ in range(rng.randint(0, 20)))
                        return bytes([0, 0, len(p), rng.choice([0, 1, 1, 3, 4, 6, 7, 8, 9, rng.randrange(256)]), rng.randrange(256)]) + \
                            bytes([0, 0, 0, rng.randrange(6)]) + p
                    R = b"".join(fr() for _ in range(rng.randint(1, 6)))
                    W = b"".join(fr() for _ in range(rng.randint(1, 6)))
                    if rng.random() < 0.5:
                        R = PREFACE + R
                    else:
                        W = PREFACE + W
                side = rng.randrange(2)
            else:
                reqb, respb = rng.choice(fuzz_src)
                side = rng.randrange(2)
                R, W = (reqb, respb) if side == 1 else (respb, reqb)
                R, W = bytearray(R), bytearray(W)
                for _ in range(rng.randint(1, 4)):
                    t = rng.choice([R, W])
                    if t:
                        t[rng.randrange(len(t))] = rng.randrange(256)
                R, W = bytes(R), bytes(W)
            ops = []
            r, w = len(R), len(W)
            while r > 0 or w > 0:
                if r > 0 and (w == 0 or rng.random() < 0.5):
                    n = min(r, rng.choice([1, 2, 5, 9, 24, 33, 200]))
                    ops.append([0, n, rng.choice([0] * 12 + [1, 2, 3])])
                    r -= n
                else:
                    n = min(w, rng.choice([1, 2, 5, 9, 24, 33, 200]))
                    ops.append([1, n, rng.choice([n] * 6 + [rng.randint(0, n)]), rng.choice([0] * 12 + [3])])
                    w -= n
            ops += rng.choice([[], [[2, 0]], [[2, 3]], [[0, 0, 1]], [[2, 0], [2, 0]]])
            yield ["c15.fuzz", side, R, W, [], [], h_sx(0, [R, W, [], []]), ops]


PROP = C15()
