"""C13 — reference client wire checks accept well-formed responses, flag malformed ones.

Three stages per run, all against the Go code of the working tree:
  1. oracle `c13.o.render` (referenceserver): structured errors through the REAL encoders
     (grpcStatusTrailers / grpcWebStatusEndStream) -> their output, and what proto.Marshal produced in it;
  2. oracles `c13.o.json`, `c13.o.unstatus`, `c13.o.webstatus` (referenceclient): what the LIBRARIES the examiners
     call (encoding/json, base64 + proto.Unmarshal) answer on the texts the cases carry; the model takes these
     answers as data (its Section variables), the Go side re-checks them on every evaluation (stale -> bad-case);
  3. the differential run proper: model vs Go on the same case file.
"""
import base64
import hashlib
import os

from .. import core
from ..core import Prop

CODE_NAMES = ["canceled", "unknown", "invalid_argument", "deadline_exceeded", "not_found", "already_exists",
              "permission_denied", "resource_exhausted", "failed_precondition", "aborted", "out_of_range",
              "unimplemented", "internal", "unavailable", "data_loss", "unauthenticated"]
TOKEN = b"!#$%&'*+-.^_`|~0123456789abcdefghijklmnopqrstuvwxyzABCDEFGHIJKLMNOPQRSTUVWXYZ"
LOWER_TOKEN = b"!#$%&'*+-.^_`|~0123456789abcdefghijklmnopqrstuvwxyz"
TRIO = (b"grpc-status", b"grpc-message", b"grpc-status-details-bin")


# ---------------------------------------------------------------------------
# protobuf (python side only builds inputs; what Go makes of them comes from the oracles)
# ---------------------------------------------------------------------------
def varint(n):
    n &= (1 << 64) - 1
    out = bytearray()
    while True:
        b = n & 0x7F
        n >>= 7
        if n:
            out.append(b | 0x80)
        else:
            out.append(b)
            return bytes(out)


def ld(field, data):
    return varint(field << 3 | 2) + varint(len(data)) + data


def status_proto(code, msg, details):
    out = b""
    if code:
        out += varint(1 << 3) + varint(code)
    if msg:
        out += ld(2, msg)
    for t, v in details:
        out += ld(3, (ld(1, t) if t else b"") + (ld(2, v) if v else b""))
    return out


def canon(v):
    """the canonical print of the Go side (ints decimal, bytes always #hex)"""
    if isinstance(v, bool):
        return "1" if v else "0"
    if isinstance(v, int):
        return str(v)
    if isinstance(v, (bytes, bytearray)):
        return "#" + bytes(v).hex()
    return "(" + " ".join(canon(x) for x in v) + ")"


def with_digest(args):
    return list(args) + [hashlib.sha1(canon(list(args)).encode()).hexdigest().encode()]


def b64raw(b):
    return base64.b64encode(b).rstrip(b"=")


# ---------------------------------------------------------------------------
# JSON text rendering from a python tree that keeps duplicate keys
#   None | True/False | ('n', literal) | bytes (string) | list | ('o', [(key, val)...])
# ---------------------------------------------------------------------------
def jstr(b, rng=None):
    out = bytearray(b'"')
    for c in b:
        if c == 0x22:
            out += b'\\"'
        elif c == 0x5C:
            out += b"\\\\"
        elif c < 0x20 or c == 0x7F:
            out += b"\\u%04x" % c
        elif c < 0x80 and rng is not None and rng.random() < 0.03:
            out += b"\\u%04x" % c
        else:
            out.append(c)
    out += b'"'
    return bytes(out)


def jrender(t, rng=None):
    def ws():
        if rng is None or rng.random() < 0.8:
            return b""
        return rng.choice([b" ", b"\n", b"\t", b"\r\n ", b"  "])
    if t is None:
        return b"null"
    if t is True:
        return b"true"
    if t is False:
        return b"false"
    if isinstance(t, (bytes, bytearray)):
        return jstr(t, rng)
    if isinstance(t, str):
        return jstr(t.encode(), rng)
    if isinstance(t, list):
        return b"[" + ws() + (b"," + ws()).join(jrender(x, rng) for x in t) + ws() + b"]"
    if isinstance(t, tuple) and t[0] == "n":
        return t[1] if isinstance(t[1], bytes) else t[1].encode()
    if isinstance(t, tuple) and t[0] == "o":
        return b"{" + ws() + (b"," + ws()).join(
            jstr(k if isinstance(k, bytes) else k.encode(), rng) + ws() + b":" + ws() + jrender(v, rng) for k, v in t[1]) + ws() + b"}"
    raise TypeError(t)


def obj(*members):
    return ("o", list(members))


def jt_members(t):
    """members of an object node of an oracle tree ((5 ((k v)...))), else None"""
    if isinstance(t, list) and len(t) == 2 and t[0] == 5:
        return [(bytes(m[0]), m[1]) for m in t[1]]
    return None


def jt_get(t, key):
    ms = jt_members(t)
    if ms is None:
        return None
    for k, v in ms:
        if k == key:
            return v
    return None


def jt_str(t):
    if isinstance(t, list) and len(t) == 2 and t[0] == 3:
        return bytes(t[1])
    return None


def wire_details(err_tree, given):
    """the details a rendered error carries, as the model's renderer wants them: (type value (debug-tree)?).
    Type and value of the first len(given) ones are the INPUT's (so that the comparison of the rendering with the
    model's means something); the debug trees (protojson: outside the model) and the details the server appends
    (request info) are read off the rendering."""
    arr = jt_get(err_tree, b"details")
    elems = arr[1] if isinstance(arr, list) and len(arr) == 2 and arr[0] == 4 else []
    out = []
    for i, d in enumerate(elems):
        dbg = jt_get(d, b"debug")
        if i < len(given):
            ty, val = given[i]
        else:
            ty, v64 = jt_str(jt_get(d, b"type")), jt_str(jt_get(d, b"value"))
            if ty is None or v64 is None:
                return None
            try:
                val = base64.b64decode(v64 + b"=" * (-len(v64) % 4), validate=True)
            except Exception:
                return None
        out.append([ty, val, [] if dbg is None else [dbg]])
    if len(elems) < len(given):
        return None
    return out


class C13(Prop):
    id = "C13"
    props = "C13_Props"
    coq_files = ("Base", "C13_Consts", "C13_Model", "C13_Spec", "C13_Proofs", "C13_Proofs2", "C13_Proofs3", "C13_Proofs4", "C13_Call",
                 "C13_CallProofs", "C13_Props")
    models = ("C13_Call",)      # re-exports C13_Model; its c13_table holds all kinds
    consts = ("rc",)
    packages = {"rc": "internal/app/referenceclient", "rs": "internal/app/referenceserver"}
    kinds = {"c13.eos": "rc", "c13.status": "rc", "c13.binmeta": "rc", "c13.percent": "rc", "c13.classes": "rc",
             "c13.webrt": "rc", "c13.grpcrt": "rc", "c13.cerr": "rc", "c13.ces": "rc", "c13.wire": "rc",
             "c13.nocrash": "rc", "c13.enc": "rs", "c13.cerrrt": "rc", "c13.cesrt": "rc", "c13.invoke": "rc",
             "c13.o.json": "rc", "c13.o.unstatus": "rc", "c13.o.webstatus": "rc", "c13.o.render": "rs",
             "c13.o.cerrrender": "rs", "c13.o.cesrender": "rs"}
    rule = ("c13.classes: all 256 bytes through ShouldEscapeByteInMessage / isValidHTTPFieldName / isValidHTTPFieldValue; "
            "c13.percent: every one-byte message + random UTF-8 / invalid UTF-8 / '%' runs through PercentEncodeMessage, the "
            "grpc-message scanner and url.PathUnescape; c13.enc / c13.webrt / c13.grpcrt: structured errors (codes 0..17 and large, "
            "message byte classes, 0-3 details, well-formed and ill-formed trailer lists) through the REAL grpcStatusTrailers / "
            "grpcWebStatusEndStream, then through the examiners (silent for well-formed input); c13.cerrrt / c13.cesrt: structured errors "
            "and metadata through the REAL reference-server handlers + connect-go in-process (unary Connect error body, end-of-stream "
            "message of a server stream, with / without error): the rendering's value tree must equal the model's wire_error / "
            "wire_end_stream and the examiner must be completely silent (debug data included) on well-formed input; c13.eos: every "
            "single-byte delete / insert / replace and every catalogue line inserted at every line boundary of small real renderings + "
            "grammar-aware random blocks + empty-field-name lines at every position; c13.status: header maps over a catalogue of "
            "grpc-status / grpc-message / grpc-status-details-bin malformations; c13.binmeta; c13.cerr / c13.ces: conformant Connect "
            "error / end-stream JSON (silent, debug data included), EVERY single malformation of a catalogue (delete / duplicate / "
            "case-folded / retyped / unknown member, bad element, bad string) at EVERY node of conformant trees (depth 0-6), null at "
            "each typed key, code_<n> strings, random tree-level malformations, byte-level mutations and fuzz, the tree coming from "
            "the real json.Decoder; c13.wire: examineWireDetails over content types x status x bodies x trailers; c13.nocrash: "
            "arbitrary bytes (up to 200) through every examiner; a panic inside an oracle stage becomes a failing case; c13.invoke: the REAL "
            "invoke() (transport set-up, wire-capture transport, TracingRoundTripper + dataTracer, connect-go, the call sites doUnary / "
            "serverStream / clientStream / bidiStream, invoker.examineWireDetails) against a scripted HTTP/1.1 + h2c server that writes "
            "exactly the status, headers, body (raw or enveloped) and HTTP trailers of the case: every error code 1..16 (0 for gRPC) x "
            "{Connect unary error body, gRPC trailers-only, gRPC message + HTTP trailers, gRPC-Web trailers-only / trailer block, Connect "
            "end-of-stream message} x {well-formed, catalogue malformations} x methods x {HTTP/1.1, h2c}, pool samples of the other kinds' "
            "texts, real renderings of the reference server, end-stream messages of 64 KiB - 1, 64 KiB, 64 KiB + 1, 100 KiB, 1 MiB and ~90 KiB "
            "of metadata rendered by the reference server itself, outside reference mode; compared: http_status_code, feedback classes of "
            "the ClientResponseResult (from the rendered text) and, where the case names it, the error code the client reported. "
            "non-trivial = result carries a feedback class or data; per-class occurrence counts are in the evidence (class_counts, each >= 50)")
    trusted_base = ("Coq 8.16.1 kernel (vm_compute used, native_compute not)", "extraction (ExtrOcamlBasic only) + ocaml/driver.ml",
                    "vlib generators/comparator, Go overlay harness files (incl. the format-string -> class table)",
                    "modelled as oracles, not verified: encoding/json (syntax, token stream, typed Unmarshal views of one tree, "
                    "RawMessage re-parse = subtree), proto.Marshal / proto.Unmarshal of google.rpc.Status, net/http Header.Add; "
                    "projected away: the debug-vs-value comparison of error details (protojson + registry), strings.ToLower on "
                    "non-ASCII trailer keys; in c13.invoke: checkBinaryMetadata on the metadata connect-go decoded (c13.binmeta covers the function), "
                    "det-b64 / det-padded (their rendered text equals checkBinaryMetadata's: kept out of that kind, covered by c13.status / "
                    "c13.wire); compression of the end-stream message and truncated bodies (C14's subject: identity encoding and complete "
                    "envelopes here); connect-go's reading of a response (it reads a stream to its end-stream message; cases keep to "
                    "responses it reads completely); net/http and x/net/http2 as carriers of the scripted response")
    assumptions = ("header / trailer names handed to checkBinaryMetadata and to the encoders are ASCII (strings.ToLower is Unicode-aware)",
                   "proto.Unmarshal(proto.Marshal(s)) = s for google.rpc.Status (hypothesis of the acceptance theorems; sampled on every run)",
                   "encoding/json: Unmarshal into the typed structs, the Decoder token walk and Unmarshal into map[string]any are views of "
                   "one value tree; a RawMessage re-parses to its subtree (sampled on every run)")
    level_text = ("Machine-checked proof (Coq, 60 theorems) that, for the model of wire_details.go and of the reference server's encoders, "
                  "(1) every error (16 codes x all message bytes x all detail lists x all well-formed trailer / metadata lists) rendered by "
                  "grpcStatusTrailers / grpcWebStatusEndStream (gRPC, gRPC-Web) and by the reference server's Connect path (unary error body, "
                  "end-of-stream message with or without error) is examined without feedback; (2) the Connect JSON examiners are silent on a "
                  "value tree EXACTLY when it satisfies the declarative well-formedness predicate (iff, all trees, every depth: duplicate keys, "
                  "per-key checks inside details and metadata), the grpc-message scanner exactly on well-formed percent-encodings, and "
                  "'should end with CRLF' exactly on blocks not ending in LF; (3) every malformation class the checks name yields feedback of "
                  "that class for ALL inputs having it (status trio, base64, agreement, line endings, blank lines, obs-fold / leading white "
                  "space, missing colon, field names / values, upper-case keys, HTTP trailers outside gRPC, code / keys / duplicates); "
                  "(4) no examiner or encoder can crash; (5) the glue from the wire to the feedback field: the end-stream content the examiners read "
                  "off the trace is the WHOLE payload of the first end-stream envelope with content, for every length; every call site of the "
                  "reference client answers with the examination of the call's response whatever error code the RPC ended with (no error, any "
                  "of the 16 codes), so the acceptance theorems (Connect end-of-stream message, gRPC-Web trailer block of the reference server, "
                  "any length) and rejection theorems (unknown key in a unary Connect error, ill-encoded grpc-message of a trailers-only gRPC "
                  "response) hold of the feedback field of the ClientResponseResult. The model is tied to the Go code by a differential run on "
                  "every check (structured inputs through the real encoders and the real reference-server handlers, exhaustive single "
                  "malformations, fuzz, and the real invoke() against a scripted server for the glue).")
    level_note = ("Trusted: Coq kernel, extraction, OCaml driver, harness and its message classifier; the model/Go correspondence is sampled, "
                  "not proved. encoding/json, base64-in-Go vs the modelled base64, proto (un)marshal are oracles whose answers the Go side "
                  "re-validates on each evaluation; connect-go's JSON marshalling of an error / end-of-stream message is modelled (wire_error / "
                  "wire_end_stream) and compared tree-for-tree with the real handler's output, for valid-UTF-8 messages and metadata only "
                  "(what a proto3 string can carry to the server). The debug-data comparison of error details (protojson + registry) is "
                  "outside the model: debug trees are data of the case; the Go side must stay silent about them on real renderings. "
                  "The Connect rejection theorems below the top level state 'some feedback' (not which class): the first problem in document "
                  "order wins in the code, so the class is not determined by the malformation alone. The glue model (C13_Call) takes a response "
                  "body as a list of complete identity-encoded envelopes (the byte-level dataTracer, compression and truncation are C14's model) "
                  "and states the call sites as they are coded (examination unconditional once the stream is set up); that connect-go reads the "
                  "response to its end is trusted and exercised by c13.invoke. Nothing is named _partial.")
    _crashed = ()
    _gen_counts = {}
    _generated = False
    technique = "Coq proof (induction over messages / trailer lists / JSON trees / envelope lists; byte-class facts by 256-sweeps) + differential model-vs-Go correspondence with library oracles, incl. the real client invocation path against a scripted server"

    # feedback classes that a `flags_*` theorem names (or that the iff characterisations cover) and that can occur
    CLASSES = ["eos-nocolon", "eos-name", "eos-upper", "eos-value", "eos-obsfold", "eos-blank-end", "eos-blank", "eos-lf", "eos-nocrlf",
               "st-multi", "st-missing", "st-parse", "st-range", "msg-multi", "msg-hex", "msg-raw", "msg-incomplete", "msg-with-ok",
               "det-multi", "det-b64", "det-padded", "det-proto", "det-code", "det-okdetails", "det-msg", "bin-b64", "bin-padded",
               "http-trailers", "ce-syntax", "ce-type", "ce-null", "ce-dup", "ce-key", "cd-type", "cd-null", "cd-key",
               "es-syntax", "es-type", "es-null", "es-dup", "es-key", "ce-code-kind", "ce-code-name", "ce-message-kind", "ce-details-kind",
               "ce-nocode", "cd-type-kind", "cd-type-name", "cd-value-kind", "cd-value-b64", "cd-notype", "cd-novalue",
               "es-error-kind", "es-meta-kind", "es-meta-name", "es-meta-val-kind", "es-meta-elem-kind", "es-meta-value"]
    MIN_PER_CLASS = 50

    def _count(self, key, n=1):
        self._gen_counts[key] = self._gen_counts.get(key, 0) + n

    def extra(self, ctx):
        """per-class occurrence counts into the evidence: how many evaluated cases the MODEL answers with each feedback class
        (the model's answers equal the implementation's unless a disagreement is reported), plus the generator's own
        structural counters (single malformations by depth ...)"""
        import re
        counts = {c: 0 for c in self.CLASSES}
        pats = {c: re.compile("#" + c.encode().hex() + "(?=[ )])") for c in self.CLASSES}
        silent_rt = 0
        try:
            with open(os.path.join(ctx.work, "main.model.out")) as f:
                for line in f:
                    if "2d" not in line:          # every class tag contains '-'
                        continue
                    for c, pat in pats.items():
                        if pat.search(line):
                            counts[c] += 1
        except OSError:
            return []
        ctx.notes["class_counts"] = counts
        ctx.notes["generator_counts"] = dict(sorted(self._gen_counts.items()))
        short = sorted(c for c, n in counts.items() if n < self.MIN_PER_CLASS)
        ctx.notes["classes_below_%d" % self.MIN_PER_CLASS] = short
        if short and getattr(self, "_generated", False):
            print("C13: WARNING: feedback classes seen fewer than %d times: %s" % (self.MIN_PER_CLASS, ", ".join("%s=%d" % (c, counts[c]) for c in short)))
        return []

    # ------------------------------------------------------------------
    def nontrivial(self, case, res):
        if case[0] in ("c13.classes", "c13.nocrash"):
            return True
        if case[0] == "c13.invoke":
            return not res.startswith("(-1")      # the response was examined (silently or not)
        return "#" in res

    def describe(self, case, g, m):
        return "wire examiner / encoder behaviour differs from the proved model"

    # ------------------------------------------------------------------
    # oracle plumbing
    # ------------------------------------------------------------------
    def _oracle(self, queries, label):
        """queries: list of [kind, payload...] -> list of parsed results (python trees)"""
        if not queries:
            return []
        work = os.path.join(core.BUILD, self.id, "oracle")
        os.makedirs(work, exist_ok=True)
        by_tag = {}
        for i, q in enumerate(queries):
            by_tag.setdefault(self.kinds[q[0]], []).append(core.sx([q[0], i] + list(q[1:])))
        res = {}
        for tag, lines in by_tag.items():
            cp = os.path.join(work, "%s.%s.cases" % (label, tag))
            with open(cp, "w") as f:
                f.write("\n".join(lines) + "\n")
            out = os.path.join(work, "%s.%s.out" % (label, tag))
            binp = core.go_test_bin(self, self.packages[tag])
            core.run_go(binp, self.packages[tag], cp, out, timeout=600)
            for line in open(out):
                line = line.strip()
                if line:
                    v = core.parse_sx(line)
                    res[v[0]] = v[1]
        missing = [i for i in range(len(queries)) if i not in res]
        if missing:
            raise core.HarnessError("C13 oracle %s: no answer for query %d" % (label, missing[0]))
        out = [res[i] for i in range(len(queries))]
        # a panic of the code under test inside an oracle stage is a finding, not a harness error: the query is
        # remembered (generate() turns it into a case the differential run fails on, with a replay) and answered "()"
        for i, (q, r) in enumerate(zip(queries, out)):
            if r == [b"crash"]:
                self._crashed.append(q)
                out[i] = []
        return out

    # ------------------------------------------------------------------
    # ingredient generators
    # ------------------------------------------------------------------
    @staticmethod
    def _message(rng):
        r = rng.random()
        if r < 0.1:
            return b""
        if r < 0.3:
            return bytes(rng.choice(b"abc xyz.,:;!?0123%~ ") for _ in range(rng.randint(1, 12)))
        if r < 0.5:
            return "".join(rng.choice(["é", "ß", "日本", "😀", "a", " ", "%", " ", "\x7f", "\t", "\n", "\r"])
                           for _ in range(rng.randint(1, 8))).encode()
        if r < 0.7:
            return bytes(rng.randrange(256) for _ in range(rng.randint(1, 10)))   # mostly invalid UTF-8
        if r < 0.85:
            return b"".join(rng.choice([b"%", b"%%", b"%4", b"%41", b"%zz", b"100%", b"a", b"%e4%b8"]) for _ in range(rng.randint(1, 4)))
        return bytes(rng.choice(b"\x00\x01\x1f\x20\x7e\x7f\x80\xff%") for _ in range(rng.randint(1, 6)))

    @staticmethod
    def _type_name(rng):
        return ".".join(rng.choice(["a", "B_1", "google", "rpc", "_x", "Msg9", "connectrpc"]) for _ in range(rng.randint(1, 4))).encode()

    def _details(self, rng, n=None):
        n = rng.choice([0, 0, 1, 1, 2, 3]) if n is None else n
        return [[self._type_name(rng), bytes(rng.randrange(256) for _ in range(rng.choice([0, 1, 2, 3, 4, 5, 9])))] for _ in range(n)]

    @staticmethod
    def _wf_name(rng, lower=False):
        alpha = LOWER_TOKEN if lower else TOKEN
        while True:
            n = bytes(rng.choice(alpha) for _ in range(rng.randint(1, 8)))
            if rng.random() < 0.2:
                n += b"-bin"
            if n.lower() not in TRIO:
                return n

    @staticmethod
    def _wf_value(rng):
        r = rng.random()
        if r < 0.1:
            return b""
        if r < 0.6:
            return bytes(rng.choice(b"abcXYZ019 :;,=/+-_.\t") for _ in range(rng.randint(1, 10)))
        return bytes(rng.choice([0x09, 0x20, 0x21, 0x3A, 0x7E, 0x80, 0xC3, 0xA9, 0xFF, 0x61]) for _ in range(rng.randint(1, 8)))

    def _wf_trailers(self, rng):
        seen = set()
        out = []
        for _ in range(rng.choice([0, 0, 1, 2, 3])):
            n = self._wf_name(rng)
            if n.lower() in seen:
                continue
            seen.add(n.lower())
            out.append([n, [self._wf_value(rng) for _ in range(rng.choice([0, 1, 1, 2]))]])
        return out

    def _bad_trailers(self, rng):
        out = self._wf_trailers(rng)
        k = rng.randrange(6)
        if k == 0:
            out.append([b"bad name", [b"v"]])
        elif k == 1:
            out.append([b"x-y", [b"line\r\nbreak"]])
        elif k == 2:
            out.append([b"x\x7f", [b"v\x00w", b"ok"]])
        elif k == 3:
            out.append([b"Grpc-Status", [b"3"]])
        elif k == 4:
            out.append([b"", [b"empty-name"]])
        else:
            out.append([b"a:b", [b" lead", b"trail "]])
        rng.shuffle(out)
        return out

    # ------------------------------------------------------------------
    def generate(self, rng, tier):
        quick = tier == "quick"
        cases = []
        self._crashed = []
        self._gen_counts = {}
        self._generated = True

        # A. byte classes
        for c in range(256):
            cases.append(["c13.classes", c])
        # B. percent encoding
        for c in range(256):
            cases.append(["c13.percent", bytes([c])])
        for _ in range(2500 if quick else 20000):
            cases.append(["c13.percent", self._message(rng)])

        # C. structured errors through the real encoders
        errors = []
        for code in range(1, 17):
            errors.append([code, b"", [], []])
            errors.append([code, b"msg %d" % code, self._details(rng, 1), self._wf_trailers(rng)])
        for c in range(256):   # every single byte as a one-byte message, with a detail so that details-bin agreement is checked
            errors.append([rng.randint(1, 16), bytes([c]), self._details(rng, 1), []])
        for _ in range(3000 if quick else 12000):
            errors.append([rng.randint(1, 16), self._message(rng), self._details(rng), self._wf_trailers(rng)])
        n_wf = len(errors)
        for _ in range(600 if quick else 3000):
            code = rng.choice([0, 0, 17, 99, 4294967295, rng.randint(1, 16)])
            errors.append([code, self._message(rng), self._details(rng), self._bad_trailers(rng) if rng.random() < 0.7 else self._wf_trailers(rng)])
        rendered = self._oracle([["c13.o.render"] + e for e in errors], "render")
        for q in self._crashed:          # the encoders panicked: the c13.enc case panics again -> (crash) vs the model's answer
            cases.append(["c13.enc"] + list(q[1:]) + [[]])
        self._crashed = []
        blocks = []
        block_src = []       # (structured error, block) of the well-formed ones
        for i, (e, r) in enumerate(zip(errors, rendered)):
            if not r:
                continue
            mo, st, block, tbl = r
            cases.append(["c13.enc"] + e + [mo])
            cases.append(["c13.webrt"] + with_digest(e + [mo, tbl, block]))
            cases.append(["c13.grpcrt"] + with_digest([e[0], e[1], e[2], mo, tbl, st]))
            if i < n_wf:
                blocks.append(block)
                block_src.append((e, bytes(block)))

        # C2. the Connect protocol: structured errors through the REAL reference server handlers + connect-go
        #     (in-process): the unary error body and the end-of-stream message of a server stream
        def utf8_message():
            while True:
                m = self._message(rng)
                try:
                    m.decode()
                    return m
                except UnicodeDecodeError:
                    pass

        def utf8_value():
            r = rng.random()
            if r < 0.75:
                return self._wf_value(rng).decode("latin-1").encode()      # field-content bytes, as UTF-8
            return rng.choice([b"a\x00b", b"\x7f", b"nl\n", b"cr\r", b"<&>", b'q"\\', "\u2028".encode(), b"\x1f", b"\tt", b" sp "])

        def meta_trailers():
            out = []
            for _ in range(rng.choice([0, 0, 1, 1, 2, 3, 4])):
                r = rng.random()
                if r < 0.75:
                    n = self._wf_name(rng)
                    if out and rng.random() < 0.25:
                        n = rng.choice(out)[0].swapcase()               # same field under another spelling: merged
                elif r < 0.9:
                    n = rng.choice([b"bad name", b"", b"a:b", b"x\x7f", "é".encode(), b"a/b", b"(x)", b"Content-Type", b"grpc-status"])
                else:
                    n = bytes(rng.choice(TOKEN) for _ in range(rng.randint(1, 3)))
                out.append([n, [utf8_value() for _ in range(rng.choice([0, 1, 1, 2, 3]))]])
            return out

        cerr_in, ces_in = [], []
        for code in range(1, 17):
            cerr_in.append([code, b"", []])
            cerr_in.append([code, b"msg %d" % code, self._details(rng, 1)])
            ces_in.append([1, code, b"", [], [], 1])
            ces_in.append([1, code, b"msg %d" % code, self._details(rng, 2), meta_trailers(), rng.choice([0, 1])])
        for _ in range(1000 if quick else 6000):
            cerr_in.append([rng.choice([rng.randint(1, 16)] * 9 + [0, 17, 99]), utf8_message(), self._details(rng)])
        for _ in range(5000 if quick else 20000):
            he = int(rng.random() < 0.75)
            ces_in.append([he, rng.choice([rng.randint(1, 16)] * 9 + [0, 17, 99]) if he else 0, utf8_message() if he else b"",
                           self._details(rng) if he else [], meta_trailers(), rng.choice([0, 1, 1, 2])])
        crendered = self._oracle([["c13.o.cerrrender"] + e for e in cerr_in] + [["c13.o.cesrender"] + e for e in ces_in], "crender")
        for cq in self._crashed:
            raise core.HarnessError("C13: the reference server handler panicked on %s" % core.sx(cq)[:300])
        connect_rt = []      # (kind, structured input, text)
        for e, r in zip(cerr_in, crendered[:len(cerr_in)]):
            if r:
                connect_rt.append(("c13.cerrrt", e, bytes(r[0])))
        for e, r in zip(ces_in, crendered[len(cerr_in):]):
            if r:
                connect_rt.append(("c13.cesrt", e, bytes(r[0])))

        # D. every single malformation of small real renderings
        eos_texts = []
        small = sorted(set(b for b in blocks if len(b) <= (110 if quick else 160)), key=lambda b: (len(b), b))
        rng.shuffle(small)
        inserts = [0x0A, 0x0D, 0x20, 0x09, 0x3A, 0x25, 0x41, 0x61, 0x00, 0x7F, 0x80, 0x3D, 0x30]
        for b in small[:(40 if quick else 150)]:
            for pos in range(len(b) + 1):
                if pos < len(b):
                    eos_texts.append(b[:pos] + b[pos + 1:])
                    eos_texts.append(b[:pos] + bytes([rng.choice(inserts)]) + b[pos + 1:])
                    if 0x61 <= b[pos] <= 0x7A:
                        eos_texts.append(b[:pos] + bytes([b[pos] - 32]) + b[pos + 1:])
                eos_texts.append(b[:pos] + bytes([rng.choice(inserts)]) + b[pos:])
            for pos in range(len(b)):   # line-level: drop CR of each CRLF, duplicate a line
                if b[pos:pos + 2] == b"\r\n":
                    eos_texts.append(b[:pos] + b"\n" + b[pos + 2:])
                    eos_texts.append(b[:pos + 2] + b"\r\n" + b[pos + 2:])
            starts = [0] + [pos + 2 for pos in range(len(b)) if b[pos:pos + 2] == b"\r\n"]
            for pos in starts:      # line-level: every malformed line of the catalogue inserted at every line boundary
                for ins in (b"\r\n", b"\n", b" folded\r\n", b"\tf\r\n", b" \r\n", b"nocolon\r\n", b": v\r\n", b":\r\n", b"Up-Per: v\r\n",
                            b"bad name: v\r\n", b"k: v\x00\r\n", b"k: v\n", b"k : v\r\n", b"k\xc3\xa9: v\r\n", b"k: \x7f\r\n"):
                    eos_texts.append(b[:pos] + ins + b[pos:])
                    self._count("eos-line-insert@" + ("first" if pos == 0 else "last" if pos == len(b) else "inside"))
            eos_texts.append(b + b"\r\n")
            eos_texts.append(b[:-2])
            eos_texts.append(b[:-1])
            eos_texts.append(b + b + b"grpc-status: 3\r\n")
        # E. grammar-aware random blocks
        det_ok = b64raw(status_proto(5, b"m", [(b"type.googleapis.com/a.B", b"xy")]))
        names = [b"grpc-status", b"grpc-message", b"grpc-status-details-bin", b"Grpc-Status", b"x-custom", b"X-Up", b"a", b"",
                 b"bad name", b" lead", b"\tlead", b"tr\xc3\xa9", b"caf\xe9", b"x-y-bin", b"UPPER\xc3\x89", b"q\x7f"]
        seps = [b": ", b":", b" : ", b":  \t", b"", b"::"]
        values = [b"0", b"5", b"16", b"17", b"-1", b"abc", b"", b"a b", b" pad ", b"a%20b", b"%", b"%4", b"%zz", b"caf\xc3\xa9", b"x\x00y",
                  b"x\x7fy", b"tab\there", det_ok, det_ok + b"==", b"!!!!", b"m", b"a:b:c", b"v\r"]
        ends = [b"\r\n", b"\r\n", b"\r\n", b"\n", b"\r", b"", b"\r\r\n", b"\n\r\n"]
        for _ in range(30000 if quick else 120000):
            parts = []
            for _ in range(rng.randint(0, 5)):
                r = rng.random()
                if r < 0.08:
                    parts.append(rng.choice([b"\r\n", b"\n", b" \r\n"]))
                elif r < 0.16:
                    parts.append(rng.choice([b" folded", b"\tfolded more", b" "]) + rng.choice(ends))
                else:
                    parts.append(rng.choice(names) + rng.choice(seps) + rng.choice(values) + rng.choice(ends))
            eos_texts.append(b"".join(parts))
        for _ in range(3000 if quick else 20000):
            eos_texts.append(bytes(rng.choice(b"ab:: \t\r\n\n\r\n%A-") for _ in range(rng.randint(0, 16))))
        # a line with an empty field name (":..."), first and not first, after blank lines, with and without CR
        for first in (b"", b"grpc-status: 0\r\n", b"grpc-status: 0\n", b"\r\n", b"a\r\n", b"grpc-status: 3\r\ngrpc-message: m\r\n", b"\r\n\r\nx: y\r\n", b" x\r\n"):
            for mid in (b":", b": foo", b":foo", b"::", b": ", b":\t"):
                for end in (b"\r\n", b"\n", b"", b"\r\nz: 1\r\n"):
                    eos_texts.append(first + mid + end)
        eos_texts += [b"", b"\r\n", b"\n", b"\r\n\r\n", b"grpc-status: 0\r\n", b"grpc-status: 0\r\n\r\n", b"grpc-status:0", b"\r\ngrpc-status: 0\r\n",
                      b" x\r\ngrpc-status: 0\r\n", b"\r\n x\r\n", b"a\r\n b\r\n", b"a: 1\r\n b\r\n\tc\r\n", b"noColon\r\n cont\r\n"]

        # F. header maps for checkGRPCStatus
        st_vals = [b"%d" % i for i in range(0, 18)] + [b"-1", b"+5", b"007", b"", b"abc", b"1e1", b" 5", b"5 ", b"0x5", b"1_0",
                                                      b"9223372036854775807", b"9223372036854775808", b"-9223372036854775808",
                                                      b"-9223372036854775809", b"4294967301", b"-4294967291", b"+", b"-", b"--1"]
        msg_vals = [b"", b"plain message", b"a%20b", b"%E6%97%A5", b"%e6%97%a5", b"%", b"a%", b"a%4", b"%4", b"%zz", b"%4g", b"%g4", b"100%",
                    b"caf\xc3\xa9", b"tab\t", b"nl\n", b"%25", b"x\x7f", b"~", b" ", b"%00", b"%%41", b"%4%41", b"m", b"%6D", b"%6d"]
        status_tables = []

        def det_variants():
            c = rng.randint(0, 16)
            m = rng.choice([b"", b"m", b"plain message", b"a b", "日".encode()])
            ds = [(b"type.googleapis.com/a.B", b"v")] * rng.choice([0, 1, 1, 2])
            good = status_proto(c, m, ds)
            r = rng.random()
            if r < 0.4:
                return b64raw(good)
            if r < 0.55:
                return base64.b64encode(good)     # padded when len % 3 != 0
            if r < 0.65:
                return b64raw(good) + rng.choice([b"=", b"==", b"!", b"\n", b"\r\n", b" ", b"A"])
            if r < 0.75:
                return b64raw(bytes(rng.randrange(256) for _ in range(rng.randint(0, 12))))   # mostly unparseable proto
            if r < 0.85:
                return b64raw(status_proto(c - 2 ** 32 if rng.random() < 0.3 else c, m + b"\xff", ds))  # invalid UTF-8 message
            return bytes(rng.choice(b"ABCabc012+/=-_ \r\n") for _ in range(rng.randint(0, 9)))

        status_cases = []
        for _ in range(30000 if quick else 120000):
            hs = []
            r = rng.random()
            if r < 0.9:
                hs.append([b"Grpc-Status", [rng.choice(st_vals) for _ in range(rng.choice([1, 1, 1, 1, 2, 0]))]])
            if rng.random() < 0.8:
                hs.append([b"Grpc-Message", [rng.choice(msg_vals) for _ in range(rng.choice([1, 1, 1, 1, 2, 0]))]])
            if rng.random() < 0.6:
                hs.append([b"Grpc-Status-Details-Bin", [det_variants() for _ in range(rng.choice([1, 1, 1, 2, 0]))]])
            if rng.random() < 0.1:
                hs.append([b"grpc-status", [b"3"]])      # non-canonical key: not looked at
            rng.shuffle(hs)
            status_cases.append(hs)
        # agreeing trios built from one status
        for _ in range(2000 if quick else 10000):
            c = rng.randint(0, 16)
            m = self._message(rng)
            ds = [(b"type.googleapis.com/" + self._type_name(rng), b"v")] * rng.choice([0, 1, 2])
            enc = "".join(chr(x) if 0x20 <= x <= 0x7E and x != 0x25 else "%%%02X" % x for x in m).encode()
            st = b"%d" % (c if rng.random() < 0.85 else rng.randint(0, 16))
            mm = m if rng.random() < 0.85 else m + b"x"
            status_cases.append([[b"Grpc-Status", [st]], [b"Grpc-Message", [enc]],
                                 [b"Grpc-Status-Details-Bin", [b64raw(status_proto(c, mm, ds))]]])

        # G. checkBinaryMetadata
        for _ in range(6000 if quick else 30000):
            hs = []
            for _ in range(rng.randint(0, 4)):
                name = rng.choice([b"x-bin", b"X-BIN", b"x-Bin", b"x", b"bin", b"-bin", b"grpc-status-details-bin", b"Grpc-Status-Details-Bin", b"a-binx", b"y-bin"])
                vals = []
                for _ in range(rng.randint(0, 3)):
                    raw = bytes(rng.randrange(256) for _ in range(rng.randint(0, 7)))
                    r = rng.random()
                    vals.append(b64raw(raw) if r < 0.5 else base64.b64encode(raw) if r < 0.75 else
                                bytes(rng.choice(b"ABab01+/=_- \n") for _ in range(rng.randint(0, 6))))
                hs.append([name, vals])
            cases.append(["c13.binmeta", hs])

        # H. Connect JSON
        json_cases = []      # (kind, text, strict)

        def hdr_detail(with_debug=True):
            name = rng.choice([b"x", b"name", "é".encode()])
            vals = [rng.choice([b"v", b"", b"w w"]) for _ in range(rng.randint(0, 2))]
            value = (ld(1, name) if name else b"") + b"".join(ld(2, v) for v in vals)
            ms = [(b"type", b"connectrpc.conformance.v1.Header"), (b"value", b64raw(value))]
            if with_debug:
                dbg = [(b"name", name)] + ([(b"value", list(vals))] if vals else [])
                ms.append((b"debug", obj(*dbg)))
            return obj(*ms)

        def plain_detail():
            return obj((b"type", self._type_name(rng)), (b"value", b64raw(bytes(rng.randrange(256) for _ in range(rng.randint(0, 6))))))

        def wf_error(code=None):
            ms = [(b"code", CODE_NAMES[(code or rng.randint(1, 16)) - 1].encode())]
            if rng.random() < 0.8:
                m = self._message(rng)
                ms.append((b"message", m))
            if rng.random() < 0.6:
                ms.append((b"details", [hdr_detail(rng.random() < 0.6) if rng.random() < 0.6 else plain_detail() for _ in range(rng.randint(0, 3))]))
            if rng.random() < 0.3:
                rng.shuffle(ms)
            return obj(*ms)

        def wf_metadata():
            ms = []
            seen = set()
            for _ in range(rng.randint(0, 3)):
                n = self._wf_name(rng)
                if n in seen:
                    continue
                seen.add(n)
                ms.append((n, [bytes(rng.choice(b"abc XYZ\t~") for _ in range(rng.randint(0, 5))) for _ in range(rng.randint(0, 2))]))
            return obj(*ms)

        def wf_end_stream():
            ms = []
            if rng.random() < 0.7:
                ms.append((b"error", wf_error()))
            if rng.random() < 0.7:
                ms.append((b"metadata", wf_metadata()))
            return obj(*ms)

        for code in range(1, 17):
            json_cases.append(("c13.cerr", jrender(wf_error(code)), 1))
        for _ in range(1500 if quick else 8000):
            json_cases.append(("c13.cerr", jrender(wf_error(), rng), 1))
            json_cases.append(("c13.ces", jrender(wf_end_stream(), rng), 1))

        junk = [None, True, ("n", b"5"), ("n", b"1e999"), ("n", b"-0.5e-3"), b"str", b"", [], [b"x"], [None], [("n", b"1")], obj(), obj((b"a", b"b")),
                obj((b"a", ("n", b"1")), (b"a", ("n", b"2"))), [obj((b"k", None), (b"k", None))], obj((b"z", ("n", b"1e999")))]
        keyvar = {b"code": [b"Code", b"CODE", b"codE", b"code ", b"cod"], b"message": [b"Message", "meſſage".encode(), "MEſSAGE".encode(), b"msg"],
                  b"details": [b"Details", "detailſ".encode(), b"detail"], b"type": [b"Type", b"TYPE", b"@type"], b"value": [b"Value", b"VALUE"],
                  b"debug": [b"Debug", b"DEBUG"], b"error": [b"Error", b"ERROR", b"err"], b"metadata": [b"Metadata", b"METADATA", b"meta"]}

        def mutate(t, depth=0):
            """one random malformation somewhere in the tree"""
            if isinstance(t, tuple) and t[0] == "o":
                ms = list(t[1])
                r = rng.random()
                if ms and r < 0.35 and depth < 4:
                    i = rng.randrange(len(ms))
                    ms[i] = (ms[i][0], mutate(ms[i][1], depth + 1))
                elif ms and r < 0.45:
                    del ms[rng.randrange(len(ms))]
                elif ms and r < 0.6:
                    k, v = rng.choice(ms)
                    ms.insert(rng.randint(0, len(ms)), (k, v if rng.random() < 0.5 else rng.choice(junk)))
                elif ms and r < 0.75:
                    i = rng.randrange(len(ms))
                    k = ms[i][0]
                    nk = rng.choice(keyvar.get(k, [k.upper(), k + b"x"]))
                    if rng.random() < 0.5:
                        ms[i] = (nk, ms[i][1])
                    else:
                        ms.insert(rng.randint(0, len(ms)), (nk, ms[i][1] if rng.random() < 0.5 else rng.choice(junk)))
                elif ms and r < 0.9:
                    i = rng.randrange(len(ms))
                    ms[i] = (ms[i][0], rng.choice(junk))
                else:
                    ms.insert(rng.randint(0, len(ms)), (rng.choice([b"extra", b"", b"x-y", b"bad key", "clé".encode(), b"\xff"]), rng.choice(junk)))
                return ("o", ms)
            if isinstance(t, list):
                if t and rng.random() < 0.6 and depth < 5:
                    i = rng.randrange(len(t))
                    return t[:i] + [mutate(t[i], depth + 1)] + t[i + 1:]
                return t + [rng.choice(junk)]
            if isinstance(t, (bytes, bytearray)):
                r = rng.random()
                if r < 0.25:
                    return rng.choice(junk)
                return rng.choice([b"", t + b"=", t + b"A", t[:-1], b"." + t, t + b".", t + b"..x", b"1" + t, t + b"-", t.upper(), t + b"\x00", t + b"\x7f", t + b" ",
                                   b"code_5", b"CANCELED", b"a b", b"!!!!", b"QQ==", b"QQ", b"Q", b"QUJD\n", b"a/b.C"])
            return rng.choice(junk)

        for _ in range(12000 if quick else 50000):
            t = wf_error()
            for _ in range(rng.choice([1, 1, 1, 2])):
                t = mutate(t)
            json_cases.append(("c13.cerr", jrender(t, rng), 0))
            t = wf_end_stream()
            for _ in range(rng.choice([1, 1, 1, 2])):
                t = mutate(t)
            json_cases.append(("c13.ces", jrender(t, rng), 0))
        # every single malformation of the catalogue at every node of some conformant trees (depth recorded)
        junk_small = [None, True, ("n", b"1"), ("n", b"1e999"), b"s", [], [None], obj(), obj((b"a", ("n", b"1")), (b"a", ("n", b"2")))]
        str_bad = [b"", b"a b", b"QQ==", b"Q", b".a", b"a.", b"1a", b"code_5", b"x\x00", b"x\x7f", b"UNKNOWN"]

        def singles(t, depth):
            if isinstance(t, tuple) and t[0] == "o":
                ms = list(t[1])
                for i, (k, v) in enumerate(ms):
                    for nv, d, w in singles(v, depth + 1):
                        yield ("o", ms[:i] + [(k, nv)] + ms[i + 1:]), d, w
                    yield ("o", ms[:i] + ms[i + 1:]), depth, "delete"
                    yield ("o", ms[:i + 1] + [(k, v)] + ms[i + 1:]), depth, "dup"
                    yield ("o", ms + [(k, None)]), depth, "dup"
                    yield ("o", [(k, b"first")] + ms), depth, "dup"
                    for nk in keyvar.get(k, [k.upper()])[:2]:
                        yield ("o", ms[:i] + [(nk, v)] + ms[i + 1:]), depth, "fold-rename"
                        yield ("o", ms + [(nk, v)]), depth, "fold-extra"
                        yield ("o", [(nk, rng.choice(junk_small))] + ms), depth, "fold-extra"
                    for j in junk_small:
                        yield ("o", ms[:i] + [(k, j)] + ms[i + 1:]), depth, "retype"
                yield ("o", ms + [(b"extra", b"x")]), depth, "unknown"
                yield ("o", [(b"", None)] + ms), depth, "unknown"
            elif isinstance(t, list):
                for i, x in enumerate(t):
                    for nx, d, w in singles(x, depth + 1):
                        yield t[:i] + [nx] + t[i + 1:], d, w
                for j in junk_small:
                    yield t + [j], depth, "elem"
                    yield [j] + t, depth, "elem"
            elif isinstance(t, (bytes, bytearray)):
                for sb in str_bad:
                    yield sb, depth, "string"
                yield t + b"=", depth, "string"
                yield t + b"\x00", depth, "string"

        bases = []
        for _ in range(12 if quick else 40):
            bases.append(("c13.cerr", obj((b"code", CODE_NAMES[rng.randrange(16)].encode()), (b"message", b"m"),
                                          (b"details", [hdr_detail(True), plain_detail()]))))
            bases.append(("c13.ces", obj((b"error", obj((b"code", CODE_NAMES[rng.randrange(16)].encode()), (b"message", b"m"),
                                                        (b"details", [hdr_detail(True)]))),
                                         (b"metadata", obj((b"x-a", [b"v", b"w"]), (self._wf_name(rng), [self._wf_value(rng).replace(b"\x80", b"a").replace(b"\xc3", b"b").replace(b"\xa9", b"c").replace(b"\xff", b"d")]))))))
        for kind, base in bases:
            json_cases.append((kind, jrender(base), 1))
            for t, d, w in singles(base, 0):
                json_cases.append((kind, jrender(t), 0))
                self._count("json-single-%s@depth%d" % (w, d))
                self._count("json-single@depth%d" % d)

        # null where a typed value is expected passes encoding/json's typed Unmarshal, so only the per-key check can
        # object ("... is a <nil> instead of ..."): the *-kind classes; and a top-level null
        def with_null(t, path):
            if not path:
                return None
            if isinstance(t, tuple) and t[0] == "o":
                ms = list(t[1])
                idx = [i for i, (k, _) in enumerate(ms) if k == path[0]]
                if not idx:
                    ms.append((path[0], with_null(obj() if len(path) > 1 else b"", path[1:])))
                else:
                    ms[idx[0]] = (path[0], with_null(ms[idx[0]][1], path[1:]))
                return ("o", ms)
            if isinstance(t, list):
                if not t:
                    t = [obj((b"type", b"a.B"), (b"value", b"QQ"))]
                i = rng.randrange(len(t))
                return t[:i] + [with_null(t[i], path)] + t[i + 1:]
            return with_null(obj(), path)

        n_null = 90 if quick else 300
        for _ in range(n_null):
            ws1, ws2 = rng.choice([b"", b" ", b"\n", b"\t", b"\r\n", b"  "]), rng.choice([b"", b" ", b"\n", b"\t ", b"\r\n"])
            json_cases.append(("c13.cerr", ws1 + b"null" + ws2, 0))
            json_cases.append(("c13.ces", ws1 + b"null" + ws2, 0))
            for path in ((b"code",), (b"message",), (b"details",), (b"details", b"type"), (b"details", b"value")):
                json_cases.append(("c13.cerr", jrender(with_null(wf_error(), path), rng), 0))
                json_cases.append(("c13.ces", jrender(obj((b"error", with_null(wf_error(), path))), rng), 0))
            for path in ((b"error",), (b"metadata",), (b"metadata", rng.choice([b"k", b"x-a"])), (b"error", b"details", b"type")):
                json_cases.append(("c13.ces", jrender(with_null(wf_end_stream(), path), rng), 0))
            json_cases.append(("c13.ces", jrender(obj((b"metadata", obj((b"k", [b"v", None, b"w"][:rng.randint(2, 3)])))), rng), 0))

        for t in junk:
            json_cases.append(("c13.cerr", jrender(t), 0))
            json_cases.append(("c13.ces", jrender(t), 0))
            json_cases.append(("c13.cerr", jrender(obj((b"code", b"unknown"), (b"details", [t]))), 0))
            json_cases.append(("c13.cerr", jrender(obj((b"code", b"unknown"), (b"details", t))), 0))
            json_cases.append(("c13.cerr", jrender(obj((b"code", t))), 0))
            json_cases.append(("c13.cerr", jrender(obj((b"code", b"unknown"), (b"message", t))), 0))
            json_cases.append(("c13.ces", jrender(obj((b"error", t))), 0))
            json_cases.append(("c13.ces", jrender(obj((b"metadata", t))), 0))
            json_cases.append(("c13.ces", jrender(obj((b"metadata", obj((b"k", t))))), 0))
            json_cases.append(("c13.ces", jrender(obj((b"error", obj((b"code", b"internal"))), (b"Error", t))), 0))
            json_cases.append(("c13.ces", jrender(obj((b"Error", t), (b"error", obj((b"code", b"internal"))))), 0))
            json_cases.append(("c13.cerr", jrender(obj((b"code", b"aborted"), (b"details", [plain_detail()]), (b"DETAILS", t))), 0))
            json_cases.append(("c13.cerr", jrender(obj((b"code", b"aborted"), (b"details", [obj((b"type", b"a.B"), (b"value", b"QQ"), (b"debug", t))]))), 0))
        # catalogue: values that pass the typed Unmarshal (null) but not the per-key checks, metadata malformations
        for tv in (None, b"", b"a..b", b".a", b"1a", b"a.b-c", b"a/b.C", b"a.B"):
            for vv in (None, b"QQ", b"QQ==", b"Q", b"!!!!", b"QUJD\n"):
                json_cases.append(("c13.cerr", jrender(obj((b"code", b"aborted"), (b"details", [obj((b"type", tv), (b"value", vv))]))), 0))
        for md in (None, [], b"x", obj((b"bad name", [b"v"])), obj((b"", [b"v"])), obj((b"k", b"v")), obj((b"k", None)), obj((b"k", [("n", b"1")])),
                   obj((b"k", [None])), obj((b"k", [b"a\x00"])), obj((b"k", [b"a\x7f", b"ok", b"tab\t"])), obj((b"k", [b"v"]), (b"K", [b"w"])),
                   obj((b"k", [b"v"]), (b"k", [b"w"])), obj((b"caf\xc3\xa9", [b"caf\xc3\xa9"]))):
            json_cases.append(("c13.ces", jrender(obj((b"metadata", md))), 0))
            json_cases.append(("c13.ces", jrender(obj((b"error", obj((b"code", b"unknown"))), (b"metadata", md))), 0))
        # code strings: the 16 names are the only ones accepted; in particular not connect-go's round-trip form
        # "code_<n>" that Code.String() prints for out-of-range codes (and Code.UnmarshalText reads back)
        code_strs = [b"code_0", b"code_1", b"code_5", b"code_16", b"code_17", b"code_18", b"code_20", b"code_21", b"code_99", b"code_255",
                     b"code_65536", b"code_4294967295", b"code_4294967296", b"code_18446744073709551616", b"code_-1", b"code_+5", b"code_05",
                     b"code_", b"code_ 5", b"code_5 ", b"Code_5", b"CODE_17", b"code17", b"17", b"5", b"unknown ", b" unknown", b"Unknown", b"UNKNOWN",
                     b"cancelled", b"ok", b"OK", b"", b"code_1e1", b"code_0x11"]
        code_strs += [b"code_%d" % rng.choice([rng.randint(0, 40), rng.randint(17, 2 ** 32 - 1), rng.randint(2 ** 32, 2 ** 70)])
                      for _ in range(40 if quick else 400)]
        for nm in code_strs:
            json_cases.append(("c13.cerr", jrender(obj((b"code", nm))), 0))
            json_cases.append(("c13.cerr", jrender(obj((b"message", b"m"), (b"code", nm), (b"details", [plain_detail()]))), 0))
            json_cases.append(("c13.ces", jrender(obj((b"error", obj((b"code", nm))))), 0))
            json_cases.append(("c13.ces", jrender(obj((b"metadata", obj((b"k", [b"v"]))), (b"error", obj((b"code", nm), (b"message", b"m"))))), 0))
        literal = [b"", b" ", b"{", b"}", b"{}", b"{} x", b"{}{}", b"[", b"nul", b"null ", b" null", b"{\"code\":\"unknown\"}\n", b"{\"code\":\"unknown\",}",
                   b"{\"code\":unknown}", b"{'code':'unknown'}", b"{\"code\":\"unk\\u006eown\"}", b"{\"co\\u0064e\":\"unknown\"}", b"{\"code\":\"unknown\"}}",
                   b"\xef\xbb\xbf{}", b"{\"code\":\"\xff\"}", b"{\"\xff\":1,\"\xfe\":2}", b"{\"a\":1e999,\"a\":1}", b"{\"a\":1,\"a\":1e999}",
                   b"{\"code\":\"unknown\",\"x\":" + b"[" * 30 + b"]" * 30 + b"}", b"[" * 10001 + b"]" * 10001]
        for t in literal:
            json_cases.append(("c13.cerr", t, 0))
            json_cases.append(("c13.ces", t, 0))
        base_texts = [jrender(wf_error(3)), jrender(obj((b"code", b"internal"), (b"details", [plain_detail()]))),
                      jrender(obj((b"error", obj((b"code", b"aborted"))), (b"metadata", obj((b"k", [b"v"])))))]
        for bi, b in enumerate(base_texts):
            kind = "c13.ces" if bi == 2 else "c13.cerr"
            if len(b) > 160:
                continue
            for pos in range(len(b)):
                json_cases.append((kind, b[:pos] + b[pos + 1:], 0))
                json_cases.append((kind, b[:pos] + bytes([rng.choice(b'",:{}[]\\ aZ0\x00\xff')]) + b[pos:], 0))
        for _ in range(8000 if quick else 40000):
            json_cases.append((rng.choice(["c13.cerr", "c13.ces"]), bytes(rng.choice(b'{}[]",:\\ codemsga01nulltrue.e-') for _ in range(rng.randint(0, 40))), 0))

        # I. examineWireDetails
        ctypes = [b"application/json", b"application/json; charset=utf-8", b"application/proto", b"application/connect+json", b"application/connect+proto",
                  b"application/grpc-web", b"application/grpc-web+proto", b"application/grpc-web-text", b"application/grpc", b"application/grpc+proto",
                  b"application/grpcfoo", b"application/grpc+", b"text/plain", b""]
        wire_raw = []
        some_json = [c[1] for c in json_cases[:2000]]
        for _ in range(8000 if quick else 30000):
            ct = rng.choice(ctypes)
            st = rng.choice([200, 200, 400, 500])
            body = rng.choice(some_json) if rng.random() < 0.7 else b""
            eos = None
            if rng.random() < 0.5:
                eos = rng.choice(some_json) if ct.startswith(b"application/connect") or rng.random() < 0.1 else rng.choice(eos_texts[-400:] + blocks[:50])
            hdrs = rng.choice(status_cases) if rng.random() < 0.7 else []
            trs = rng.choice(status_cases) if rng.random() < 0.5 else ([[b"X-Empty", []]] if rng.random() < 0.3 else [])
            wire_raw.append([ct, st, body, eos, hdrs, trs, int(rng.random() < 0.3), int(rng.random() < 0.15)])

        # K. the glue: the REAL invoke() (transport set-up, tracer, connect-go, call sites, invoker.examineWireDetails)
        #    against a scripted HTTP server
        inv_raw = self._invoke_scenarios(rng, quick, block_src, status_cases, json_cases, eos_texts, connect_rt)

        # ---- stage 2: library oracles for everything collected above
        q = []
        for t in eos_texts:
            q.append(["c13.o.webstatus", t])
        n_eos = len(q)
        for hs in status_cases:
            d = [v for k, v in hs if k == b"Grpc-Status-Details-Bin" and v]
            q.append(["c13.o.unstatus", d[0][0] if d else b""])
        n_st = len(q)
        for kind, text, strict in json_cases:
            q.append(["c13.o.json", text])
        n_js = len(q)
        for w in wire_raw:
            q.append(["c13.o.json", w[2]])
            q.append(["c13.o.json", w[3] if w[3] is not None else b""])
            q.append(["c13.o.webstatus", w[3] if w[3] is not None else b""])
            for hs in (w[4], w[5]):
                d = [v for k, v in hs if k == b"Grpc-Status-Details-Bin" and v]
                q.append(["c13.o.unstatus", d[0][0] if d else b""])
        n_wire = len(q)
        for kind, e, text in connect_rt:
            q.append(["c13.o.json", text])
        n_crt_q = len(q)
        for sc in inv_raw:
            raw = b"".join(p[1] for p in sc["parts"] if p[0] == 0)
            eos = next((p[2] for p in sc["parts"] if p[0] == 1 and p[1] & 0x82 and p[2]), None)
            sc["_eos"] = eos
            q.append(["c13.o.json", raw])
            q.append(["c13.o.json", eos if eos is not None else b""])
            q.append(["c13.o.webstatus", eos if eos is not None else b""])
            for hs in (sc["hdrs"], sc["trailers"]):
                d = [v for k, v in hs if k == b"Grpc-Status-Details-Bin" and v]
                q.append(["c13.o.unstatus", d[0][0] if d else b""])
        ans = self._oracle(q, "lib")
        for cq in self._crashed:         # an examiner / library call panicked on these bytes: "never crash" is violated
            cases.append(["c13.nocrash", cq[1]])
        self._crashed = []

        def tbl(*rs):
            out = []
            for r in rs:
                if r and not any(r[0] == e[0] for e in out):
                    out.append(r)
            return out
        for t, r in zip(eos_texts, ans[:n_eos]):
            cases.append(["c13.eos", t, tbl(r)])
        for hs, r in zip(status_cases, ans[n_eos:n_st]):
            cases.append(["c13.status", hs, tbl(r)])
        for (kind, text, strict), r in zip(json_cases, ans[n_st:n_js]):
            cases.append([kind, text, r, strict])
        for i, w in enumerate(wire_raw):
            a = ans[n_js + 5 * i: n_js + 5 * i + 5]
            ct, st, body, eos, hdrs, trs, hd, er = w
            cases.append(["c13.wire", ct, st, body, a[0], [] if eos is None else [eos], a[1] if eos is not None else [],
                          hdrs, trs, hd, er, tbl(a[2], a[3], a[4])])

        n_crt = 0
        for i, sc in enumerate(inv_raw):
            a = ans[n_crt_q + 5 * i: n_crt_q + 5 * i + 5]
            cases.append(["c13.invoke"] + with_digest([sc["refmode"], sc["proto"], sc["method"], sc["status"], sc["ctype"], sc["hdrs"], sc["parts"],
                                                      sc["trailers"], sc["ended"], a[0], a[1] if sc["_eos"] is not None else [],
                                                      tbl(a[2], a[3], a[4])]))
            self._count("invoke:" + sc["what"])
        for (kind, e, text), r in zip(connect_rt, ans[n_wire:n_crt_q]):
            if not r:
                cases.append(["c13.nocrash", text])     # the rendering is not JSON: shows up as a disagreement below
                continue
            tree = r[0]
            if kind == "c13.cerrrt":
                ds = wire_details(tree, e[2])
                if ds is not None:
                    cases.append([kind] + with_digest([e[0], e[1], ds, text]))
                    n_crt += 1
            else:
                ds = wire_details(jt_get(tree, b"error"), e[3]) if e[0] else []
                if ds is not None:
                    cases.append([kind] + with_digest([e[0], e[1], e[2], ds, e[4], text]))
                    n_crt += 1
        if n_crt < (len(connect_rt) * 9) // 10 or n_crt < 100:
            raise core.HarnessError("C13: only %d of %d Connect renderings of the reference server became cases" % (n_crt, len(connect_rt)))

        # J. robustness: arbitrary bytes through every examiner
        pool = eos_texts + [c[1] for c in json_cases]
        for _ in range(20000 if quick else 80000):
            r = rng.random()
            if r < 0.4:
                b = bytes(rng.randrange(256) for _ in range(rng.randint(0, 200)))
            elif r < 0.8:
                b = bytearray(rng.choice(pool))
                for _ in range(rng.randint(1, 4)):
                    if b:
                        b[rng.randrange(len(b))] = rng.randrange(256)
                b = bytes(b)
            else:
                b = rng.choice(pool)[:rng.randint(0, 60)]
            cases.append(["c13.nocrash", b])
        return cases

    # ------------------------------------------------------------------
    # K. scenarios for c13.invoke
    # ------------------------------------------------------------------
    LONG_SIZES = (65535, 65536, 65537, 100 * 1024, 1024 * 1024)

    def _invoke_scenarios(self, rng, quick, block_src, status_cases, json_cases, eos_texts, connect_rt):
        out = []

        def add(what, proto, method, status, ctype, hdrs=(), parts=(), trailers=(), ended=-1, refmode=1):
            out.append({"what": what, "refmode": refmode, "proto": proto, "method": method, "status": status, "ctype": ctype,
                        "hdrs": [list(h) for h in hdrs], "parts": [list(p) for p in parts], "trailers": [list(t) for t in trailers],
                        "ended": ended})

        def wire_ok(v):      # a header value that HTTP/1.1 and HTTP/2 carry unchanged
            return all(c == 9 or 0x20 <= c != 0x7F for c in v) and v[:1] not in (b" ", b"\t") and v[-1:] not in (b" ", b"\t")

        def b64_clean(v):    # decodes as unpadded standard base64 (no det-b64 / det-padded: ambiguous in the rendered feedback)
            return all(c in b"ABCDEFGHIJKLMNOPQRSTUVWXYZabcdefghijklmnopqrstuvwxyz0123456789+/" for c in v) and len(v) % 4 != 1

        def trio_ok(hs):
            for k, vs in hs:
                if not vs or not all(wire_ok(v) for v in vs):
                    return False
                if k == b"Grpc-Status-Details-Bin" and not all(b64_clean(v) for v in vs):
                    return False
                if k not in (b"Grpc-Status", b"Grpc-Message", b"Grpc-Status-Details-Bin"):
                    return False
            return True

        def pct(m):
            return "".join(chr(x) if 0x20 <= x <= 0x7E and x != 0x25 else "%%%02X" % x for x in m).encode()

        def trio(code, msg=b"oops", details=None, enc=None):
            hs = [[b"Grpc-Status", [b"%d" % code]], [b"Grpc-Message", [pct(msg) if enc is None else enc]]]
            if details is not None:
                hs.append([b"Grpc-Status-Details-Bin", [b64raw(details)]])
            return hs

        UNARY = (0, 2, 4)
        # (a) unary Connect error bodies: every code, well-formed and with single malformations that leave the code readable
        for code in range(1, 17):
            name = CODE_NAMES[code - 1].encode()
            good = jrender(obj((b"code", name), (b"message", b"oops")))
            for proto in (0, 3):
                add("connect-unary-wf", proto, rng.choice(UNARY), rng.choice([400, 404, 409, 429, 499, 500, 503, 504]), b"application/json",
                    parts=[(0, good)], ended=code)
            bad = [jrender(obj((b"code", name), (b"message", b"oops"), (b"extra", True))),
                   jrender(obj((b"code", name), (b"message", b"a"), (b"message", b"oops"))),
                   jrender(obj((b"code", name), (b"details", [obj((b"type", b"a.B"))]))),
                   jrender(obj((b"code", name), (b"details", [obj((b"type", b"a.B"), (b"value", b"QQ=="))]))),
                   jrender(obj((b"code", name), (b"message", b"oops"), (b"Code", name)))]
            for b in bad:
                add("connect-unary-malformed", rng.choice([0, 0, 3]), rng.choice(UNARY), rng.choice([400, 404, 500, 503]), b"application/json",
                    parts=[(0, b)], ended=code)
            add("connect-unary-http-trailers", 0, 0, 500, b"application/json", parts=[(0, good)], trailers=[(b"X-Late", [b"v"])], ended=code)
            add("not-reference-mode", 0, 0, 500, b"application/json", parts=[(0, bad[0])], ended=code, refmode=0)
        cerr_texts = [t for k, t, _ in json_cases if k == "c13.cerr" and len(t) < 400]
        for t in rng.sample(cerr_texts, min(len(cerr_texts), 250 if quick else 2000)):
            add("connect-unary-pool", rng.choice([0, 0, 3]), rng.choice(UNARY), rng.choice([400, 500, 503, 200]), b"application/json", parts=[(0, t)])

        # (b) gRPC, trailers-only: every code; (c) gRPC with a response message and HTTP trailers
        GRPC_M = (0, 1, 2, 3, 5)
        for code in range(0, 17):
            ct = rng.choice([b"application/grpc", b"application/grpc+proto"])
            det_ok = status_proto(code, b"oops", [(b"type.googleapis.com/a.B", b"xy")])
            add("grpc-trailers-only-wf", 1, rng.choice(GRPC_M), 200, ct, hdrs=trio(code, details=det_ok if code else None), ended=code if code else -1)
            add("grpc-body-trailers-wf", 1, rng.choice([0, 1]), 200, ct, parts=[(1, 0, b"")], trailers=trio(code, b"oops" if code else b""), ended=code)
            if code == 0:
                continue
            for what, hs, e in (("raw", trio(code, enc="caf\u00e9".encode()), code), ("hex", trio(code, enc=b"a%zzb"), -1),
                                ("incomplete", trio(code, enc=b"oops%4"), -1),
                                ("det-code", trio(code, details=status_proto(code % 16 + 1, b"oops", [])), -1),
                                ("det-msg", trio(code, details=status_proto(code, b"other", [])), -1),
                                ("st-multi", [[b"Grpc-Status", [b"%d" % code, b"%d" % code]], [b"Grpc-Message", [b"oops"]]], -1)):
                add("grpc-trailers-only-" + what, 1, rng.choice(GRPC_M), 200, ct, hdrs=hs, ended=e)
                add("grpc-body-trailers-" + what, 1, rng.choice([0, 1]), 200, ct, parts=[(1, 0, b"")], trailers=hs, ended=e)
            add("grpcweb-trailers-only-wf", rng.choice([2, 4]), rng.choice([0, 1]), 200, b"application/grpc-web+proto", hdrs=trio(code), ended=code)
            add("grpcweb-trailers-only-raw", rng.choice([2, 4]), rng.choice([0, 1]), 200, b"application/grpc-web+proto",
                hdrs=trio(code, enc="caf\u00e9".encode()), ended=code)
        pool = [hs for hs in status_cases if hs and trio_ok(hs)]
        for hs in rng.sample(pool, min(len(pool), 250 if quick else 2000)):
            if rng.random() < 0.5:
                add("grpc-trailers-only-pool", 1, rng.choice(GRPC_M), 200, b"application/grpc+proto", hdrs=hs)
            else:
                add("grpc-body-trailers-pool", 1, rng.choice([0, 1]), 200, b"application/grpc", parts=[(1, 0, b"")], trailers=hs)

        # (d) gRPC-Web: trailers in the body.  Real renderings of the reference server (silent) and the malformed pool
        def data_msgs(method=1):      # a unary / client-stream call stops reading at a second response message
            return [(1, 0, b"")] * (rng.choice([0, 1, 1, 2]) if method in (1, 5) else rng.choice([0, 1, 1]))
        srcs = [bs for bs in block_src if len(bs[1]) < 600]
        for e, blk in rng.sample(srcs, min(len(srcs), 150 if quick else 1000)):
            add("grpcweb-end-stream-real", rng.choice([2, 2, 4]), 1, 200, b"application/grpc-web+proto", parts=data_msgs() + [(1, 0x80, blk)], ended=e[0])
        eos_pool = [t for t in eos_texts if 0 < len(t) < 400 and b"details-bin" not in t.lower()]
        for t in rng.sample(eos_pool, min(len(eos_pool), 300 if quick else 2500)):
            m = rng.choice([0, 1])
            add("grpcweb-end-stream-pool", rng.choice([2, 2, 4]), m, 200, rng.choice([b"application/grpc-web+proto", b"application/grpc-web"]),
                parts=data_msgs(m) + [(1, 0x80, t)])

        # (e) Connect streams: the end-of-stream message.  Real renderings and the pool; zero-length and repeated end-stream envelopes
        ces_real = [(e, t) for k, e, t in connect_rt if k == "c13.cesrt" and len(t) < 600]
        for e, t in rng.sample(ces_real, min(len(ces_real), 150 if quick else 1000)):
            add("connect-end-stream-real", rng.choice([0, 0, 3]), 1, 200, b"application/connect+proto", parts=data_msgs() + [(1, 2, t)],
                ended=e[1] if e[0] and 1 <= e[1] <= 16 else -1)
        ces_pool = [t for k, t, _ in json_cases if k == "c13.ces" and 0 < len(t) < 400]
        for t in rng.sample(ces_pool, min(len(ces_pool), 300 if quick else 2500)):
            m = rng.choice([1, 1, 3, 5])
            add("connect-end-stream-pool", 3 if m == 5 else rng.choice([0, 0, 3]), m, 200, b"application/connect+proto",
                parts=data_msgs(m) + [(1, 2, t)])
        for code in range(1, 17):
            t = jrender(obj((b"error", obj((b"code", CODE_NAMES[code - 1].encode()), (b"message", b"oops"), (b"extra", None)))))
            add("connect-end-stream-malformed", rng.choice([0, 3]), 1, 200, b"application/connect+proto", parts=data_msgs() + [(1, 2, t)], ended=code)
        add("connect-end-stream-empty", 0, 1, 200, b"application/connect+proto", parts=[(1, 0, b""), (1, 2, b"")])
        add("connect-end-stream-twice", 0, 1, 200, b"application/connect+proto", parts=[(1, 0, b""), (1, 2, b"{}"), (1, 2, b"x")])
        add("connect-end-stream-http-trailers", 0, 1, 200, b"application/connect+proto", parts=[(1, 0, b""), (1, 2, b"{}")], trailers=[(b"X-Late", [b"v"])], ended=0)

        # (f) end-stream messages around and far beyond 64 KiB, rendered by the reference server itself: a long error message
        #     (sizes are those of the whole end-stream message) and much metadata
        def long_msg(n):
            unit = b"all work and no play makes jack a dull boy. "
            return (unit * (n // len(unit) + 1))[:n]
        probe = 1000
        r0 = self._oracle([["c13.o.cesrender", 1, 8, long_msg(probe), [], [], 1], ["c13.o.render", 8, long_msg(probe), [], []]], "longprobe")
        if r0[0] and r0[1]:
            over_c, over_w = len(bytes(r0[0][0])) - probe, len(bytes(r0[1][2])) - probe
            qs = []
            for n in self.LONG_SIZES:
                qs.append(["c13.o.cesrender", 1, 8, long_msg(n - over_c), [], [], 1])
                qs.append(["c13.o.render", 8, long_msg(n - over_w), [], []])
            many = [[b"x-t%d" % i, [b"value-%d-of-a-trailer-that-is-long" % i] * 3] for i in range(700)]    # ~ 90 KiB of metadata / trailers
            qs.append(["c13.o.cesrender", 1, 13, b"oops", [], many, 0])
            qs.append(["c13.o.render", 13, b"oops", [], many])
            rs = self._oracle(qs, "long")
            for i, (qq, r) in enumerate(zip(qs, rs)):
                if not r:
                    continue
                if qq[0] == "c13.o.cesrender":
                    t = bytes(r[0])
                    add("long-connect-end-stream-%d" % len(t), rng.choice([0, 3]), 1, 200, b"application/connect+proto",
                        parts=[(1, 0, b"")] * (i % 2) + [(1, 2, t)], ended=qq[2])
                else:
                    t = bytes(r[2])
                    add("long-grpcweb-end-stream-%d" % len(t), rng.choice([2, 4]), 1, 200, b"application/grpc-web+proto",
                        parts=[(1, 0, b"")] * (i % 2) + [(1, 0x80, t)], ended=qq[1])
        return out


PROP = C13()
