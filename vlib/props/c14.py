"""C14 — body tracing reconstructs the exact message sequence and never alters the data."""
import itertools
import os
import struct
import zlib
from .. import core
from ..core import Prop

# (plain, compressed) pairs produced once by the repository's own compressors
# (harness/C14/internal/tracer: TestVerifC14Fixtures); decompress(compress(x)) = x is the oracle.
_FIX = {
    "gzip": [
        ("7b7d", "1f8b08000000000000ffaaae05040000ffff43bfa6a302000000"),
        ("7b226572726f72223a7b22636f6465223a22696e7465726e616c222c226d657373616765223a22626f6f6d227d7d", "1f8b08000000000000ffaa564a2d2aca2f52b2aa564ace4f4955b252cacc2b492dca4bcc51d251ca4d2d2e4e4c070926e5e7e72ad5d602020000ffff4cd935982e000000"),
        ("7b226d65746164617461223a7b22782d747261696c6572223a5b2261222c2262225d7d7d", "1f8b08000000000000ffaa56ca4d2d494c492c4954b2aa56aad02d294acccc492d52b28a564a54d2514a528aadad05040000ffff60b121d224000000"),
        ("677270632d7374617475733a20300d0a", "1f8b08000000000000ff4a2f2a48d62d2e492c292db65230e0e502040000fffffd6c24ab10000000"),
        ("677270632d7374617475733a2031330d0a677270632d6d6573736167653a206f6f70730d0a782d62696e3a204141450d0a", "1f8b08000000000000ff4a2f2a48d62d2e492c292db6523034e6e5020be4a6161727a6a75a29e4e71714f37255e82665e65929383abaf27201020000ffff76db30bd31000000"),
        ("5a", "1f8b08000000000000ff8a02040000ffff6757bc5901000000"),
    ],
    "br": [
        ("7b7d", "8b00807b7d03"),
        ("7b226572726f72223a7b22636f6465223a22696e7465726e616c222c226d657373616765223a22626f6f6d227d7d", "1b2d000084483df2e302bdd9c65b1a6f0a1b70229007f920725a54ca70c9888acbd8ce53e411b7fbdb05"),
        ("7b226d65746164617461223a7b22782d747261696c6572223a5b2261222c2262225d7d7d", "8b11807b226d65746164617461223a7b22782d747261696c6572223a5b2261222c2262225d7d7d03"),
        ("677270632d7374617475733a20300d0a", "8b0780677270632d7374617475733a20300d0a03"),
        ("677270632d7374617475733a2031330d0a677270632d6d6573736167653a206f6f70730d0a782d62696e3a204141450d0a", "1b300000e46dfb82e33b8e237a3e476b54233a29695016b290444559bdae4f8eecf942a854045496909907c2e7b18f906a4300"),
        ("5a", "0b00805a03"),
    ],
    "zstd": [
        ("7b7d", "28b52ffd04001100007b7dd194f27a"),
        ("7b226572726f72223a7b22636f6465223a22696e7465726e616c222c226d657373616765223a22626f6f6d227d7d", "28b52ffd04007101007b226572726f72223a7b22636f6465223a22696e7465726e616c222c226d657373616765223a22626f6f6d227d7de3226796"),
        ("7b226d65746164617461223a7b22782d747261696c6572223a5b2261222c2262225d7d7d", "28b52ffd04002101007b226d65746164617461223a7b22782d747261696c6572223a5b2261222c2262225d7d7da5378a82"),
        ("677270632d7374617475733a20300d0a", "28b52ffd0400810000677270632d7374617475733a20300d0a6b29ca61"),
        ("677270632d7374617475733a2031330d0a677270632d6d6573736167653a206f6f70730d0a782d62696e3a204141450d0a", "28b52ffd0400890100677270632d7374617475733a2031330d0a677270632d6d6573736167653a206f6f70730d0a782d62696e3a204141450d0a71f9cb00"),
        ("5a", "28b52ffd04000900005a0b57355f"),
    ],
    "deflate": [
        ("7b7d", "789caaae05040000ffff017500f9"),
        ("7b226572726f72223a7b22636f6465223a22696e7465726e616c222c226d657373616765223a22626f6f6d227d7d", "789caa564a2d2aca2f52b2aa564ace4f4955b252cacc2b492dca4bcc51d251ca4d2d2e4e4c070926e5e7e72ad5d602020000ffff72f30fd3"),
        ("7b226d65746164617461223a7b22782d747261696c6572223a5b2261222c2262225d7d7d", "789caa56ca4d2d494c492c4954b2aa56aad02d294acccc492d52b28a564a54d2514a528aadad05040000ffffe6890bf5"),
        ("677270632d7374617475733a20300d0a", "789c4a2f2a48d62d2e492c292db65230e0e502040000ffff332e051f"),
        ("677270632d7374617475733a2031330d0a677270632d6d6573736167653a206f6f70730d0a782d62696e3a204141450d0a", "789c4a2f2a48d62d2e492c292db6523034e6e5020be4a6161727a6a75a29e4e71714f37255e82665e65929383abaf27201020000ffff9df10f59"),
        ("5a", "789c8a02040000ffff005b005b"),
    ],
    "snappy": [
        ("7b7d", "ff060000734e6150705901060000cf3dd7437b7d"),
        ("7b226572726f72223a7b22636f6465223a22696e7465726e616c222c226d657373616765223a22626f6f6d227d7d", "ff060000734e61507059013200003ce194467b226572726f72223a7b22636f6465223a22696e7465726e616c222c226d657373616765223a22626f6f6d227d7d"),
        ("7b226d65746164617461223a7b22782d747261696c6572223a5b2261222c2262225d7d7d", "ff060000734e61507059012800007d04f8917b226d65746164617461223a7b22782d747261696c6572223a5b2261222c2262225d7d7d"),
        ("677270632d7374617475733a20300d0a", "ff060000734e6150705901140000ce700e3e677270632d7374617475733a20300d0a"),
        ("677270632d7374617475733a2031330d0a677270632d6d6573736167653a206f6f70730d0a782d62696e3a204141450d0a", "ff060000734e6150705901350000cd2f8a47677270632d7374617475733a2031330d0a677270632d6d6573736167653a206f6f70730d0a782d62696e3a204141450d0a"),
        ("5a", "ff060000734e61507059010500004dbcf7e55a"),
    ],
}
FIXTURES = {enc: [(bytes.fromhex(p), bytes.fromhex(c)) for p, c in v] for enc, v in _FIX.items()}
# payloads every one of the five real decompressors refuses (checked by TestVerifC14Fixtures)
GARBAGE = [b"\xff\xff\xff\xff", b"{}", b"not compressed at all", b"\x00"]
PLAINS = [p for p, _ in FIXTURES["gzip"]]
NAMED = ["gzip", "br", "zstd", "deflate", "snappy"]

DNIL, DIDENT, DBROKEN, DNAMED = 0, 1, 2, 3
IONONE, IOEOF, IOFAIL = 0, 1, 2


def envelope(flags, payload, declared=None):
    n = len(payload) if declared is None else declared
    return bytes([flags]) + struct.pack(">I", n) + payload


def compositions(n):
    """all ways to cut n bytes into consecutive non-empty chunks (2^(n-1); [[]] for n = 0)"""
    if n == 0:
        yield []
        return
    for bits in range(1 << (n - 1)):
        out, run = [], 1
        for i in range(n - 1):
            if bits >> i & 1:
                out.append(run)
                run = 1
            else:
                run += 1
        out.append(run)
        yield out


def cut(body, sizes):
    out, p = [], 0
    for k in sizes:
        out.append(body[p:p + k])
        p += k
    if p < len(body):
        out.append(body[p:])
    return out


def kind_of_encoding(name):
    n = name.lower()
    if n in ("", "identity"):
        return DIDENT
    if n in NAMED:
        return DNAMED
    return DBROKEN


def props_of(ct, cenc, connenc, grpcenc):
    """python transcription used only to pick payloads the oracle table can answer for"""
    if cenc != "":
        return False, DBROKEN, ""
    c = ct.lower()
    if c.startswith("application/connect"):
        return True, kind_of_encoding(connenc), connenc.lower()
    if c.startswith("application/grpc"):
        return True, kind_of_encoding(grpcenc), grpcenc.lower()
    return False, DBROKEN, ""


FLAG_POOL = [0, 0, 0, 1, 1, 2, 3, 0x80, 0x81, 0x82, 0xFF, 0x7D, 0x04]


class Gen:
    def __init__(self, rng):
        self.rng = rng

    def payload(self, n):
        return bytes(self.rng.randrange(256) for _ in range(n))

    def message(self, req, dk, enc, end=None, maxlen=600):
        """one envelope: (bytes, boundary offsets relative to its start, table entries)"""
        rng = self.rng
        flags = rng.choice(FLAG_POOL) if rng.random() < 0.8 else rng.randrange(256)
        if end is not None:
            flags = end
        table = []
        is_end = (flags & 0x82) != 0
        if is_end and (flags & 1) and dk == DNAMED and not req:
            # the real decompressor will run on this payload: only payloads with a known answer
            r = rng.random()
            if r < 0.6:
                plain, comp = rng.choice(FIXTURES[enc])
                payload = comp
                table.append([comp, [plain]])
            elif r < 0.9:
                payload = rng.choice(GARBAGE)
            else:
                payload = b""
        elif is_end and rng.random() < 0.7:
            r = rng.random()
            if r < 0.6:
                payload = rng.choice(PLAINS)
            elif r < 0.8 and enc in FIXTURES:
                payload = rng.choice(FIXTURES[enc])[1]      # compressed bytes, but not flagged as such
            else:
                payload = self.payload(rng.choice([0, 1, 2, 17]))
        else:
            n = rng.choice([0, 0, 1, 1, 2, 3, 4, 5, 6]) if rng.random() < 0.75 else rng.randint(0, maxlen)
            payload = self.payload(n)
        return envelope(flags, payload), table

    def stream(self, req, dk, enc, nmax=5, maxlen=600):
        rng = self.rng
        body, bounds, table = b"", [], []
        n = rng.randint(0, nmax)
        for i in range(n):
            end = None
            if i == n - 1 and not req and rng.random() < 0.5:
                end = rng.choice([2, 3, 0x80, 0x81, 0x82, 0x83])
            m, t = self.message(req, dk, enc, end, maxlen)
            bounds.append(len(body) + 5)
            body += m
            bounds.append(len(body))
            for e in t:
                if e not in table:
                    table.append(e)
        return body, bounds, table

    def chunking(self, n, bounds=()):
        rng = self.rng
        mode = rng.randrange(8)
        if mode == 0:
            return [n]
        if mode == 1 and n <= 400:
            return [1] * n
        if mode == 2:
            out, last = [], 0
            for b in bounds:
                if last < b <= n and rng.random() < 0.8:
                    out.append(b - last)
                    last = b
            return out
        if mode == 3:
            out, last = [], 0                      # one byte before / after each boundary
            for b in bounds:
                for x in (b - 1, b + 1):
                    if last < x <= n and rng.random() < 0.7:
                        out.append(x - last)
                        last = x
            return out
        hi = rng.choice([2, 3, 7, 64, 1000])
        out, tot = [], 0
        while tot < n and len(out) < 500:
            k = 0 if (mode >= 6 and rng.random() < 0.25) else rng.randint(1, hi)
            out.append(k)
            tot += k
        return out


CONTENT_TYPES_STREAM = ["application/connect+proto", "application/connect+json", "application/grpc", "application/grpc+proto",
                        "application/grpc-web+proto", "application/grpc-web-text", "APPLICATION/Connect+Proto", "application/connectx"]
CONTENT_TYPES_UNARY = ["application/proto", "application/json", "", "text/plain", "application/x-connect", " application/grpc"]
ENC_NAMES = ["", "identity", "gzip", "br", "zstd", "deflate", "snappy", "GZIP", "Identity", "x-unknown", "gzip "]


def headers_for(rng, want_stream=True):
    ct = rng.choice(CONTENT_TYPES_STREAM if want_stream else CONTENT_TYPES_UNARY)
    enc = rng.choice(ENC_NAMES)
    other = rng.choice(["", "", "gzip", "zstd"])
    cenc = "" if rng.random() < 0.93 else "gzip"
    if ct.lower().startswith("application/connect"):
        return [ct, cenc, enc, other]
    return [ct, cenc, other, enc]


def pat(n, seed):
    """the pattern both sides expand from (length, seed): C14_Model.pat_bytes / verifC14PatBytes"""
    return bytes(((seed & 255) + 13 * (i & 255) + ((i >> 8) & 255)) & 255 for i in range(n))


def gzip_bytes(data, level):
    """a gzip stream (any valid one will do: what is under test is the DEcompressor); level 0 = stored blocks,
    so the compressed form is longer than the plain one"""
    c = zlib.compressobj(level, zlib.DEFLATED, 31)
    return c.compress(data) + c.flush()


K64 = 65536


class C14(Prop):
    id = "C14"
    props = "C14_Props"
    coq_files = ("Base", "C14_Http", "C14_Server", "C14_Model", "C14_Spec", "C14_Proofs", "C14_Alias", "C14_HttpProofs",
                 "C14_ServerProofs", "C14_Props")
    models = ("C14_Model",)
    packages = {"tr": "internal/tracer", "rs": "internal/app/referenceserver"}
    kinds = {"c14.raw": "tr", "c14.reader": "tr", "c14.writer": "tr", "c14.props": "tr", "c14.rt": "tr", "c14.handler": "tr",
             "c14.long": "tr", "c14.observed": "tr", "c14.server": "rs", "c14.probe": "rs"}
    rule = ("envelope sequences (0-5 messages; flags from {0,1,2,3,0x80,0x81,0x82,0xff,...} and random 0..255; lengths 0,1,..6 and random <= 600; "
            "end-stream messages for Connect (0x02) and gRPC-Web (0x80), flagged compressed or not, payload = output of the repository's own "
            "compressor for the negotiated encoding / plain text / refused garbage / empty; negotiated encoding identity, the five named ones, "
            "unknown, none) x ALL compositions into chunks of every body <= 13 bytes (quick; 15 thorough) and of every truncation of it x random "
            "chunkings (single, byte-by-byte, boundary-aligned, boundary+-1, random with empty chunks) of larger ones x every truncation point of "
            "medium streams, request and response side, through three entry points: raw dataTracer.trace/emitUnfinished (c14.raw), "
            "newReader/tracingReader.Read/Close with a scripted inner reader incl. data+EOF, (0,EOF), other error, Close, calls after the end "
            "(c14.reader), tracingResponseWriter.Write/tryFinish with scripted (n, err) incl. short writes (c14.writer); the same scripts through TracingRoundTripper with a fake transport "
            "(c14.rt: response pointer, status, headers, trailers unchanged) and TracingHandler with a fake ResponseWriter (c14.handler: status, "
            "headers, trailers reach the inner writer); heap allocation around every tracer call metered against 16 MiB + 64 x bytes traced; header detection "
            "(c14.props). Around the bodies: c14.handler with a request (method x ContentLength -1/0/n x Content-Length header absent / present / "
            "empty / disagreeing x body none / chunks / chunked x header sets; constructed as net/http's server does, and as a real exchange over a "
            "loopback httptest server) and c14.rt with a response (status x ContentLength x headers x trailers stored at EOF; request with "
            "http.NoBody, Body == nil, declared or unknown length, read to the end by the scripted transport): every exchange is run WITHOUT and "
            "WITH tracing and the application's view (request line, headers, ContentLength, body reads; status, headers, trailers; the caller's "
            "own request afterwards) must be identical, and equal to the model's (identity + the request headers the trace reports, with the "
            "synthesised Content-Length). Caller's memory: every slice the tracer is handed (trace, Read, Write; raw, reader, writer, rt, handler) is a window "
            "of ONE long-lived array with spare capacity behind it; every script runs under two disciplines - 'reuse' (same window every call, "
            "whole array scribbled over between calls) and 'accumulate' (consecutive windows, earlier data left in place) - whose results must be "
            "identical; after every call the whole array is compared with a private image built from copies taken before the call (bytes the "
            "application sees = bytes the inner reader produced; nothing else in its memory written). Systematic: the 5-byte prefix cut at every "
            "position (all 16 compositions) x 6 messages x 6 contexts (zero-length neighbours, partial follower) x 3 payload arrivals, end-stream "
            "messages cut at every position (all single cuts, all pairs with the first in the prefix) x 6 encodings x 5 flag/payload variants, every "
            "1/2/3-cut of a body full of zero-length messages, truncation at every byte x (one chunk, byte-wise, every single cut), through every entry point. "
            "Compared: event list (kind, side, index, flags, declared length, byte count, end-stream content, body-end error class) "
            "and the bytes/counts/errors the wrapper's caller got. non-trivial = at least one data event. "
            "Glue around the cores (third wave): c14.long - end-stream messages of 64 KiB - 1, 64 KiB, 64 KiB + 1, 100 KiB and 1 MiB from a compact "
            "description (length, seed) expanded identically on both sides, uncompressed / flagged under the identity decompressor / gzip stored "
            "(capture longer than 64 KiB) / gzip deflated (short capture, long content) / refused / request side, cut in the prefixes, at the payload "
            "start, around the 64 KiB mark, into 32 and 64 KiB reads, through raw, reader, writer, rt and handler (long byte strings compared by length, "
            "two checksums, first and last 16 bytes); c14.server - the REAL createServer in reference mode with a tracer.Tracer on loopback, HTTP/1.1 and "
            "h2c, asked by a plain net/http client through a unary RPC, a server stream and a gRPC-Web server stream for a raw response (0-3 enveloped "
            "messages incl. zero-length, end-stream or not, declared length differing from the payload's, compressed end-stream, unary bodies, status 0 / "
            "200 / 404 / 418 / 500): status and body on the wire, status and response events of the awaited trace, against the model of createServer's "
            "handler chain; c14.probe -> c14.observed - ordinary responses (data, error, several messages; Connect unary / stream, gRPC-Web), the model "
            "run on the bytes the plain client received; c14.rt with a response that has no body - the transport returns http.NoBody or an empty reader, "
            "and real exchanges over loopback answered with Content-Length: 0, 204, 304, to HEAD (and with bodies of known / unknown length): one "
            "body-end event, the trace completed exactly once (bounded wait of 2 s)")
    trusted_base = ("Coq 8.16.1 kernel", "extraction (ExtrOcamlBasic only) + ocaml/driver.ml",
                    "vlib generators/comparator, Go overlay harness (scripted inner reader / response writer, recording Collector, re-used caller array "
                    "with private image)",
                    "modelled not verified: the decompressors (a Section variable in the theorems; a table of compress->plain pairs made by the "
                    "repository's compressors when the model is run), net/http itself (the plumbing of TracingRoundTripper/TracingHandler around it is "
                    "modelled at the level of header-map references in C14_Http; client-side newBuilder's httptrace hook is not), "
                    "sync.Mutex / atomic.Bool (single goroutine per body)",
                    "the order of createServer's handler chain is a nest of closures, not a value the compiled code can print: the model's "
                    "create_server_chain is tied to it only by the c14.server / c14.observed exchanges with the real server; the layers other than "
                    "rawResponder and the tracer are modelled as passing the response body through",
                    "long bodies (c14.long) are compared by projection: length, sum and sum-of-running-sums mod 2^32, first and last 16 bytes")
    assumptions = ("one goroutine reads or writes a given body at a time (the mutex is not modelled)",
                   "value semantics: the model's tracer state holds copies of the bytes it keeps; the Go code implements that only by copying out of "
                   "the caller's slice (io.Reader/io.Writer: p must not be retained) - made explicit in C14_Alias (caller's memory, prefix as own storage "
                   "or window of the caller's array; copying_is_value_semantics; alias_variant_refuted) and checked on the Go side by re-used, "
                   "scribbled-over caller buffers with spare capacity",
                   "bytes are < 256 and declared lengths < 2^32 (uint32 prefix)",
                   "flags & 0x82 != 0 marks an end-stream message on the response side whatever the protocol (as the code does: 0x02 Connect, 0x80 gRPC-Web)",
                   "a body cut exactly after a 5-byte prefix of a non-empty message yields no partial event (0 payload bytes seen): pinned, "
                   "not claimed either way by the property text ('part-way through')")
    level_text = ("Machine-checked proof (Coq) that the model of dataTracer (prefix/payload state machine, end-stream capture, emitUnfinished), "
                  "builder indices and the tracingReader / tracingResponseWriter wrappers produces, for all envelope sequences, all partitions of "
                  "the bytes into chunks (empty and 1-byte chunks included) and all truncation points, exactly the events a one-shot declarative "
                  "parse of the whole body gives, ends with a single body-end event, decompresses the end-stream content exactly when the "
                  "envelope's compressed bit is set, and hands the caller exactly the inner bytes/counts/errors; at the level of an explicit caller memory, the copying tracer never writes to "
                  "the caller's array and yields the same events whatever the caller does with its buffers between calls, while the variant that retains "
                  "the caller's slice is refuted; headers as references (heap of header maps): the wrapped handler is given a request with the same "
                  "method, ContentLength and header contents, no earlier map is written to and the trace reports the synthesised Content-Length in "
                  "a map of its own (handler_sees_same_request; the non-cloning variant is refuted), and behind TracingRoundTripper the application "
                  "gets the status, ContentLength, headers and trailers of the untraced call for every transport that answers by content "
                  "(client_sees_same_response); the end-stream content event carries the WHOLE payload (or the whole output of the decompressor "
                  "run on the whole payload) for every length (end_stream_content_exact); with the handler chain as createServer installs it - "
                  "tracing outside rawResponder - the tracing layer records exactly the response that leaves the server, raw or ordinary "
                  "(trace_sees_wire_bytes, tracing_outside_sees_wire, raw_response_reaches_wire, server_trace_is_parse_of_wire; the chain with "
                  "tracing inside rawResponder is refuted); a response body without bytes yields exactly one body-end event and a finished trace "
                  "(empty_body_single_body_end); the model is tied to the Go code "
                  "by a bounded-exhaustive plus random differential run on every check, which includes exchanges with the real createServer and "
                  "real HTTP/1.1 round trips through TracingRoundTripper.")
    level_note = ("Trusted: Coq kernel, extraction, OCaml driver, harness; model-to-code correspondence is sampled (all compositions of bodies "
                  "<= 13/15 bytes and of their truncations), not proved. Decompressors are an oracle. The pass-through theorem is about the model's "
                  "wrapper contract; that the Go wrappers meet it is what the differential run checks (identity of error values, bytes, counts, "
                  "header map). The handler-chain order is modelled by hand (not regenerated from the code) and checked only through the live "
                  "exchanges of c14.server / c14.observed; ordinary server responses are observed first and the model is run on the observed bytes "
                  "(a replay of such a case re-runs the tracer on those bytes, not the exchange).")
    technique = ("Coq proof: trace (a ++ b) = trace a ; trace b under a state invariant, induction over the chunk list, then equality of the "
                 "one-shot run with a declarative parser; differential model-vs-Go correspondence")
    go_timeout = 600

    def nontrivial(self, case, res):
        return "64617461" in res

    def describe(self, case, g, m):
        import re
        tags = []
        for h in re.findall(r"\(#657272 #([0-9a-f]+)", g or ""):
            try:
                tags.append(bytes.fromhex(h).decode())
            except ValueError:
                pass
        extra = (" [harness: %s]" % ", ".join(tags)) if tags else ""
        return "body tracing: implementation differs from the proved model (= declarative parse of the whole body)" + extra

    # ------------------------------------------------------------------ oracle stage (Go side only)
    def _oracle(self, queries, label):
        """queries: [kind, payload...] -> parsed results.  Used for exchanges with the real reference server whose
        response bytes cannot be predicted (c14.probe): the observation becomes a c14.observed case."""
        if not queries:
            return []
        work = os.path.join(core.BUILD, self.id, "oracle")
        os.makedirs(work, exist_ok=True)
        by_tag = {}
        for i, q in enumerate(queries):
            by_tag.setdefault(self.kinds[q[0]], []).append(core.sx([q[0], i] + list(q[1:])))
        res = {}
        for tag, lines in by_tag.items():
            cp = os.path.join(work, "%s.%s.cases" % (label, tag))
            with open(cp, "w") as f:
                f.write("\n".join(lines) + "\n")
            out = os.path.join(work, "%s.%s.out" % (label, tag))
            core.run_go(core.go_test_bin(self, self.packages[tag]), self.packages[tag], cp, out, timeout=300)
            for line in open(out):
                line = line.strip()
                if line:
                    v = core.parse_sx(line)
                    res[v[0]] = v[1]
        return [res.get(i) for i in range(len(queries))]

    # ------------------------------------------------------------------ generators
    def generate(self, rng, tier):
        quick = tier == "quick"
        g = Gen(rng)
        gz = FIXTURES["gzip"]

        def raw(req, stream, dk, enc, table, chunks):
            return ["c14.raw", req, stream, dk, enc, table, chunks]

        def reader_ops(chunks, ending):
            ops = [[0, ch, IONONE, rng.choice([0, 0, 1, 7])] for ch in chunks]
            if ending == "eof-with-data" and ops:
                ops[-1][2] = IOEOF
            elif ending in ("eof", "eof-with-data"):
                ops.append([0, b"", IOEOF, rng.choice([0, 3])])
            elif ending == "fail-with-data" and ops:
                ops[-1][2] = IOFAIL
            elif ending in ("fail", "fail-with-data"):
                ops.append([0, b"", IOFAIL, 4])
            elif ending == "close":
                ops.append([1, 0])
            elif ending == "close-fail":
                ops.append([1, 1])
            elif ending == "eof-close":
                ops += [[0, b"", IOEOF, 2], [1, rng.randrange(2)]]
            elif ending == "eof-more":
                ops += [[0, b"", IOEOF, 2], [0, b"\x00\x00\x00\x00\x01x", rng.choice([IONONE, IOEOF, IOFAIL]), 0], [1, 0], [1, 1]]
            elif ending == "close-more":
                ops += [[1, 0], [0, b"late", IOEOF, 0], [1, 0]]
            return ops
        endings = ["eof", "eof", "eof-with-data", "eof-with-data", "fail", "fail-with-data", "close", "close-fail", "eof-close",
                   "eof-more", "close-more", "none"]

        def writer_ops(chunks, failing=None):
            ops = []
            for i, ch in enumerate(chunks):
                if failing is not None and i == failing:
                    ops.append([ch, rng.randint(0, len(ch)), 1])
                else:
                    ops.append([ch, len(ch), 0])
            return ops

        conn = ["application/connect+proto", "", "", ""]

        # 1. bounded-exhaustive: ALL compositions of every small body and of every truncation of it
        lim = 14 if quick else 15
        small = [
            (b"", []),
            (envelope(0, b""), []),
            (envelope(1, b"a"), []),
            (envelope(0, b"ab"), []),
            (envelope(0, b"") + envelope(1, b""), []),
            (envelope(0, b"") + envelope(0, b"x"), []),
            (envelope(0, b"a") + envelope(0, b""), []),
            (envelope(2, b"{}"), []),
            (envelope(3, b"{}"), []),
            (envelope(0x80, b"Z"), []),
            (envelope(0, b"abcdef"), []),
            (envelope(0, b"abc", declared=2), []),             # bytes after a complete message start a new prefix
            (envelope(0x7D, b"q", declared=0x01000000), []),    # payload cut short of a large declared length
            (envelope(0xFF, b"q", declared=0x0100), []),        # the same inside an end-stream message (buffer sized by the prefix)
            (envelope(0, b"abcdefgh"), []),
            (envelope(2, b"{}") + envelope(0, b"ab"), []),
            (envelope(0, b"") + envelope(1, b"") + envelope(0x80, b""), []),
        ]
        for body, _ in small:
            if len(body) > lim:
                continue
            for cutp in range(len(body) + 1):
                t = body[:cutp]
                full = cutp == len(body)
                if len(t) > (11 if quick else 12) and not full:
                    comps = [g.chunking(len(t)) for _ in range(60)]
                else:
                    comps = compositions(len(t))
                for comp in comps:
                    chunks = cut(t, comp)
                    req = rng.random() < 0.5
                    yield raw(req, 1, rng.choice([DNIL, DIDENT, DBROKEN]), "", [], chunks)
                    if full or rng.random() < 0.1:
                        yield raw(not req, 1, DIDENT, "", [], chunks)
        # the same through the wrappers for a few bodies (every composition)
        for body in (envelope(0, b"a"), envelope(2, b"{}"), envelope(0, b"") + envelope(1, b""), envelope(0x80, b"Z") + b"\x01\x02",
                     envelope(0, b"abc", declared=2), envelope(1, b"") + envelope(3, b"Z"), envelope(2, b"{}") + envelope(0, b""),
                     envelope(0, b"") + envelope(0x80, b"Zq"), envelope(1, b"ab") + b"\x00\x00\x00\x00"):
            for cutp in range(len(body) + 1):
                t = body[:cutp]
                if cutp < len(body) and len(t) > 9:
                    continue
                for comp in compositions(len(t)):
                    chunks = cut(t, comp)
                    yield ["c14.reader", rng.random() < 0.5, conn, [], reader_ops(chunks, rng.choice(endings))]
                    yield ["c14.writer", conn, [], writer_ops(chunks, None if rng.random() < 0.8 else rng.randrange(len(chunks) + 1))]
        # compressed end-stream under a named encoding, every composition of the envelope's first bytes + rest
        for enc in NAMED:
            plain, comp = FIXTURES[enc][0]
            for flags, payload in ((3, comp), (2, b"{}"), (2, comp), (3, b"{}"), (0x81, comp), (0x80, b"Z"), (1, comp), (0, b"{}")):
                body = envelope(0, b"m") + envelope(flags, payload)
                table = [[comp, [plain]]]
                hdr = ["application/connect+json", "", enc, ""] if flags & 2 or not flags & 0x80 else ["application/grpc-web+proto", "", "", enc]
                for _ in range(6 if quick else 40):
                    chunks = cut(body, g.chunking(len(body), [5, 6, 11, len(body)]))
                    yield raw(0, 1, DNAMED, enc, table, chunks)
                    yield ["c14.reader", 0, hdr, table, reader_ops(chunks, rng.choice(endings))]
                    yield ["c14.writer", hdr, table, writer_ops(chunks)]
                yield raw(1, 1, DNAMED, enc, table, [body])
                for cutp in range(len(body)):
                    yield raw(0, 1, DNAMED, enc, table, cut(body[:cutp], g.chunking(cutp, [5, 6, 11])))
        # zero-length chunks sprinkled into exhaustive compositions
        for body in (envelope(0, b"a"), envelope(2, b"{}") + envelope(0, b"")):
            for comp in compositions(len(body)):
                chunks = []
                for ch in cut(body, comp):
                    chunks.extend([b""] * rng.randrange(3))
                    chunks.append(ch)
                chunks += [b""] * rng.randrange(3)
                yield raw(rng.random() < 0.5, 1, DIDENT, "", [], chunks)
                yield ["c14.reader", 0, conn, [], reader_ops(chunks, "eof")]

        # 1b. systematic splits through EVERY entry point.  (The Go drivers hand the tracer windows of ONE
        #     re-used, scribbled-over array with spare capacity - see the harness - so whatever the tracer
        #     keeps from one call to the next must be its own copy.)
        def finishing(ops):
            return any(o[0] == 1 or o[2] != IONONE for o in ops)

        def through_all(hdr, table, chunks, k, light=False):
            stream, dk, enc = props_of(*hdr)
            yield raw(k % 2, stream, dk, enc, table, chunks)
            if not light or k % 4 == 0:
                yield raw(1 - k % 2, stream, dk, enc, table, chunks)
            ops = reader_ops(chunks, endings[k % len(endings)])
            wops = writer_ops(chunks, None if k % 5 else rng.randrange(len(chunks) + 1))
            if not light or k % 2 == 0:
                yield ["c14.reader", k % 3 == 0, hdr, table, ops]
            if not light or k % 2 == 1:
                yield ["c14.writer", hdr, table, wops]
            if k % 2 == 0:
                if finishing(ops) and (not light or k % 4 == 0):
                    yield ["c14.rt", 0, hdr, table, ops]
            elif not light or k % 4 == 1:
                yield ["c14.handler", hdr, table, wops]

        gzp, gzc = gz[1]
        gzhdr = ["application/connect+json", "", "gzip", ""]
        gztab = [[gzc, [gzp]]]
        long_payload = bytes((7 * i + 1) % 251 for i in range(258))
        # (a) the 5-byte prefix cut at every position (all 16 compositions: 5, 1+4, 2+3, 3+2, 4+1, 1+1+3, ... 1+1+1+1+1)
        #     x what precedes / follows it x how the payload arrives.  Prefix bytes pairwise different where possible.
        split_msgs = [
            (envelope(1, b"hello world"), conn, []),
            (envelope(0, b""), conn, []),
            (envelope(0x80, b"Z"), ["application/grpc-web+proto", "", "", ""], []),
            (envelope(2, b"{}"), conn, []),
            (envelope(3, gzc), gzhdr, gztab),
            (envelope(0x7D, long_payload), conn, []),            # 7d 00 00 01 02
        ]
        contexts = [
            (b"", b""),
            (envelope(0, b"ab"), b""),
            (envelope(1, b""), envelope(0, b"")),
            (envelope(0, b"") + envelope(0, b""), envelope(0, b"xy")),
            (b"", envelope(4, b"xyz")[:3]),
            (envelope(0, b"q"), envelope(0, b"xyz")[:6]),
        ]
        k = 0
        for msg, hdr, table in split_msgs:
            for pre, post in contexts:
                rest = msg[5:] + post
                for comp in compositions(5):
                    frags = cut(msg[:5], comp)
                    for glue_pre in ((0, 1) if pre else (0,)):
                        for pay in (0, 1, 2):
                            chunks = [pre + frags[0]] if glue_pre else ([pre] if pre else []) + [frags[0]]
                            chunks += frags[1:]
                            if pay == 0:
                                chunks[-1] = chunks[-1] + rest          # payload glued to the last fragment
                            elif pay == 1:
                                if rest:
                                    chunks.append(rest)
                            else:
                                h = (len(rest) + 1) // 2
                                chunks += [c_ for c_ in (rest[:h], b"", rest[h:]) if c_ or rng.random() < 0.3]
                            k += 1
                            yield from through_all(hdr, table, chunks, k)
        # (b) an end-stream message cut at every position (every single cut through every entry point; every
        #     pair of cuts whose first lies in or at the ends of its prefix), each negotiated encoding
        for enc in NAMED + [""]:
            if enc:
                plain, comp_ = FIXTURES[enc][3]
                table = [[comp_, [plain]]]
            else:
                plain, comp_, table = PLAINS[3], PLAINS[3], []
            for flags, payload in ((3, comp_), (2, b"{}"), (0x81, comp_), (0x80, plain), (2, comp_)):
                if flags & 0x80:
                    hdr = ["application/grpc-web+proto", "", "", enc]
                else:
                    hdr = ["application/connect+json", "", enc, ""]
                body = envelope(0, b"m") + envelope(flags, payload)
                for i in range(len(body) + 1):
                    k += 1
                    chunks = [c_ for c_ in (body[:i], body[i:]) if c_]
                    yield from through_all(hdr, table, chunks, k)
                stream, dk, _ = props_of(*hdr)
                for i in range(6, 12):
                    for j in range(i + 1, len(body) + 1):
                        k += 1
                        chunks = [body[:i], body[i:j]] + ([body[j:]] if j < len(body) else [])
                        yield raw(0, stream, dk, enc, table, chunks)
                        if k % 3 == 0:
                            yield ["c14.reader", 0, hdr, table, reader_ops(chunks, endings[k % len(endings)])]
                        elif k % 3 == 1:
                            yield ["c14.writer", hdr, table, writer_ops(chunks)]
        # (c) zero-length messages next to the cuts: every 1-, 2- and 3-cut of a body full of them, an empty chunk at a cut
        zbody = envelope(0, b"") + envelope(1, b"") + envelope(0, b"a") + envelope(0, b"") + envelope(2, b"{}") + envelope(0x80, b"")
        nz = len(zbody)
        for ncuts in (1, 2, 3):
            for cuts in itertools.combinations(range(1, nz), ncuts):
                k += 1
                pts = [0] + list(cuts) + [nz]
                chunks = [zbody[a:b] for a, b in zip(pts, pts[1:])]
                if k % 4 == 0:
                    chunks.insert(rng.randrange(len(chunks) + 1), b"")
                if ncuts < 3:
                    yield from through_all(conn, [], chunks, k)
                else:
                    yield raw(k % 2, 1, DIDENT, "", [], chunks)
                    if k % 8 == 0:
                        yield ["c14.reader", 0, conn, [], reader_ops(chunks, endings[k % len(endings)])]
                    elif k % 8 == 1:
                        yield ["c14.writer", conn, [], writer_ops(chunks)]
        # (d) truncation at EVERY byte x (one chunk, byte by byte, every single cut, boundary-aligned)
        trunc_bodies = [
            (envelope(1, b"hello world") + envelope(0, b"") + envelope(2, b"{}"), conn, []),
            (zbody, conn, []),
            (envelope(0, b"m") + envelope(3, gzc), gzhdr, gztab),
            (envelope(0, b"ab") + envelope(0x80, PLAINS[3]), ["application/grpc-web+proto", "", "", ""], []),
            (envelope(0x7D, long_payload[:9]) + envelope(0, b"") + envelope(0, b"") + envelope(1, b"x"), conn, []),
        ]
        for body, hdr, table in trunc_bodies:
            stream, dk, enc = props_of(*hdr)
            for t in range(len(body) + 1):
                tb = body[:t]
                splits = [[tb] if tb else [], [tb[i:i + 1] for i in range(t)]]
                splits += [[tb[:i], tb[i:]] for i in range(1, t)]
                for chunks in splits:
                    k += 1
                    yield raw(k % 2, stream, dk, enc, table, chunks)
                    ending = ("eof", "fail", "close", "eof-with-data", "close-fail", "fail-with-data")[k % 6]
                    if k % 2:
                        ops = reader_ops(chunks, ending)
                        yield ["c14.reader", k % 4 == 1, hdr, table, ops]
                        if k % 4 == 3:
                            yield ["c14.rt", 0, hdr, table, ops]
                    else:
                        wops = writer_ops(chunks, None if k % 6 else rng.randrange(len(chunks) + 1))
                        yield ["c14.writer", hdr, table, wops]
                        if k % 4 == 0:
                            yield ["c14.handler", hdr, table, wops]

        # 1c. what the APPLICATION sees around the bodies (seeded C14-16: the synthesised Content-Length of the trace leaked
        #     into the headers of the request the wrapped handler is given - only on requests whose length is known
        #     but which carry no Content-Length header, i.e. body-less ones such as a Connect GET).
        #     c14.handler with a request: method x ContentLength (-1 / 0 / n) x Content-Length header (absent / present /
        #     empty / disagreeing) x body (none, one chunk, split, byte-wise; declared length or chunked) x header sets,
        #     constructed as net/http's server does (mode 0) and as a real exchange over loopback (mode 1);
        #     c14.rt with the response around the body: status x ContentLength x headers x trailers (stored at EOF).
        #     Both are run with and without tracing (Go side) and against the model (identity + the trace's headers).
        def hm(d):
            return [[k, list(v)] for k, v in sorted(d.items(), key=lambda kv: kv[0].encode())]

        base_req = {"X-Test-Case-Name": ["verif-c14"], "User-Agent": ["verif/1"], "Accept-Encoding": ["identity"]}
        req_sets = [
            {},
            {"Content-Type": ["application/connect+proto"], "Connect-Protocol-Version": ["1"]},
            {"Content-Type": ["application/proto"], "X-Multi": ["a", "b c"], "Connect-Timeout-Ms": ["200"]},
            {"Content-Type": ["application/grpc"], "Te": ["trailers"], "Grpc-Timeout": ["1S"], "X-Bin-Bin": ["AAEC", "/w=="]},
        ]
        qbody = envelope(0, b"ab") + envelope(1, b"") + envelope(0, b"xyz")
        qchunkings = [[qbody], [qbody[:3], qbody[3:]], [qbody[i:i + 1] for i in range(len(qbody))], [qbody[:7], qbody[7:12], qbody[12:]],
                      [qbody[:-2]], [b"{}"]]
        resp_scripts = [
            (conn, []),
            (conn, [envelope(0, b"m") + envelope(2, b"{}")]),
            (["application/grpc-web+proto", "", "", ""], [envelope(0, b"hello")[:4], envelope(0, b"hello")[4:] + envelope(0x80, b"grpc-status: 0\r\n")]),
            (["application/json", "", "", ""], [b"{", b"}"]),
        ]

        def req_shapes(live):
            """(method, ContentLength, Content-Length header or None, body chunks) as the SERVER finds them"""
            yield "GET", 0, None, []                      # a Connect GET: length known, no header (what C14-16 needs)
            yield "DELETE", 0, None, []
            yield "POST", 0, "0", []                      # net/http's client writes Content-Length: 0 for a body-less POST
            yield "PUT", 0, "0", []
            for ch in qchunkings:
                n = sum(len(c_) for c_ in ch)
                yield "POST", n, str(n), ch                # declared length
                yield "POST", -1, None, ch                 # chunked
            if not live:
                yield "POST", 0, None, []                  # a body-less HTTP/2 POST: no header, length 0
                yield "GET", -1, None, []
                yield "POST", 0, "", []                    # an empty Content-Length value counts as absent
                yield "OPTIONS", 0, None, []
                for ch in qchunkings[:3]:
                    n = sum(len(c_) for c_ in ch)
                    yield "POST", n, None, ch              # length known, header missing
                    yield "POST", n, str(n + 1), ch        # header disagreeing with the length: nothing synthesised
                    yield "PATCH", n, str(n), ch + [b""]

        k = 0
        for live in (0, 1):
            for method, clen, clh, chunks in req_shapes(live):
                for extra in req_sets:
                    for hd, writes in resp_scripts:
                        k += 1
                        if live and (k % 3) and not (method in ("GET", "DELETE")):
                            continue
                        h = dict(base_req)
                        h.update(extra)
                        if clh is not None:
                            h["Content-Length"] = [clh]
                        wops = writer_ops(writes, None if (live or k % 7) else rng.randrange(len(writes) + 1))
                        yield ["c14.handler", hd, [], wops, [live, method, clen, hm(h), chunks]]

        rbodies = [b"", envelope(0, b"abc") + envelope(2, b"{}"), envelope(1, b"hello world")[:9], b"plain text"]
        rhdr_sets = [
            (conn, {"Content-Type": ["application/connect+proto"], "X-Multi": ["a", "b"]}),
            (["application/grpc", "", "", ""], {"Content-Type": ["application/grpc"], "Grpc-Accept-Encoding": ["gzip,br"], "X-Bin-Bin": ["AAE"]}),
            (["application/json", "", "", ""], {"Content-Type": ["application/json"], "Content-Length": ["10"], "Vary": ["Origin", "Accept"]}),
            (["", "", "", ""], {}),
        ]
        trailer_sets = [{}, {"Grpc-Status": ["0"]}, {"Grpc-Message": ["m"], "Grpc-Status": ["13"], "X-Bin-Bin": ["a", "b"]}]
        for body in rbodies:
            for cutp in (0, len(body) // 2):
                chunks = [c_ for c_ in (body[:cutp], body[cutp:]) if c_] if cutp else ([body] if body else [])
                for ending in endings:
                    if ending == "none":
                        continue
                    for hd, rh in rhdr_sets:
                        for tr in trailer_sets:
                            k += 1
                            # the request: no body (http.NoBody, or Body == nil as http.NewRequest(m, url, nil) leaves it),
                            # or a body the inner transport reads to the end (declared length / unknown length)
                            qch = qchunkings[(k // 7) % len(qchunkings)]
                            qn = sum(len(c_) for c_ in qch)
                            mode, method, qclen, qclh, qchunks = [
                                (0, "GET", 0, None, []), (2, "GET", 0, None, []), (0, "POST", 0, "0", []), (2, "POST", 0, None, []),
                                (0, "POST", qn, None, qch), (0, "POST", -1, None, qch), (0, "POST", 0, None, []), (2, "DELETE", 0, None, []),
                            ][k % 8]
                            qh = dict(base_req)
                            qh.update(req_sets[k % len(req_sets)])
                            if qclh is not None:
                                qh["Content-Length"] = [qclh]
                            status = (200, 200, 404, 500)[(k // 3) % 4]
                            rclen = (-1, len(body), 0)[(k // 5) % 3]
                            yield ["c14.rt", 0, hd, [], reader_ops(chunks, ending),
                                   [mode, method, qclen, hm(qh), qchunks], [status, rclen, hm(rh), hm(tr)]]


        # 1d. LONG end-stream messages (seeded C13-17: the capture of an end-stream message was capped at 64 KiB).
        #     Payloads of 64 KiB - 1, 64 KiB, 64 KiB + 1, 100 KiB and 1 MiB from a compact description (length, seed),
        #     expanded on both sides; uncompressed (Connect 0x02, gRPC-Web 0x80), flagged compressed under the
        #     identity decompressor, under gzip (stored blocks: the compressed form is longer than 64 KiB too;
        #     deflated: a short capture that decompresses to the long content), refused (unknown encoding), on the
        #     request side (no capture); cut inside the prefixes, at the payload start, around the 64 KiB mark of
        #     the payload, into 32 / 64 KiB reads; through raw / reader / writer / rt / handler.
        connj = ["application/connect+json", "", "", ""]
        gweb = ["application/grpc-web+proto", "", "", ""]
        lead = envelope(0, b"m")
        P0 = len(lead) + 5

        def long_case(entry, req, hdr, table, flags, payload_pieces, plen, cuts):
            head = lead + bytes([flags]) + struct.pack(">I", plen)
            return ["c14.long", entry, req, hdr, table, [head] + payload_pieces, cuts]

        def long_cuts(plen, which):
            total = P0 + plen
            return [
                [],
                [3, 5],
                [P0],
                [P0 + K64 - 1, 1, 1, 1],
                [P0 + K64],
                [32768] * (total // 32768),
                [8, K64] + [K64] * (plen // K64),
                [P0 - 1, 2, K64 - 2, 1],
            ][which % 8]

        k = 0
        for plen in (K64 - 1, K64, K64 + 1, 100 * 1024, 1 << 20):
            seed_ = 1 + plen % 200
            variants = [
                (connj, [], 2, [[plen, seed_]], plen, 0),
                (gweb, [], 0x80, [[plen, seed_]], plen, 0),
                (["application/connect+json", "", "identity", ""], [], 3, [[plen, seed_]], plen, 0),
                (["application/grpc-web+proto", "", "", "x-unknown"], [], 0x81, [[plen, seed_]], plen, 0),
                (connj, [], 2, [[plen, seed_]], plen, 1),                       # request side: nothing is captured
            ]
            if plen <= K64 + 1:
                # gzip, stored: plen plain bytes -> a little more than plen compressed bytes (explicit in the case)
                comp = gzip_bytes(pat(plen, seed_), 0)
                variants.append((["application/connect+json", "", "gzip", ""], [[[comp], [[[plen, seed_]]]]], 3, [comp], len(comp), 0))
            else:
                # gzip, deflated: a short capture whose decompressed content is long
                comp = gzip_bytes(pat(plen, seed_), 6)
                variants.append((["application/grpc-web+proto", "", "", "gzip"], [[[comp], [[[plen, seed_]]]]], 0x81, [comp], len(comp), 0))
            big = plen > 100 * 1024
            for vi, (hdr, table, flags, pieces, paylen, req) in enumerate(variants):
                if big:
                    # 1 MiB: uncompressed in one read (raw), gRPC-Web in 64 KiB reads (reader), deflated -> 1 MiB content
                    whiches = {0: (0,), 1: (6,), 5: (0,)}.get(vi, ())
                elif plen > K64 + 1:
                    whiches = (0, 3, 5, 7)
                elif plen == K64 + 1:
                    whiches = range(8)
                else:
                    whiches = (k % 2, 3, 4 + k % 2, 6 + k % 2)
                for which in whiches:
                    k += 1
                    cuts = long_cuts(paylen, which)
                    if req:
                        entries = [0, 1][k % 2:k % 2 + 1]
                    elif vi < 2 and plen == K64 + 1 and which in (0, 3):
                        entries = [0, 1, 2, 3, 4]                                # every entry point, every run
                    elif big:
                        entries = [(0, 1, 2)[vi % 3]]
                    else:
                        entries = [k % 5]
                    for entry in entries:
                        yield long_case(entry, req, hdr, table, flags, pieces, paylen, cuts)

        # 1e. the reference server's handler chain (seeded C14-20: tracing installed inside rawResponder): the real
        #     createServer in reference mode with a tracer, HTTP/1.1 and h2c, asked by a plain client for a RAW response
        #     (0..3 enveloped messages incl. zero-length ones, end-stream or not, declared length differing from the
        #     payload's, compressed end-stream; unary bodies) through a unary RPC, a server stream, a gRPC-Web server
        #     stream; the model predicts the bytes on the wire and the response events of the trace.
        raw_streams = [
            [],
            [[0, -1, b"one"]],
            [[0, -1, b""]],
            [[2, -1, b"{}"]],
            [[0, -1, b"one"], [0, -1, b""], [2, -1, b'{"metadata":{"x-demo":["yes"]}}']],
            [[1, -1, b"ab"], [0, -1, b""], [0, -1, b"xyz"]],
            [[0, -1, b""], [0, -1, b""], [0x80, -1, b"grpc-status: 0\r\n"]],
            [[0, -1, b"abc"], [2, -1, b""]],
            [[0, 5, b"abc"]],                                   # declared longer than sent: a partial event
            [[0, 1, b"abc"], [0, -1, b""]],                     # declared shorter: the rest reads as a prefix
            [[0x7D, -1, long_payload], [0x82, -1, b"{}"]],
        ]
        k = 0
        for h2c in (0, 1):
            for rpc in (0, 1, 2):
                for items in raw_streams:
                    k += 1
                    hdr = [conn, gweb, connj][k % 3]
                    yield ["c14.server", h2c, rpc, (0, 200, 0, 500, 404)[k % 5], hdr, [], [1, items]]
                # compressed end-stream content: flagged (decompressed), unflagged (as it is), refused
                yield ["c14.server", h2c, rpc, 0, gzhdr, gztab, [1, [[0, -1, b"m"], [3, -1, gzc]]]]
                yield ["c14.server", h2c, rpc, 200, gzhdr, gztab, [1, [[2, -1, gzc]]]]
                yield ["c14.server", h2c, rpc, 200, gzhdr, [], [1, [[0, -1, b""], [3, -1, b"not gzip"]]]]
                for body in (b"", b"\x08\x01", b"{}", long_payload + long_payload):
                    for hdr in (["application/proto", "", "", ""], ["application/json", "", "", ""], conn, ["", "", "", ""]):
                        k += 1
                        if (k + rpc) % 2:
                            yield ["c14.server", h2c, rpc, (0, 200, 418)[k % 3], hdr, [], [0, body]]
        #     ... and for ORDINARY responses (their bytes echo the request's headers in map order, so they are
        #     observed first - c14.probe, Go side only - and the observation is the case: the model is run on the
        #     bytes the plain client received)
        probes = []
        for h2c in (0, 1):
            for rpc in (0, 1, 2):
                for n, payload in ((1, b"hello"), (0, b"boom"), (3, b""), (2, bytes(range(40)))):
                    if rpc == 0 and n > 1:
                        continue
                    probes.append(["c14.probe", h2c, rpc, payload, n])
        for q, r in zip(probes, self._oracle(probes, "probe")):
            if r is None or len(r) != 5 or not isinstance(r[0], list):
                # the exchange failed: let the differential run say so (the Go side repeats the tag, the model cannot)
                yield ["c14.observed", conn, [], 0, b"", 0, [b"probe-failed", core.sx(q).encode()[:120]]]
                continue
            hdr, status, body, tstatus, events = r
            yield ["c14.observed", hdr, [], status, body, tstatus, events]

        # 1f. responses WITHOUT a body behind TracingRoundTripper (seeded C16-12: http.NoBody was not wrapped, so the
        #     body-end event never came and the trace was never completed): the scripted transport returns http.NoBody
        #     (kind 1) or an empty reader of its own (kind 3); and REAL exchanges over loopback (kind 2: HTTP/1.1,
        #     net/http's transport underneath) answered with Content-Length: 0, 204, 304, to HEAD - and, for
        #     comparison, with bodies of known and unknown length.
        nb_hdr_sets = [rh for rh in (
            {"Content-Type": ["application/connect+proto"], "X-Multi": ["a", "b"]},
            {"Content-Type": ["application/grpc-web+proto"], "Grpc-Accept-Encoding": ["gzip,br"]},
            {"Content-Type": ["application/json"], "Vary": ["Origin", "Accept"]},
            {},
        )]
        k = 0
        for kind_ in (1, 3):
            for status in (200, 204, 304, 404):
                for rclen in (0, -1):
                    for rh in nb_hdr_sets:
                        for nclose in (0, 1, 2):
                            k += 1
                            ops = [[0, b"", IOEOF, (0, 3, 9)[k % 3]]] + [[1, 0]] * nclose
                            mode, method, qclen, qclh, qchunks = [
                                (0, "GET", 0, None, []), (2, "GET", 0, None, []), (0, "HEAD", 0, None, []),
                                (0, "POST", len(qbody), None, [qbody]), (2, "DELETE", 0, None, []),
                            ][k % 5]
                            qh = dict(base_req)
                            qh.update(req_sets[k % len(req_sets)])
                            yield ["c14.rt", 0, conn, [], ops, [mode, method, qclen, hm(qh), qchunks], [status, rclen, hm(rh), [], kind_]]
        live_bodies = [[], [envelope(0, b"abc") + envelope(2, b"{}")], [envelope(0, b"hello")[:4], envelope(0, b"hello")[4:] + envelope(0x80, b"grpc-status: 0\r\n")],
                       [b"plain ", b"text"]]
        for method in ("GET", "HEAD", "POST", "DELETE"):
            for status in (200, 204, 304, 404):
                for chunks in live_bodies:
                    nobody = method == "HEAD" or status in (204, 304)
                    if nobody and chunks:
                        continue
                    for known in (0, 1):
                        for rh in nb_hdr_sets[:3] if not chunks else nb_hdr_sets[:2]:
                            k += 1
                            n = sum(len(c_) for c_ in chunks)
                            ops = [[0, c_, IONONE, 0] for c_ in chunks[:-1]] + [[0, chunks[-1] if chunks else b"", IOEOF, 0]] + [[1, 0]] * (k % 3)
                            qh = dict(base_req)
                            qh.update(req_sets[k % len(req_sets)])
                            qchunks = [qbody] if method == "POST" and k % 2 else []
                            yield ["c14.rt", 0, conn, [], ops, [0, method, len(qbody) if qchunks else 0, hm(qh), qchunks],
                                   [status, n if known else -1, hm(rh), [], 2]]

        # 2. random larger streams, random chunkings, through all entry points
        n_rand = 80000 if quick else 500000
        for _ in range(n_rand):
            r = rng.random()
            entry = "raw" if r < 0.4 else ("reader" if r < 0.75 else "writer")
            req = rng.random() < 0.4 if entry != "writer" else False
            if entry == "raw":
                stream = rng.random() < 0.92
                enc = rng.choice(NAMED + ["", "x-unknown"])
                dk = rng.choice([DNIL, DIDENT, DBROKEN, DNAMED, DNAMED]) if enc in NAMED else rng.choice([DNIL, DIDENT, DBROKEN])
                hdr = None
            else:
                hdr = headers_for(rng, rng.random() < 0.9)
                stream, dk, enc = props_of(*hdr)
            big = rng.random() < 0.1
            body, bounds, table = g.stream(req, dk, enc, 5, 600 if big else 60)
            x = rng.random()
            if x < 0.35 and body:
                body = body[:rng.randrange(len(body))]
            elif x < 0.45:
                body += g.payload(rng.randint(1, 4))            # stray bytes: a partial prefix at the end
            chunks = cut(body, g.chunking(len(body), bounds))
            if entry == "raw":
                yield raw(req, stream, dk, enc, table, chunks)
            elif entry == "reader":
                ops = reader_ops(chunks, rng.choice(endings))
                yield ["c14.reader", req, hdr, table, ops]
                if not req and any(o[0] == 1 or o[2] != IONONE for o in ops) and rng.random() < 0.5:
                    yield ["c14.rt", 0, hdr, table, ops]            # through TracingRoundTripper
            else:
                ops = writer_ops(chunks, None if rng.random() < 0.85 else rng.randrange(len(chunks) + 1))
                yield ["c14.writer", hdr, table, ops]
                if rng.random() < 0.5:
                    yield ["c14.handler", hdr, table, ops]          # through TracingHandler

        # 3. every truncation point of medium streams
        for _ in range(150 if quick else 600):
            req = rng.random() < 0.5
            enc = rng.choice(NAMED)
            dk = rng.choice([DIDENT, DNAMED])
            body, bounds, table = g.stream(req, dk, enc, 3, 24)
            for cutp in range(len(body) + 1):
                chunks = cut(body[:cutp], g.chunking(cutp, bounds))
                yield raw(req, 1, dk, enc, table, chunks)
                if rng.random() < 0.3:
                    hdr = ["application/grpc-web", "", "", enc if dk == DNAMED else ""]
                    yield ["c14.reader", req, hdr, table, reader_ops(chunks, rng.choice(["eof", "fail", "close", "eof-with-data"]))]

        # 4. flags 0..255 x both sides x two lengths (exact flags in the event, end-stream capture only on responses)
        for flags in range(256):
            for req in (0, 1):
                body = envelope(flags, b"") + envelope(flags, b"{}") + envelope(flags, b"x", declared=3)
                yield raw(req, 1, DIDENT, "", [], cut(body, g.chunking(len(body), [5, 10, 12, 17])))
            yield raw(0, 1, DNAMED, "gzip", [[gz[0][1], [gz[0][0]]]], [envelope(flags, gz[0][1])])
            yield raw(0, 1, DNAMED, "gzip", [], [envelope(flags, b"{}")])

        # 5. non-stream bodies: one data event with the total, whatever the chunking
        for _ in range(300 if quick else 4000):
            body = g.payload(rng.choice([0, 1, 5, 6, 40, 700]))
            chunks = cut(body, g.chunking(len(body)))
            hdr = headers_for(rng, False)
            yield raw(rng.random() < 0.5, 0, rng.choice([DNIL, DBROKEN]), "", [], chunks)
            yield ["c14.reader", rng.random() < 0.5, hdr, [], reader_ops(chunks, rng.choice(endings))]
            yield ["c14.writer", hdr, [], writer_ops(chunks)]

        # 6. header detection
        for ct in CONTENT_TYPES_STREAM + CONTENT_TYPES_UNARY:
            for enc in ENC_NAMES:
                for cenc in ("", "gzip", "identity"):
                    yield ["c14.props", [ct, cenc, enc, ""]]
                    yield ["c14.props", [ct, cenc, "", enc]]
                    yield ["c14.props", [ct, cenc, enc, "br"]]


PROP = C14()
