"""C20 — every supported compression round-trips, also when instances are reset, closed and reused,
also right after a failed decode; the same name denotes the same algorithm everywhere."""
import itertools
import os

from .. import core
from ..core import Prop

ALGS = [1, 2, 3, 4, 5, 6]
NAMES = {1: "identity", 2: "gzip", 3: "br", 4: "zstd", 5: "deflate", 6: "snappy"}
PKG = "internal/compression"

TEXT = b"hello hello hello world"
LONG5 = 20000         # random histories of length 5 per stateful encoding in the quick tier
SIZES = (0, 1, 1, 2, 3, 7, 64, 511, 512, 513, 4096, 70000)


class Oracle:
    """first pass: the third-party libraries used directly by the Go harness (TestVerifC20Oracle) compress the
    payloads and classify every source with a FRESH reader (0 cannot be positioned, 1 decodes to y, 2 fails after y)."""

    def __init__(self, prop):
        self.prop = prop
        self.bin = core.go_test_bin(prop, PKG)
        self.dir = os.path.join(core.BUILD, prop.id, "oracle")
        os.makedirs(self.dir, exist_ok=True)
        self.n = 0
        self.cache = {}

    def _call(self, reqs):
        if not reqs:
            return []
        self.n += 1
        fin = os.path.join(self.dir, "req%d.in" % self.n)
        fout = os.path.join(self.dir, "req%d.out" % self.n)
        with open(fin, "w") as f:
            for i, r in enumerate(reqs):
                f.write(core.sx([i] + list(r)) + "\n")
        core.run_go(self.bin, PKG, fin, fout, timeout=600, testname="TestVerifC20Oracle")
        return [core.parse_sx(line) for line in open(fout) if line.strip()]

    def compress(self, pairs):
        """[(alg, payload)] -> [compressed]"""
        return [r[1] for r in self._call([(a, 0, 0, p) for a, p in pairs])]

    def classify(self, triples):
        """[(alg, kind, src)] -> fills the cache with (cls, y)"""
        todo = [t for t in dict.fromkeys(triples) if t not in self.cache]
        for t, r in zip(todo, self._call([(a, 1, k, s) for a, k, s in todo])):
            self.cache[t] = (r[1], r[2])

    def cls(self, alg, kind, src):
        return self.cache[(alg, kind, src)]


class C20(Prop):
    id = "C20"
    props = "C20_Props"
    coq_files = ("Base", "C20_Consts", "C20_Model", "C20_Spec", "C20_Proofs", "C20_Proofs2", "C20_Names", "C20_Pair", "C20_Props")
    models = ("C20_Model",)
    packages = {"cmp": PKG, "tr": "internal/tracer", "rs": "internal/app/referenceserver",
                "rc": "internal/app/referenceclient", "int": "internal"}
    kinds = {"c20.hist": "cmp", "c20.enum": "cmp", "c20.names": "cmp", "c20.tracer": "tr", "c20.check": "rs",
             "c20.server": "rs", "c20.client": "rc", "c20.raw": "int",
             "c20.pair": "cmp", "c20.trpair": "tr",
             "c20.trhist": "tr", "c20.rawrt": "int", "c20.live": "rs", "c20.clive": "rc", "c20.cstream": "rc"}
    consts = ("cmp", "tr", "rs", "rc", "int")
    go_timeout = 1500
    rule = ("c20.hist: scripted histories on ONE compressor and ONE decompressor obtained from GetCompressor/GetDecompressor "
            "(and from the New* constructors): every history of length <= 3 (quick; <= 4 thorough, sampled in quick; 20000 random "
            "of length 5 for gzip, br, zstd whose wrappers carry state) over {Reset(valid), Reset(valid empty payload), "
            "Reset(header-corrupt), Reset(body-corrupt), Reset(silently different), Reset(empty source), ReadAll, limited read "
            "loop, ONE Read(p) with len(p) = 0 / 1 / 7, Close} x 6 encodings; every single-bit flip (quick: 64 per encoding) and "
            "every cut of the compressed form of small payloads placed before a valid session in three reuse templates (direct, "
            "Close between, connect-go pool protocol with Reset(NoBody)); reading in pieces: random partitions of the output of "
            "six sources (empty .. 64 KiB) into single Read(p) calls with len(p) in {0,1,2,3,7,64,511,512,513,4096,70000} mixed "
            "with read loops, one byte at a time with zero-length reads in between, io.EOF asked for repeatedly; every compressor "
            "history of length <= 4 over {Reset, Write, Write(empty), Close} followed by decoding every closed destination on the "
            "reused decompressor; random pool-protocol histories of 10-40 steps with payloads {empty, 1 byte, text, 300 random "
            "bytes, 64 KiB zeros} and three ways of presenting a source (*bytes.Buffer, plain reader, one byte per Read). "
            "c20.trhist: the same histories on the decompressor tracer.GetDecompressor(name) hands out. "
            "c20.pair / c20.trpair: TWO compressors and TWO decompressors obtained from the same constructor (GetCompressor / "
            "GetDecompressor, the New* constructors the reference peers register, tracer.GetDecompressor by name), two histories "
            "(every pair of decompressor histories of length <= 2 over {Reset(valid), ReadAll, one Read, Close} with different "
            "payloads, every interleaving; random longer ones with corrupted sources and compressor sessions) run one operation at "
            "a time in a given interleaving; compared with the pair machine of the model (instances_independent: each result is "
            "that of the history alone). Sources are classified by "
            "a fresh third-party reader in a first pass (a malformed source that decodes differently when read in pieces is not a "
            "case). Compared per step (C20_Model.obs_step, the projection theorem library_independent speaks about): ok / err / "
            "crash and 'delivered what a fresh reader decodes' (ONE Read: a prefix of it, io.EOF not before its end); compressed "
            "bytes never. c20.rawrt: WriteRawMessageContents / WriteRawStreamContents for every enum value x 4 forms x payloads "
            "incl. the EMPTY one, decoded by a fresh reader. c20.live / c20.clive / c20.cstream: corrupted (one bit flipped) or "
            "cut compressed bodies followed by valid ones (payloads 0..70000 bytes) under each of the 5 non-identity encodings, "
            "over one keep-alive connection to the LIVE reference server, in responses to the LIVE reference client (invoke), and "
            "within one server stream: every valid message must succeed and decode to what was sent (thorough: every single-bit "
            "flip and every cut of the small request bodies). c20.enum/names/tracer/check/server/client/raw: every enum value "
            "-1..9 and every name string (plus case variants, unknown names, absent header) at each of the five places. "
            "non-trivial = a step decoded the expected bytes, or a name-table case")
    trusted_base = ("Coq 8.16.1 kernel (vm_compute used, native_compute not)", "extraction (ExtrOcamlBasic only) + ocaml/driver.ml",
                    "vlib generators/comparator, Go overlay harness files (incl. the algorithm probe, the go/ast reading of "
                    "server.go / client.go option lists and the lock-step scheduler of the two-instance histories)",
                    "modelled not verified: compress/gzip, compress/zlib, andybalholm/brotli, golang/snappy, klauspost/compress/zstd "
                    "(abstract reader/writer objects with the contract of C20_Spec.v: a Reset or new object behaves as a fresh one, "
                    "malformed input is an error not a panic, decode(encode x) = x, ONE Read delivers some prefix of what is to come "
                    "and io.EOF not before its end); connect-go's compressionPool (its protocol is the inductive pool_history); "
                    "sync.Pool handing the same instance back (live sequences run with GOMAXPROCS(1) to make that the rule)")
    assumptions = ("the third-party readers/writers satisfy lib_contract / wlib_contract of C20_Spec.v (tested on every run by the "
                   "history sweep: that is what the differential comparison exercises)",
                   "read_loop_terminates only: lib_progress (a Read into a non-empty buffer delivers a byte or io.EOF) — io.Reader "
                   "merely discourages (0, nil); exercised by every io.ReadAll of the sweep terminating",
                   "library_independent for histories that do not begin with a Reset: the two libraries agree on whether an object "
                   "that never had a source panics (nosrc_alike; shown necessary by ex_nosrc_matters); not needed for pool histories",
                   "sources and destinations handed to Reset are plain io.Reader / io.Writer values (bytes.Buffer); a source that "
                   "is itself an io.ReadCloser is closed by the identity decompressor's Close",
                   "zstd.NewReader(nil) / zstd.NewWriter(nil) do not fail (the errorDecompressor/errorCompressor path of the "
                   "constructors is modelled but not reachable)")
    level_text = ("Machine-checked proof (Coq) about the wrapper state machines of internal/compression over an abstract library: "
                  "for ALL histories and byte strings, a Reset followed by a read returns exactly what a fresh library reader returns "
                  "(hence round-trip, also after Close, after Reset, after a failed decode); reads in pieces — ANY sequence of single "
                  "Read(p) calls of any size, zero included, and read loops, under ANY way the library cuts its output — deliver in "
                  "order a prefix of the decoded bytes and exactly them once io.EOF is seen; Close after such a session returns ok; "
                  "no history that starts with a Reset panics (in particular none that connect-go's pools produce); the projected "
                  "outcomes the differential run compares are the same over ANY two libraries satisfying the contract (so the "
                  "stand-in codec used for extraction is representative); and the five name tables regenerated from the Go code "
                  "agree (by computation). The model is tied to the Go code by a bounded-exhaustive plus random differential run "
                  "of scripted histories against the real libraries, and by live corrupted-then-valid sequences through the "
                  "reference server and client, on every check. Two instances obtained from the same constructor are modelled as a pair "
                  "machine: proved (instances_independent, for any step function and any interleaving) that what a user observes of its "
                  "instance does not depend on the other user's operations, and every place that hands out instances (GetCompressor / "
                  "GetDecompressor, the New* constructors the peers register, tracer.GetDecompressor) is driven with two interleaved "
                  "histories and compared with that machine.")
    level_note = ("Conditional on the library contract (Section hypotheses, inhabited by the stand-in codec used for extraction): the "
                  "codecs themselves are third-party and not verified; 'decode(encode x) = x' for them is tested, not proved. "
                  "Termination of a loop of single reads needs the extra hypothesis lib_progress. Correspondence model/Go is sampled "
                  "(bounded-exhaustive histories), not proved. Results of steps the contract leaves open (reads after a failure or "
                  "Close of a library object, single reads of a failing stream) are compared only as panicked / did not panic. Live "
                  "sequences rely on sync.Pool handing the instance back (not guaranteed by Go, made the rule with one P). Two-instance "
                  "histories are interleaved in lock-step (one operation at a time); truly concurrent use is not modelled, and the live "
                  "peers are not driven with overlapping RPCs for this purpose (their registered constructors are driven directly).")
    technique = ("Coq proof (invariant over wrapper states, all histories; simulation of two libraries for the projection) + "
                 "computation over regenerated tables; differential model-vs-Go on scripted histories and live sequences")

    # ------------------------------------------------------------------
    def nontrivial(self, case, res):
        if case[0] in ("c20.hist", "c20.trhist", "c20.pair", "c20.trpair", "c20.live", "c20.clive", "c20.cstream", "c20.rawrt"):
            return "(#6f6b 1)" in res
        return True

    def describe(self, case, g, m):
        if case[0] in ("c20.hist", "c20.trhist"):
            return ("compressor/decompressor history: the real instance (impl) and the proved wrapper model (model) differ in "
                    "ok/err/crash or in 'decoded equals what a fresh reader decodes' at some step")
        if case[0] in ("c20.pair", "c20.trpair"):
            return ("two instances obtained from the same constructor, their histories interleaved: what a user observes of its "
                    "instance (impl) is not what its history gives on an instance of its own (model: instances are independent)")
        if case[0] in ("c20.live", "c20.clive", "c20.cstream"):
            return ("live sequence through connect-go's pools (reference server / reference client): a valid message did not "
                    "succeed or did not decode to what was sent ((ok 0)), possibly after a corrupted one, or something panicked")
        if case[0] == "c20.rawrt":
            return ("raw-payload encoder: what it wrote for this payload does not decode, with a fresh reader of the "
                    "requested algorithm, to the payload")
        return "encoding name / enum table: this place maps a name or enum value differently from the proved table"

    # ------------------------------------------------------------------
    def generate(self, rng, tier):
        quick = tier == "quick"
        orc = Oracle(self)
        big = bytes(65536)
        rnd = bytes(rng.randrange(256) for _ in range(300))
        payloads = [b"", b"a", TEXT, rnd, big]
        comp = {}
        outs = orc.compress([(a, p) for a in ALGS for p in payloads])
        for (a, p), c in zip([(a, p) for a in ALGS for p in payloads], outs):
            comp[(a, p)] = c

        # ---- corrupted sources of the small payloads -----------------------------------------
        corrupt = {}     # alg -> list of sources
        for a in ALGS:
            lst = [b"", b"\x00\x01garbage"]
            for p in ([TEXT] if quick else [b"", b"a", TEXT]):
                c = comp[(a, p)]
                flips = list(range(len(c) * 8))
                if quick and len(flips) > 64:
                    flips = rng.sample(flips, 64)
                for i in flips:
                    m = bytearray(c)
                    m[i // 8] ^= 1 << (i % 8)
                    lst.append(bytes(m))
                for cut in range(0, len(c)):
                    lst.append(c[:cut])
            corrupt[a] = list(dict.fromkeys(lst))
        want = []
        for a in ALGS:
            for s in corrupt[a]:
                want.append((a, 0, s))
            for s in rng.sample(corrupt[a], min(len(corrupt[a]), 24 if quick else 200)):
                want.append((a, 1, s))
                want.append((a, 2, s))
            for p in payloads:
                for k in (0, 1, 2):
                    want.append((a, k, comp[(a, p)]))
        orc.classify(want)

        def lit(a, kind, src):
            cls, y = orc.cls(a, kind, src)
            return [4, kind, src, cls, y]

        usable = {a: [s for s in corrupt[a] if orc.cls(a, 0, s)[0] != 3] for a in ALGS}

        def pick(a, pred):
            for s in usable[a]:
                cls, y = orc.cls(a, 0, s)
                if pred(cls, y):
                    return s
            return None

        # ---- A. every short history over the decompressor alphabet ------------------------------
        for a in ALGS:
            alpha = {"G": lit(a, 0, comp[(a, TEXT)]), "g": lit(a, 0, comp[(a, b"")]), "E": lit(a, 0, b""),
                     "R": [5], "N": [6, 5], "C": [7], "p": [8, 0], "q": [8, 1], "r": [8, 7]}
            for key, pred in (("H", lambda c, y: c == 0), ("B", lambda c, y: c == 2 and len(y) > 0),
                              ("b", lambda c, y: c == 2 and len(y) == 0), ("S", lambda c, y: c == 1 and y != TEXT and len(y) > 0)):
                s = pick(a, pred)
                if s is not None and s != b"":
                    alpha[key] = lit(a, 0, s)
            letters = sorted(alpha)
            full = 3 if quick else 4
            for n in range(1, full + 1):
                for h in itertools.product(letters, repeat=n):
                    yield ["c20.hist", a, 0, [alpha[c] for c in h]]
            for _ in range(4000 if quick else 8000):
                h = [rng.choice(letters) for _ in range(full + 1 if quick else rng.randint(5, 7))]
                yield ["c20.hist", a, 0 if (a < 3 or rng.random() < 0.5) else 1, [alpha[c] for c in h]]
            if a >= 3:
                for n in range(1, 4):
                    for h in itertools.product(letters, repeat=n):
                        if quick and n == 3 and rng.random() < 0.7:
                            continue
                        yield ["c20.hist", a, 1, [alpha[c] for c in h]]
            if a in (2, 3, 4):
                # the encodings whose wrappers carry state of their own (gzip: nil until a Reset succeeded; brotli:
                # a new Reader per Reset; zstd: decoder dropped at Close): longer histories
                for _ in range(LONG5 if quick else 4 * LONG5):
                    h = [rng.choice(letters) for _ in range(5)]
                    yield ["c20.hist", a, 0 if (a < 3 or rng.random() < 0.5) else 1, [alpha[c] for c in h]]
            # the same instance as the wire tracer hands it out for the encoding NAME
            for n in (1, 2):
                for h in itertools.product(letters, repeat=n):
                    yield ["c20.trhist", a, rng.choice((2, 3)), [alpha[c] for c in h]]
            for _ in range(300 if quick else 3000):
                h = [rng.choice(letters) for _ in range(rng.randint(3, 5))]
                yield ["c20.trhist", a, rng.choice((2, 3)), [alpha[c] for c in h]]

        # ---- A2. two instances from the same constructor, histories interleaved ----------------------
        # every place that hands out instances: GetCompressor/GetDecompressor (ctor 0), the New* constructors that the
        # reference peers register with connect (1), tracer.GetDecompressor by name (2, 3)
        def interleavings(na, nb):
            for pos in itertools.combinations(range(na + nb), na):
                yield [0 if i in pos else 1 for i in range(na + nb)]

        for a in ALGS:
            la = {"G": lit(a, 0, comp[(a, TEXT)]), "R": [5], "C": [7], "q": [8, 1]}
            lb = {"Y": lit(a, 0, comp[(a, b"a")]), "R": [5], "C": [7]}
            bad = pick(a, lambda c, y: c in (0, 2))
            places = [("c20.pair", 0)] + ([("c20.pair", 1)] if a >= 3 else []) + [("c20.trpair", 2), ("c20.trpair", 3)]
            hs_a = [h for n in (1, 2) for h in itertools.product(sorted(la), repeat=n)]
            hs_b = [h for n in (1, 2) for h in itertools.product(sorted(lb), repeat=n)]
            for kind_, ctor in places:
                for ha in hs_a:
                    for hb in hs_b:
                        scheds = list(interleavings(len(ha), len(hb)))
                        if quick and (kind_, ctor) != ("c20.trpair", 2) and len(scheds) > 2:
                            scheds = rng.sample(scheds, 2)
                        for sc in scheds:
                            yield [kind_, a, ctor, [la[c] for c in ha], [lb[c] for c in hb], sc]
                # the shape two overlapping users produce, spelled out: A.Reset x, B.Reset y, A.Read, B.Read (+ Close, reuse)
                yield [kind_, a, ctor, [la["G"], [5], [7], la["G"], [5]], [lb["Y"], [5], [7], lb["Y"], [5]], [0, 1, 0, 1, 0, 1, 0, 1, 0, 1]]
                yield [kind_, a, ctor, [la["G"], [5]], [lb["Y"], [5]], [0, 1, 1, 0]]
                # compressor sessions on both, each decoded on the user's own decompressor
                sess_a = [[0, 1], [1, TEXT], [2], [3, 1, 0], [5]]
                sess_b = [[0, 1], [1, b"a"], [1, rnd], [2], [3, 1, 0], [5]]
                for _ in range(6 if quick else 60):
                    sc = [0] * len(sess_a) + [1] * len(sess_b)
                    rng.shuffle(sc)
                    yield [kind_, a, ctor, sess_a, sess_b, sc]
                # random longer ones, corrupted sources included
                pool_a = list(la.values()) + ([lit(a, 0, bad)] if bad not in (None, b"") else []) + [lit(a, 0, comp[(a, b"")])]
                pool_b = list(lb.values()) + ([lit(a, 0, bad)] if bad not in (None, b"") else []) + [lit(a, 0, comp[(a, rnd)])]
                for _ in range(60 if quick else 1000):
                    ha = [rng.choice(pool_a) for _ in range(rng.randint(2, 5))]
                    hb = [rng.choice(pool_b) for _ in range(rng.randint(2, 5))]
                    sc = [0] * len(ha) + [1] * len(hb)
                    rng.shuffle(sc)
                    yield [kind_, a, ctor, ha, hb, sc]

        # ---- B. a corrupted message before a valid one ----------------------------------------------
        for a in ALGS:
            good = lit(a, 0, comp[(a, TEXT)])
            nobody = lit(a, 0, b"")
            for s in usable[a]:
                bad = lit(a, 0, s)
                yield ["c20.hist", a, 0, [bad, [5], good, [5]]]
                yield ["c20.hist", a, 0, [bad, [5], [7], good, [5], [7]]]
                yield ["c20.hist", a, 0, [good, [5], [7], nobody, bad, [5], [7], nobody, good, [5], [7]]]
                yield ["c20.hist", a, 0, [bad, [7], good, [5]]]
            for k in (1, 2):
                for s in usable[a]:
                    if (a, k, s) in orc.cache and orc.cls(a, k, s)[0] != 3:
                        yield ["c20.hist", a, 0, [lit(a, k, s), [5], [7], lit(a, k, comp[(a, TEXT)]), [5], [7]]]

        # ---- F. a source abandoned half-way (large enough that the library has unconsumed input) -----
        midp = bytes(rng.randrange(256) for _ in range(5000))
        mids = orc.compress([(a, midp) for a in ALGS])
        orc.classify([(a, k, c) for a, c in zip(ALGS, mids) for k in (0, 1, 2)])
        for a, c in zip(ALGS, mids):
            for k in (0, 1, 2):
                big_ = lit(a, k, c)
                good = lit(a, k, comp[(a, TEXT)])
                nobody = lit(a, 0, b"")
                for n in (1, 5, 4999):
                    yield ["c20.hist", a, 0, [big_, [6, n], good, [5]]]
                    yield ["c20.hist", a, 0, [big_, [6, n], [7], good, [5], [7]]]
                    yield ["c20.hist", a, 0, [big_, [6, n], [7], nobody, good, [5], [7], nobody, big_, [5], [7]]]
                    yield ["c20.hist", a, 0, [big_, [6, n], [6, n], [5], [7], big_, [6, 10000], [5]]]

        # ---- C. compressor histories, every closed destination decoded on ONE reused decompressor -----
        for a in ALGS:
            calpha = {"S": None, "W": [1, b"abcabcabc"], "w": [1, b""], "C": [2]}
            for n in range(1, 5):
                for h in itertools.product("SWwC", repeat=n):
                    if a != 1 and h[0] != "S":
                        continue      # Write/Close on a library writer that never had a destination: the library's business
                    ops, k, open_, closed = [], 0, False, []
                    for c in h:
                        if c == "S":
                            ops.append([0, k])
                            cur, k, open_ = k, k + 1, True
                        else:
                            ops.append(calpha[c])
                            if c == "C" and open_:
                                closed.append(cur)
                                open_ = False
                    crashes = a == 1 and h[0] != "S"
                    if not crashes:
                        for sk in closed:
                            ops += [[3, sk, rng.choice((0, 0, 1, 2))], [5]]
                            if rng.random() < 0.5:
                                ops.append([7])
                    yield ["c20.hist", a, 0 if a < 3 or rng.random() < 0.6 else 1, ops]

        # ---- D. long random histories following connect-go's pool protocol ---------------------------
        for _ in range(1500 if quick else 8000):
            a = rng.choice(ALGS)
            ops, k, sinks = [], 0, []
            for _s in range(rng.randint(2, 7)):
                r = rng.random()
                if r < 0.45 or not sinks:
                    # compress a message: Reset, Write*, Close (, Reset(io.Discard) is the next Reset)
                    ops.append([0, k])
                    p = rng.choice(payloads if rng.random() < 0.15 else payloads[:4])
                    cuts = sorted(rng.randint(0, len(p)) for _ in range(rng.randint(0, 2)))
                    prev = 0
                    for c in cuts + [len(p)]:
                        ops.append([1, p[prev:c]])
                        prev = c
                    ops.append([2])
                    sinks.append((k, len(p)))
                    k += 1
                if r > 0.25:
                    # decompress: Reset(src), read (possibly limited, then drained), Close, Reset(NoBody)
                    if rng.random() < 0.7 and sinks:
                        sk, ln = rng.choice(sinks)
                        ops.append([3, sk, rng.choice((0, 0, 1, 2))])
                        valid = True
                    else:
                        kind = rng.choice((0, 0, 1, 2))
                        cands = [s for s in usable[a] if (a, kind, s) in orc.cache and orc.cls(a, kind, s)[0] != 3]
                        ops.append(lit(a, kind, rng.choice(cands)))
                        valid = False
                    if ops[-1][0] == 4 and ops[-1][3] == 0:
                        pass                          # getDecompressor failed: the instance is not used further in this call
                    else:
                        if rng.random() < 0.3:
                            ops.append([6, rng.choice((1, 5, 23, 24, 300, 70000))])
                        ops.append([5])
                        ops.append([7])
                    ops.append(lit(a, 0, b""))
            yield ["c20.hist", a, 0 if a < 3 or rng.random() < 0.5 else 1, ops]

        # ---- G. reading in pieces: any partition of the output into single Read(p) calls ----------------
        for a, c in zip(ALGS, mids):
            srcs = [(comp[(a, b"")], 0), (comp[(a, b"a")], 1), (comp[(a, TEXT)], len(TEXT)), (comp[(a, rnd)], len(rnd)),
                    (c, len(midp)), (comp[(a, big)], len(big))]
            nobody = lit(a, 0, b"")
            # the whole of TEXT one byte at a time, zero-length reads in between, EOF asked for repeatedly
            for k in (0, 1, 2):
                g = lit(a, k, comp[(a, TEXT)])
                yield ["c20.hist", a, 0, [g] + [[8, 1]] * (len(TEXT) + 3) + [[7]]]
                yield ["c20.hist", a, 0, [g] + [[8, 0], [8, 1]] * len(TEXT) + [[8, 0], [8, 5], [8, 5], [5], [7], nobody,
                                                                              g, [8, 3], [7], g, [5], [8, 1], [7]]]
            for _ in range(260 if quick else 3000):
                ops = []
                for _s in range(rng.randint(1, 3)):
                    src, ln = rng.choice(srcs if rng.random() < 0.3 else srcs[:5])
                    ops.append(lit(a, rng.choice((0, 0, 1, 2)), src))
                    for _r in range(rng.randint(0, 10)):
                        ops.append([8, rng.choice(SIZES)] if rng.random() < 0.8 else [6, rng.choice(SIZES)])
                    if rng.random() < 0.7:
                        ops.append([5])
                        if rng.random() < 0.3:
                            ops += [[8, rng.choice(SIZES)], [8, 0]]
                    if rng.random() < 0.8:
                        ops.append([7])
                        if rng.random() < 0.5:
                            ops.append(nobody)
                kind_, ctor = ("c20.hist", 0 if a < 3 or rng.random() < 0.5 else 1) if rng.random() < 0.8 else ("c20.trhist", 2)
                yield [kind_, a, ctor, ops]
            # single reads on corrupted sources (results open; must not panic, next session unaffected)
            good = lit(a, 0, comp[(a, TEXT)])
            for s_ in rng.sample(usable[a], min(len(usable[a]), 40 if quick else 400)):
                bad = lit(a, 0, s_)
                yield ["c20.hist", a, 0, [bad, [8, rng.choice(SIZES)], [8, 1], [8, 0], [7], nobody, good, [8, 7], [5], [7]]]

        # ---- H. the raw-payload encoders: every enum value x every form x payloads, the EMPTY one included ----
        for e in range(-1, 9):
            for form in range(4):
                for pl in (b"", b"a", TEXT, rnd) + ((big,) if form == 0 else ()):
                    yield ["c20.rawrt", e, form, pl]

        # ---- I. LIVE: corrupted / truncated bodies before valid ones through connect-go's pools -----------
        # reference server (request bodies, one keep-alive connection), reference client (response bodies; one
        # connect client per invoke, so the reuse across messages is exercised by server streams)
        def live_seq(pairs, ns):
            seq = [[0, rng.choice(ns)]]
            for _p in range(pairs):
                n = rng.choice(ns)
                seq.append([1, n, rng.randrange(1 << 20)] if rng.random() < 0.75 else [2, n, rng.randrange(1 << 20)])
                seq.append([0, rng.choice(ns)])
            return seq
        small = (0, 1, 10, 300)
        for a in ALGS[1:]:
            for _ in range(30 if quick else 150):
                yield ["c20.live", a, live_seq(12, small if rng.random() < 0.9 else (300, 70000))]
            for _ in range(15 if quick else 60):
                yield ["c20.clive", a, live_seq(4, small if rng.random() < 0.9 else (300, 70000))]
            for _ in range(16 if quick else 80):
                ns = [rng.choice(small + ((70000,) if rng.random() < 0.1 else ())) for _i in range(rng.randint(1, 6))]
                r = rng.random()
                bad = [] if r < 0.4 else ([1, rng.choice(small), rng.randrange(1 << 20)] if r < 0.8 else
                                          [2, rng.choice(small), rng.randrange(1 << 20)])
                yield ["c20.cstream", a, ns, bad]
            if not quick:
                # every single-bit flip and every cut of the small request bodies, each followed by a valid message
                for n in (0, 1, 10, 300):
                    bits = 8 * (8 + n) * 2
                    for lo in range(0, bits, 24):
                        seq = [[0, n]]
                        for b in range(lo, min(bits, lo + 24)):
                            seq += [[1, n, b], [0, n]]
                        yield ["c20.live", a, seq]
                    seq = [[0, n]]
                    for cut in range(0, 64 + n):
                        seq += [[2, n, cut], [0, rng.choice(small)]]
                    yield ["c20.live", a, seq]

        # ---- E. names and enum values at the five places ---------------------------------------------
        enums = list(range(-1, 10))
        yield ["c20.enum", enums]
        yield ["c20.names"]
        names = list(NAMES.values())
        variants = names + [n.upper() for n in names] + [n.capitalize() for n in names] + \
            ["", " gzip", "gzip ", "x-gzip", "lz4", "zlib", "brotli", "compress", "*", "gzip,br", "identity\x00"]
        yield ["c20.tracer", variants]
        for v in variants:
            yield ["c20.tracer", [v]]
        for e in enums:
            for variant in range(4):
                yield ["c20.check", e, variant, []]
                for v in variants:
                    if quick and v not in names and rng.random() < 0.6:
                        continue
                    yield ["c20.check", e, variant, [v]]
        yield ["c20.server", names + ["GZIP", "Br", "x-gzip", "zlib", "lz4", "brotli"]]
        for e in enums:
            yield ["c20.client", e]
            yield ["c20.raw", e]


PROP = C20()
