"""C19 — size-limit requests are padded to exactly limit+delta and the limit is sharp."""
import os
import re
from ..core import Prop, COQ


def vl(n):
    c = 1
    while n >= 128:
        n >>= 7
        c += 1
    return c


def fsz(n):
    """wire size of a length-delimited field with a one-byte tag holding n bytes (always emitted)"""
    return 1 + vl(n) + n


def pad_size(n):
    """bytes request_data with implicit presence"""
    return 0 if n == 0 else fsz(n)


def base_of(ty, k, fd):
    """proto.Size of the request message with request_data cleared, from the description the Go side builds it from"""
    if ty in (0, 1, 2, 3, 4):
        b = 0
        if k >= 0:
            b += fsz(fsz(k))          # response_definition { response_data: k bytes } (oneof member / repeated element)
        if ty == 4 and fd:
            b += 2                    # bool full_duplex = 2
        return b
    if ty == 5:
        return fsz(k) if k > 0 else 0  # ConformancePayload{data}
    return max(k, 0)                  # 6, 7: raw value of that many bytes


def msg(ty, k, fd, n0):
    return [ty, k, 1 if fd else 0, n0, base_of(ty, k, fd)]


def limits():
    """the limits the compiled code uses (C19_Consts.v is regenerated before generate() runs)"""
    out = {"server": 200 * 1024, "client": 1024 * 1024}
    try:
        text = open(os.path.join(COQ, "theories", "C19_Consts.v")).read()
        for name in out:
            m = re.search(r"c19_%s_receive_limit : Z := (-?\d+)%%Z" % name, text)
            if m:
                out[name] = int(m.group(1))
    except OSError:
        pass
    return out


PAD0 = [0, 1, 126, 127, 128, 16383, 16384]
BOUNDARY_D = [127 + 2, 128 + 3, 16383 + 3, 16384 + 4, 2097151 + 4, 2097152 + 5]
I32_MIN, I32_MAX = -2 ** 31, 2 ** 31 - 1

WIRE_OVER = "#" + "wire-over".encode().hex()

PROTOCOLS = {1: "connect", 2: "grpc", 3: "grpc-web"}
COMPRESSIONS = [1, 2, 3, 4, 5, 6]
STREAMS = [1, 2, 3, 4, 5]


class C19(Prop):
    id = "C19"
    props = "C19_Props"
    coq_files = ("Base", "C19_Consts", "C19_Model", "C19_Spec", "C19_Proofs", "C19_StreamProofs", "C19_Props")
    models = ("C19_Model",)
    packages = {"cc": "internal/app/connectconformance"}
    kinds = {"c19.expand": "cc", "c19.sharp": "cc", "c19.wiring": "cc", "c19.stream": "cc", "c19.load": "cc",
             "c19.client_seq": "cc"}
    consts = ("cc",)
    go_timeout = 1500
    rule = ("c19.expand: expandRequestData on single requests of the five padded request types x response-definition sizes "
            "(bases 0..400) x existing padding {0,1,126,127,128,16383,16384} x targets in +-6 windows around the current size, "
            "around base, around limit, around every varint boundary of the final padding length (127/128, 16383/16384, "
            "2^21; 2^28 in the thorough tier) and around both range ends, plus random multi-message cases (absent directives, "
            "too many directives, messages without a padding field, undecodable Any). Compared: error class, and per message "
            "proto.Size with padding cleared, padding length, serialized size, other-fields-untouched. "
            "c19.sharp: live RPCs of the in-process reference client with the sized message at limit-1, limit, limit+1 of the "
            "uncompressed size: requests (sized by expandRequestData; zeros, or incompressible existing padding that is topped up "
            "or trimmed) against the reference server started with the server limit, for unary/client/server/half-/full-duplex "
            "streams; responses (unary, and the second message of a server stream; zeros or incompressible) from an exact-size "
            "connect-go handler against the client limit given as the runner gives it; protocols x compressions sampled per seed "
            "(quick) or in full (thorough). c19.stream: the limit is per message - client streams and half-/full-duplex bidi "
            "streams of 2-3 request messages, each sized by expandRequestData to exactly the limit, with one of them at limit+1 "
            "(and of 4, 5, 8 and 16 messages of exactly the limit, the last one at limit or limit+1: any bound on the whole body shows) "
            "(or limit-1) at each position, sent to the reference server by the reference client and by a plain HTTP client "
            "that declares the body length (Content-Length) or not (chunked / no length), over HTTP/1.1 and h2c, Connect, gRPC "
            "and gRPC-Web, identity and gzip (all six compressions in the thorough tier); server streams and bidi streams of 2-3 "
            "sized response messages from the exact-size handler to the reference client; compared: sizes, verdict, and the "
            "index of the first rejected message where the receiver's progress is observable. "
            "c19.wiring: a generated suite file with one size directive per offset through "
            "parseTestSuites, newTestCaseLibrary, runTestCasesForServer and both reference peers, with and without "
            "relies_on_message_receive_limit; compared: request size and the runner's verdict. "
            "c19.load: generated suite files through parseTestSuites for every combination of relies_on_message_receive_limit x "
            "mode x stream type x directive shape (none, all absent, exact, +1, mixed, unreachable, out of range, too many, "
            "unpaddable message) and codec lists, plus random multi-case suites; compared: the error class and the index of the "
            "failing test case, or per test case and message the same observables as c19.expand. "
            "Fourth wave: c19.sharp / c19.stream client-side cases run under BOTH codecs (responses sized so that their JSON "
            "encoding has limit-1 / limit / limit+1 bytes); c19.stream client streams whose FIRST request carries an error "
            "definition with a later message at limit+1 (outcome must be resource_exhausted); c19.expand offsets of +1 .. +16 MiB. "
            "Fifth wave: c19.client_seq - histories of 3-14 requests through ONE in-process reference client, every request with its own "
            "message_receive_limit (1 KiB / random small / 1 MiB / 3 MiB / none, ascending, descending, interleaved, neighbouring), responses of "
            "limit-1 / limit / limit+1 bytes from the exact-size handler; compared per request: limit, size, verdict. "
            "non-trivial = padding changed, an error class other than range, an RPC verdict, or a suite with a directive")
    trusted_base = ("Coq 8.16.1 kernel (vm_compute used, native_compute not)", "extraction (ExtrOcamlBasic only) + ocaml/driver.ml",
                    "vlib generators/comparator, Go overlay harness files (build the request messages, classify error texts into 4 tags, "
                    "the go/ast scan of TestVerifConsts that lists the read-limiting call sites of referenceserver / referenceclient, "
                    "the exact-size response handler used as the reference client's peer, the plain HTTP client of c19.stream that "
                    "envelopes/compresses the request messages itself and reads the end-of-stream status, the generated suite files "
                    "of c19.wiring and c19.load, the JSON sizing of the stub's responses)",
                    "modelled not verified: google.golang.org/protobuf (proto.Size, Any), connect-go WithReadMaxBytes - the latter only "
                    "compared with the specification `accepts` by live runs")
    assumptions = ("request_data is a proto3 bytes field with implicit presence and a field number < 16 in every padded request type "
                   "(re-checked from the descriptors on every run: C19_Consts.v + theorem tag_one_byte)",
                   "lengths and sizes are Go ints (< 2^63); directives are int32",
                   "make([]byte, delta) succeeds (no out-of-memory for multi-GiB targets; targets above 2^28 are not executed)")
    level_text = ("Machine-checked proof (Coq) that the padding loop of the model reaches exactly limit+offset whenever some padding "
                  "length does, rejects only unreachable / out-of-range / unpaddable requests, never crashes and changes only padding "
                  "lengths, for all messages, existing paddings and offsets; the model is tied to expandRequestData by a differential "
                  "run on every check, and the sharpness of the receive limit is a specification compared with live runs of the real "
                  "reference peers and of the runner's own path. The limit is specified and exercised per message of a stream "
                  "(several sized messages per RPC, body length declared or not), and the loader's decision which test cases get "
                  "expanded is modelled and proved: for every suite (flag x mode x stream types x codecs) a marked case is expanded "
                  "exactly or the load fails for a justified reason; compared with parseTestSuites on generated suite files. The readers the "
                  "set-up code of both reference peers installs are in the model (per-message / per-body, table regenerated from the sources): "
                  "proved that the documented chain is sharp per message, that ANY bound on the body refuses some stream of messages of exactly "
                  "the limit, and that the installed readers are the documented chain; streams of up to 16 messages of exactly the limit run live. "
                  "Fourth wave: the reference client's option set-up is a model function of the codec, proved to install the documented chain for "
                  "EVERY codec (client_limit_any_codec) and run live under proto and JSON; the reference server's ClientStream handler is modelled "
                  "(receive error first, then the response definition) with receive_error_comes_first, run live with error definitions; the padding "
                  "source of the loop is explicit (unbounded_source_is_expand, bounded_source_rejects_reachable) and offsets up to +16 MiB are executed. "
                  "Fifth wave: a client process serving a HISTORY of requests is in the model (client_process); proved that the outcome of a request "
                  "inside any history is its outcome alone (client_limit_is_per_request, client_history_irrelevant) and sharp at ITS OWN limit "
                  "(client_seq_sharp_at_own_limit); c19.client_seq runs histories of requests with >= 3 distinct limits (small, default, large, none, "
                  "both orders, each at the limit and one byte more) through one in-process reference client on every check.")
    level_note = ("Trusted: Coq kernel, extraction, OCaml driver, harness. Correspondence model/Go is sampled (windows around every "
                  "boundary), not proved. limit_sharp (`accepts`) is a specification that execution is compared with, not a theorem about "
                  "connect-go. Known finding wire-size-also-limited: connect-go applies the limit to the compressed envelope as well, so "
                  "'measured on the uncompressed size' holds only while the compressed form does not exceed the limit. Client-side "
                  "sharpness uses an exact-size connect-go handler as the peer of the real reference client, because the reference server "
                  "echoes the request in every unary / first stream response and so cannot send a response sized to the byte. "
                  "Full-duplex response streams are exercised with acceptable messages only (connect-go's client drains the response "
                  "after a message above the limit while a full-duplex peer waits for the next request). The table of installed readers "
                  "is syntactic (calls of connect.WithReadMaxBytes, http.MaxBytesHandler/MaxBytesReader, io.LimitReader/LimitedReader in the two "
                  "packages): a bound installed by other means shows only in the live streams of 4-16 messages. Under JSON the size the limit "
                  "applies to is the JSON text as connect-go's codec encodes it (computed in the harness with the same protojson call in the same "
                  "binary). Client streams with an error definition are sent by the plain HTTP senders only (the error response echoes every "
                  "request and exceeds the reference client's own limit). The histories of c19.client_seq go through the in-process reference client "
                  "(run loop + invoke, one process-wide state shared with every other client-side case), not through a separately started binary; "
                  "limits above 16 MiB and histories longer than 32 requests are not executed.")
    technique = "Coq proof (fixed-point iteration on a step function, case split on varint classes); differential model-vs-Go; live RPC spec comparison"

    def nontrivial(self, case, res):
        if case[0] in ("c19.sharp", "c19.wiring", "c19.stream", "c19.client_seq"):
            return res.startswith("(") and "657272" not in res
        if case[0] == "c19.load":
            return res.startswith("(") and any(len(tc[2]) > 0 for tc in case[4])
        if "657272" in res:                      # (err tag)
            return "72616e6765" not in res       # anything but "range"
        # some message's padding differs from what it had
        ms = case[1]
        got = re.findall(r"\((-?\d+) (-?\d+) (-?\d+) (-?\d+)\)", res)
        return any(int(g[1]) != m[3] for g, m in zip(got, ms))

    def classify(self, case, g, m):
        # live verdict "rejected" for a message whose uncompressed size is within the limit while its
        # compressed form is above it (the Go harness measures both and tags exactly that situation)
        if case[0] == "c19.sharp" and g and m and WIRE_OVER in g and m.rstrip(")").endswith(" 1") and len(case) == 8 \
                and case[5] != 1 and case[2] <= 0:
            return "wire-size-also-limited"
        return None

    def describe(self, case, g, m):
        if case[0] == "c19.wiring":
            return ("a message-size suite run through the runner's own path (parseTestSuites, library, server_runner, reference "
                    "peers) does not give the verdicts of the specification accepts(limit, size) = size <= limit")
        if case[0] == "c19.stream":
            return ("receive limit not sharp per message: a stream of several messages (declared or undeclared body length) is not "
                    "accepted exactly when every message is within the limit, or does not fail at the first message above it")
        if case[0] == "c19.load":
            return ("parseTestSuites: a test case marked for expansion is neither expanded exactly as directed nor is the suite "
                    "rejected for a justified reason (whatever the suite's other directives)")
        if case[0] == "c19.client_seq":
            return ("the reference client does not hold every request to ITS OWN message_receive_limit: within one client process a "
                    "request's responses are accepted / rejected by something other than that request's limit (size <= limit)")
        if case[0] == "c19.sharp":
            return "receive limit not sharp: live reference peers disagree with the specification accepts(limit, size) = size <= limit"
        return "expandRequestData differs from the proved model (exact padding or justified rejection, never a crash)"

    # ------------------------------------------------------------------
    def generate(self, rng, tier):
        lim = limits()
        L = lim["server"]
        quick = tier == "quick"
        win = range(-6, 7)

        def single(m, T):
            d = T - L
            if I32_MIN <= d <= I32_MAX:
                return ["c19.expand", [m], [[d]]]
            return None

        ks = [-1, 0, 1, 20, 122, 123, 124, 125, 126, 127, 300, 390] if not quick else [-1, 0, 20, 123, 125, 390]
        combos = []
        for ty in range(5):
            for k in ks:
                for n0 in PAD0:
                    combos.append(msg(ty, k, ty == 4 and (k % 2 == 0), n0))
        seen = set()

        def emit(c):
            if c is None:
                return None
            key = repr(c)
            if key in seen:
                return None
            seen.add(key)
            return c

        for m in combos:
            base, n0 = m[4], m[3]
            cur = base + pad_size(n0)
            targets = set()
            for o in win:
                targets.add(cur + o)          # around the current size (shrinking below zero: defect #6a)
                targets.add(base + o)         # around the unpadded size (D around 0: 1 and 2 unreachable)
                targets.add(L + o)            # the way the suites use it
            for D in BOUNDARY_D[:4]:
                for o in win:
                    targets.add(base + D + o)
            for T in sorted(targets):
                c = emit(single(m, T))
                if c:
                    yield c
        # expensive windows (2 MiB and more of padding): a sample of the combinations
        big = BOUNDARY_D[4:] + ([268435455 + 5, 268435456 + 6] if not quick else [])
        sample = rng.sample(combos, 12 if quick else 60)
        for m in sample:
            for D in big:
                if D > 2 ** 27 and m is not sample[0]:
                    continue
                for o in win:
                    c = emit(single(m, m[4] + D + o))
                    if c:
                        yield c
        # the final padding length at 2^7, 2^14, 2^21 +- 3 (and the sizes one off: gaps), every message type
        for m in combos:
            for nb in (2 ** 7, 2 ** 14):
                for dn in range(-3, 4):
                    for o in (-1, 0, 1):
                        c = emit(single(m, m[4] + pad_size(nb + dn) + o))
                        if c:
                            yield c
        big_combos = [msg(ty, k, ty == 4 and k > 0, n0) for ty in range(5) for k in ((-1, 20, 125) if quick else ks) for n0 in PAD0]
        for m in big_combos:
            for dn in range(-3, 4):
                for o in (-1, 0, 1):
                    c = emit(single(m, m[4] + pad_size(2 ** 21 + dn) + o))
                    if c:
                        yield c
        # ... and the EXISTING padding at 2^21 +- 3: trimmed across the boundary, to just below it, topped up
        for ty in range(5):
            for n0 in (2 ** 21 - 3, 2 ** 21 - 1, 2 ** 21, 2 ** 21 + 3):
                m = msg(ty, 20, ty == 4, n0)
                for dn in range(-3, 4):
                    for T in (m[4] + pad_size(2 ** 21 + dn), m[4] + pad_size(2 ** 14 + dn), m[4] + pad_size(n0) + dn):
                        c = emit(single(m, T))
                        if c:
                            yield c
        # large positive offsets (1, 2, 3, 4, 8 MiB and one of 16 MiB; 3 and 5 MiB + a page): reachable => exact, however much
        # padding that takes (the padding of one step must be as long as the step asks for: C19_Model pad_loop_src)
        MiB = 2 ** 20
        for ty in range(5):
            for j, off in enumerate((1 * MiB, 2 * MiB, 3 * MiB, 3 * MiB + 4096, 4 * MiB, 5 * MiB + 4096, 8 * MiB)):
                n0 = (0, 1, 128, 16384, 2 ** 21 + 3, 0, 127)[(ty + j) % 7]
                m = msg(ty, (-1, 20, 125)[(ty + j) % 3], ty == 4, n0)
                for o in ((-1, 0, 1) if not quick else ((ty + j) % 3 - 1, 0)):
                    c = emit(single(m, L + off + o))
                    if c:
                        yield c
        yield ["c19.expand", [msg(rng.randrange(5), 20, False, 0)], [[16 * MiB]]]
        yield ["c19.expand", [msg(rng.randrange(5), -1, False, 6 * MiB)], [[3 * MiB + 7]]]     # trimmed down to a large size
        yield ["c19.expand", [msg(rng.randrange(5), -1, False, 6 * MiB)], [[9 * MiB]]]         # topped up by 3 MiB

        # both ends of the admissible range of the target
        for m in rng.sample(combos, 20):
            for o in win:
                c = emit(single(m, 0 + o))
                if c:
                    yield c
            for d in (I32_MIN, I32_MIN + 1, -L - 1, -L, -L + 1, -300000):
                yield ["c19.expand", [m], [[d]]]
        # random single cases
        for _ in range(1500 if quick else 40000):
            ty = rng.randrange(5)
            m = msg(ty, rng.choice([-1, 0, 3, 17, 60, 124, 125, 126, 127, 128, 129, 250, 399]), rng.random() < 0.5,
                    rng.choice(PAD0 + [2, 5, 100, 129, 130, 131, 1000, 16382, 16385, 16386, 16387, 16388, 20000]))
            base = m[4]
            r = rng.random()
            if r < 0.4:
                T = base + rng.choice([0, 1, 2, 3, 129, 130, 131, 132, 16386, 16387, 16388, 16389]) + rng.randint(-3, 3)
            elif r < 0.7:
                T = base + rng.randint(0, 40000)
            else:
                T = L + rng.randint(-300, 300)
            c = single(m, T)
            if c:
                yield c
        # multi-message cases: absent directives, fewer/more directives than messages, unpaddable messages
        for _ in range(1200 if quick else 20000):
            n = rng.randint(0, 4)
            ms = []
            for _ in range(n):
                ty = rng.choice([0, 1, 2, 3, 4, 4, 3, 2, 5, 6, 7])
                if ty <= 4:
                    ms.append(msg(ty, rng.choice([-1, 0, 7, 125, 126]), rng.random() < 0.5, rng.choice(PAD0 + [9, 300])))
                else:
                    ms.append(msg(ty, rng.choice([0, 1, 5, 130, 200]) if ty != 7 else rng.choice([1, 5, 130, 200]), False, 0))
            nd = rng.choice([0, n, n, n, max(0, n - 1), n + 1, rng.randint(0, 5)])
            ds = []
            for i in range(nd):
                r = rng.random()
                if r < 0.3:
                    ds.append([])
                elif r < 0.85:
                    b = ms[i][4] if i < n else 0
                    ds.append([b + rng.choice([0, 3, 50, 129, 130, 131, 16386, 16387, 16388, 1, 2]) + rng.randint(-2, 2) - L])
                elif r < 0.95:
                    ds.append([rng.randint(-20, 20)])
                else:
                    ds.append([rng.choice([-L - 1, -L, I32_MIN, -L - 100])])
            yield ["c19.expand", ms, ds]

        # ---- live sharpness ----
        # case: side off httpVersion protocol compression streamType fill
        #   side 0: request against the server limit, reference client -> reference server
        #   side 1: response against the client limit, exact-size stub handler -> reference client
        #   fill 1: the bulk of the sized message is incompressible (compressed form above the limit at off 0)
        offs = (-1, 0, 1)
        if quick:
            cfgs = []
            comps = COMPRESSIONS[:]
            rng.shuffle(comps)
            i = 0
            for st in STREAMS:                      # every stream type, protocols and compressions rotate
                for p in rng.sample([1, 2, 3], 2):
                    cfgs.append((0, 2, p, comps[i % 6], st, 0))
                    i += 1
            cfgs.append((0, 1, 1, comps[i % 6], 1, 0))                # HTTP/1.1 connect unary
            cfgs.append((0, 1, 3, comps[(i + 1) % 6], 3, 0))          # HTTP/1.1 grpc-web server stream
            for p in (1, 2, 3):                                       # client side
                cfgs.append((1, 2, p, comps[(i + p) % 6], 3, 0))
                cfgs.append((1, 2, p, comps[(i + p + 3) % 6], 1, 0))
            cfgs.append((1, 1, 1, comps[(i + 2) % 6], 1, 0))           # HTTP/1.1 connect unary response
            # incompressible content: without compression the limit is just as sharp; with one, the compressed
            # form of a message of exactly the limit is above the limit (known finding wire-size-also-limited)
            for side, st in ((0, rng.choice(STREAMS)), (1, rng.choice([1, 3]))):
                p = rng.choice([1, 2, 3])
                cfgs.append((side, 2, p, 1, st, 1))
                cfgs.append((side, 2, p, rng.choice(COMPRESSIONS[1:]), st, 1))
        else:
            cfgs = [(0, 2, p, c, st, f) for st in STREAMS for p in (1, 2, 3) for c in COMPRESSIONS for f in (0, 1)]
            cfgs += [(0, 1, p, c, st, f) for st in (1, 2, 3) for p in (1, 3) for c in COMPRESSIONS for f in (0, 1)]
            cfgs += [(1, hv, p, c, st, f) for hv in (1, 2) for p in (1, 2, 3) for c in COMPRESSIONS for st in (1, 3)
                     for f in (0, 1) if not (hv == 1 and p == 2)]
        for side, hv, p, c, st, f in cfgs:
            for off in offs + ((-2, 2, 10) if not quick else ()):
                yield ["c19.sharp", side, off, hv, p, c, st, f]
        # the client's limit is on the message WHATEVER the codec of the RPC (8th argument: 1 = proto, 2 = JSON): under JSON
        # the response is sized so that its JSON encoding - what the limit then applies to - has limit-1, limit, limit+1 bytes
        if quick:
            jc = [(2, p, 1, st, 0) for p in (1, 2, 3) for st in (1, 3)]
            jc += [(2, p, rng.choice(COMPRESSIONS[1:]), rng.choice((1, 3)), 0) for p in (1, 2, 3)]
            jc += [(1, 1, 1, 1, 0), (1, 3, 1, 3, 0), (2, rng.choice((1, 2, 3)), 1, rng.choice((1, 3)), 1)]
        else:
            jc = [(hv, p, c, st, f) for hv in (1, 2) for p in (1, 2, 3) for c in COMPRESSIONS for st in (1, 3)
                  for f in ((0, 1) if c == 1 else (0,)) if not (hv == 1 and p == 2)]
        for hv, p, c, st, f in jc:
            for off in offs + ((-2, 2, 10) if not quick else ()):
                yield ["c19.sharp", 1, off, hv, p, c, st, f, 2]
        for hv, p, c, st, f in (jc[:2] if quick else jc[::5]):           # the same form with the binary codec named
            for off in offs:
                yield ["c19.sharp", 1, off, hv, p, c, st, f, 1]

        # ---- the limit is per message: several sized messages per RPC ----
        # case: side (offs) sender httpVersion protocol compression streamType fill
        #   side 0: requests; sender 0 = reference client, 1 = plain HTTP client without / 2 = with a declared body length
        #   side 1: responses from the exact-size handler to the reference client (sender 0)
        P2 = [[0, 0], [1, 0], [0, 1]]
        P3 = [[0, 0, 0], [1, 0, 0], [0, 1, 0], [0, 0, 1], [-1, 0, 0]]
        PATS = P2 + P3

        def protos(hv):
            return (1, 3) if hv == 1 else (1, 2, 3)

        st_cases = []
        if quick:
            rot = [0]

            def nxt(seq):
                rot[0] += 1
                return seq[rot[0] % len(seq)]
            # client streams from a plain HTTP client: length declared or not x HTTP/1.1, h2c x identity, gzip
            for sender in (1, 2):
                for hv in (1, 2):
                    for c in (1, 2):
                        for pat in PATS:
                            st_cases.append((0, pat, sender, hv, 1, c, 2, 0))
                    for p in protos(hv)[1:]:                       # gRPC, gRPC-Web (status in trailers, compressed or not)
                        for c in (1, 2):
                            for pat in ([0, 0], [0, 1], [0, 0, 0], [0, 1, 0]):
                                st_cases.append((0, pat, sender, hv, p, c, 2, 0))
                    for pat in PATS:                               # half-duplex bidi
                        st_cases.append((0, pat, sender, hv, nxt(protos(hv)), nxt((1, 2)), 4, 0))
            for sender in (0, 1, 2):                               # full-duplex bidi (HTTP/2 only)
                for pat in PATS:
                    st_cases.append((0, pat, sender, 2, nxt((1, 2, 3)), nxt((1, 2)), 5, 0))
            for st in (2, 4):                                      # the reference client as the sender
                for hv in (1, 2):
                    for pat in PATS:
                        st_cases.append((0, pat, 0, hv, nxt(protos(hv)), nxt(COMPRESSIONS), st, 0))
            for pat in ([0, 0, 0], [0, 0, 1]):                     # incompressible content, identity
                for sender in (0, 1, 2):
                    st_cases.append((0, pat, sender, rng.choice((1, 2)), 1, 1, 2, 1))
            for st in (3, 4, 5):                                   # responses
                for hv in (1, 2):
                    if st == 5 and hv == 1:
                        continue
                    for pat in PATS:
                        if st == 5 and max(pat) > 0:
                            continue          # see the Go harness: connect-go's client drains, a full-duplex peer waits
                        st_cases.append((1, pat, 0, hv, nxt(protos(hv)), nxt(COMPRESSIONS), st, 0))
            st_cases.append((1, [0, 0, 1], 0, 2, 1, 1, 3, 1))
        else:
            pats = PATS + [[0, -1, 0], [0, 0, -1], [0, 0, 0, 0], [0, 0, 0, 1], [1, 1, 1], [0, 10, 0]]
            for hv in (1, 2):
                for p in protos(hv):
                    for c in COMPRESSIONS:
                        for st in (2, 4, 5):
                            if st == 5 and hv == 1:
                                continue
                            for sender in (0, 1, 2):
                                for pat in pats:
                                    if sender == 0 and c > 2 and pat not in PATS:
                                        continue
                                    st_cases.append((0, pat, sender, hv, p, c, st, 0))
                                if c == 1:
                                    for pat in ([0, 0, 0], [0, 0, 1], [1, 0, 0]):
                                        st_cases.append((0, pat, sender, hv, p, c, st, 1))
                        for st in (3, 4, 5):
                            if st == 5 and hv == 1:
                                continue
                            for pat in pats:
                                if st == 5 and max(pat) > 0:
                                    continue
                                st_cases.append((1, pat, 0, hv, p, c, st, 0))
                            if c == 1 and st != 5:
                                st_cases.append((1, [0, 0, 1], 0, hv, p, c, st, 1))
        # the limit does not add up over a stream: 4, 5, 8 and 16 messages of exactly the limit (and the last one a
        # byte above), identity (the body is 4, 5, 8, 16 x (limit + 5) bytes on the wire) and gzip, every sender,
        # both HTTP versions, client streams and half-/full-duplex bidi streams; 5 and 8 responses of exactly the
        # client's limit.  Any bound on the BODY that the set-up code adds shows here (C19_Model: chain_accepts).
        long_cases = []
        rot2 = [0]

        def nx2(seq):
            rot2[0] += 1
            return seq[rot2[0] % len(seq)]
        for n in (4, 5, 8, 16):
            for sender in (0, 1, 2):
                for hv in (1, 2):
                    ps = protos(hv) if not quick else (1, nx2(protos(hv)[1:]))
                    for p in ps:
                        long_cases.append((0, [0] * n, sender, hv, p, 1, 2, (n + sender + hv) % 2))
                    long_cases.append((0, [0] * (n - 1) + [1], sender, hv, nx2(protos(hv)), 1, 2, 0))
                    if n in (5, 16):
                        long_cases.append((0, [0] * n, sender, hv, nx2(protos(hv)), 2, 2, 0))
                if n != 4:
                    long_cases.append((0, [0] * n, sender, nx2((1, 2)), 1, 1, 4, 0))
                    long_cases.append((0, [0] * n, sender, 2, nx2((1, 2, 3)), 1, 5, 0))
                    long_cases.append((0, [0] * (n - 1) + [1], sender, 2, nx2((1, 2, 3)), 1, 5, 0))
        for n in (5, 8):
            for hv in (1, 2):
                long_cases.append((1, [0] * n, 0, hv, nx2(protos(hv)), 1, 3, 0))
                long_cases.append((1, [0] * (n - 1) + [1], 0, hv, nx2(protos(hv)), 1, nx2((3, 4)), 0))
        # the reference server echoes EVERY request of a client stream / half-duplex stream in one response message: with
        # the reference client as the sender that response must stay within the client's own limit (the harness answers
        # bad-case otherwise); the plain HTTP senders do not mind
        long_cases = [c for c in long_cases
                      if not (c[0] == 0 and c[2] == 0 and c[6] != 5 and len(c[1]) * (L + 64) > lim["client"])]
        for side, pat, sender, hv, p, c, st, f in st_cases + long_cases:
            yield ["c19.stream", side, list(pat), sender, hv, p, c, st, f]
        # 10-argument form: ... codec def
        #   codec 2 (side 1): response streams under the JSON codec, every message sized in its JSON encoding
        #   def 1 (side 0, client stream): the response definition in the FIRST request asks for an error response; a later
        #   message above the limit must still be answered resource_exhausted (outcome 2), not with the defined error
        ext = []
        rot3 = [0]

        def nx3(seq):
            rot3[0] += 1
            return seq[rot3[0] % len(seq)]
        jpats = PATS if not quick else ([0, 0], [0, 1], [1, 0], [0, 0, 1], [-1, 0, 0])
        for st in (3, 4):
            for hv in (1, 2):
                for p in protos(hv):
                    for pat in jpats:
                        cs = COMPRESSIONS if not quick else (1, nx3(COMPRESSIONS[1:])) if pat == [0, 1] else (nx3((1, 1, 2)),)
                        for c in cs:
                            ext.append((1, pat, 0, hv, p, c, st, 0, 2, 0))
        ext.append((1, [0, 0], 0, 2, 1, 1, 5, 0, 2, 0))
        ext.append((1, [0, 1], 0, 2, 2, 1, 3, 1, 2, 0))
        ext.append((1, [0, 1], 0, 2, 1, 1, 3, 0, 1, 0))
        dpats = [[0, 0], [0, 1], [1, 0], [0, 0, 1], [0, 1, 0], [-1, 1], [0, 0, 0]] + ([] if quick else [[1, 1], [0, 0, 0, 1], [0, 10]])
        for sender in (1, 2):      # (the error response echoes every request: too large for the reference client's own limit)
            for hv in (1, 2):
                for p in protos(hv):
                    for pat in dpats:
                        cs = COMPRESSIONS if not quick else (nx3((1, 1, 2)),)
                        for c in cs:
                            ext.append((0, pat, sender, hv, p, c, 2, 0, 1, 1))
                ext.append((0, [0, 1], sender, hv, 1, 1, 2, 0, 1, 0))       # data definition, same form
        for side, pat, sender, hv, p, c, st, f, codec, d in ext:
            yield ["c19.stream", side, list(pat), sender, hv, p, c, st, f, codec, d]

        # ---- the loader: which test cases of a suite file get expanded ----
        # case: flag mode (codecs) ((streamType (msgs) (dirs))...)
        TY_OF_STREAM = {0: 0, 1: 0, 2: 3, 3: 2, 4: 4, 5: 4}

        def tc_shape(st, shape):
            ty = TY_OF_STREAM[st]
            n = 3 if st in (2, 4, 5) else 1
            ms = [msg(ty, 14 if i == 0 else -1, ty == 4 and st == 5, 0 if i == 0 else 12) for i in range(n)]
            b0 = ms[0][4]
            if shape == "none":
                ds = []
            elif shape == "absent":
                ds = [[] for _ in ms]
            elif shape == "exact":
                ds = [[0]] + [[] for _ in ms[1:]]
            elif shape == "plus1":
                ds = [[] for _ in ms[:-1]] + [[1]]
            elif shape == "mixed":
                ds = [[0]] + [[] for _ in ms[1:-1]] + ([[1]] if n > 1 else [])
            elif shape == "all":
                ds = [[-(i % 2)] for i in range(n)]
            elif shape == "small":
                ds = [[b0 + 40 - L]]
            elif shape == "unreachable":
                ds = [[b0 + 1 - L]]
            elif shape == "range":
                ds = [[-L - 1]]
            elif shape == "toomany":
                ds = [[] for _ in ms] + [[0]]
            else:  # unpaddable: a message of the service without a padding field, with a directive
                ms = ms + [msg(5, 9, False, 0)]
                ds = [[] for _ in ms[:-1]] + [[0]]
            return [st, ms, ds]

        SHAPES = ["none", "absent", "exact", "plus1", "mixed", "all", "small", "unreachable", "range", "toomany", "unpaddable"]
        for flag in (0, 1):
            for mode in (0, 1, 2):
                for st in (1, 2, 3, 4, 5):
                    for shape in SHAPES:
                        yield ["c19.load", flag, mode, [1], [tc_shape(st, shape)]]
                # stream type left unspecified: not the loader's business either
                yield ["c19.load", flag, mode, [1], [tc_shape(0, "exact")]]
                for codecs in ([], [2], [1, 2], [2, 1], [1, 1], [0], [1, 3]):
                    for shape in ("none", "absent", "small", "unreachable"):
                        yield ["c19.load", flag, mode, codecs, [tc_shape(rng.choice((1, 2, 3, 4, 5)), shape)]]
        for _ in range(150 if quick else 3000):                    # suites of several test cases
            cases = [tc_shape(rng.choice((1, 2, 3, 4, 5)),
                              rng.choice(SHAPES[:7] * 4 + SHAPES[7:])) for _ in range(rng.randint(2, 4))]
            codecs = rng.choice([[1]] * 8 + [[1, 2], []])
            yield ["c19.load", rng.randrange(2), rng.randrange(3), codecs, cases]

        # ---- fifth wave: a HISTORY of requests through ONE client process, every request with its own limit ----
        # case: ((limit off streamType)...) httpVersion protocol compression codec; limit 0 = none (size = off)
        D = lim["client"]
        BIG = 3 * MiB

        def pair(l, st=None):                    # exactly the limit, then one byte more
            return [[l, 0, st or rng.choice((1, 3))], [l, 1, st or rng.choice((1, 3))]]

        def seqs():
            s1, s2, s3 = rng.sample(range(64, 4096), 3)
            small = 1024
            yield pair(small) + pair(D) + pair(BIG)                                   # small, default, large
            yield pair(BIG) + pair(D) + pair(small)                                   # ... and the reverse
            yield pair(D) + pair(s1) + pair(BIG) + pair(s1)                           # the runner's limit first
            yield [[0, D + 1, 1]] + pair(s2) + pair(BIG) + [[0, BIG + 1, 3]] + pair(D)  # no limit first, then limits
            yield [[s3, 1, 1], [BIG, 0, 3], [s3, 0, 3], [D, 1, 1], [0, D + 1, 1], [s3, 1, 3], [D, 0, 1], [s3, -1, 1]]
            yield pair(s1, 1) + pair(s1 + 1, 1) + pair(s1 - 1, 1)                     # neighbouring limits
            for _ in range(4 if quick else 60):
                pool = [rng.randrange(64, 1 << rng.randrange(8, 22)) for _ in range(3)] + [D, BIG, small]
                reqs = [[rng.choice(pool), rng.choice((-1, 0, 0, 1, 1)), rng.choice((1, 3))] for _ in range(rng.randrange(4, 9))]
                if len({r[0] for r in reqs}) < 3:
                    reqs += pair(s2) + pair(D) + pair(BIG)
                yield reqs

        ccfg = [(2, 1, 1, 1), (2, 2, 1, 1), (2, 3, 2, 1), (1, 1, 1, 1), (2, 1, rng.choice(COMPRESSIONS[1:]), 1),
                (1, 3, 1, 1), (2, 2, rng.choice(COMPRESSIONS[1:]), 1)]
        if not quick:
            ccfg = [(hv, p, c, 1) for hv in (1, 2) for p in (1, 2, 3) for c in COMPRESSIONS if not (hv == 1 and p == 2)]
        for i, reqs in enumerate(seqs()):
            hv, p, c, cd = ccfg[i % len(ccfg)]
            yield ["c19.client_seq", reqs, hv, p, c, cd]
        # under JSON (limits from 512 up: the JSON text of the smallest response is ~100 bytes)
        yield ["c19.client_seq", pair(2048) + pair(D) + pair(BIG) + pair(512), 2, rng.choice((1, 2, 3)), 1, 2]
        yield ["c19.client_seq", pair(BIG) + pair(D) + pair(2048), 2, rng.choice((1, 3)), 1, 2]

        # ---- the runner's own path: suite file -> parseTestSuites -> library -> server_runner -> peers ----
        # case: (offs) httpVersion protocol compression streamType
        if quick:
            w = [(2, rng.choice([1, 2, 3]), rng.choice(COMPRESSIONS), 1),
                 (2, rng.choice([1, 2, 3]), rng.choice(COMPRESSIONS), 2),
                 (2, rng.choice([1, 2, 3]), 1, 3),
                 (1, rng.choice([1, 3]), rng.choice(COMPRESSIONS), rng.choice([1, 3]))]
            wo = [-1, 0, 1]
        else:
            w = [(2, p, c, st) for p in (1, 2, 3) for c in COMPRESSIONS for st in (1, 2, 3)]
            w += [(1, p, c, st) for p in (1, 3) for c in (1, 2, 4) for st in (1, 2, 3)]
            wo = [-130, -2, -1, 0, 1, 2, 10]
        for hv, p, c, st in w:
            yield ["c19.wiring", wo, hv, p, c, st]
        # the same path for a suite that does not set relies_on_message_receive_limit (6th argument 0): the runner
        # hands the limit to the server all the same, and the requests must be expanded all the same
        for hv, p, c, st in (w[:2] if quick else w[::3]):
            yield ["c19.wiring", wo, hv, p, c, st, 0]


PROP = C19()
