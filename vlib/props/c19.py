"""C19 — size-limit requests are padded to exactly limit+delta and the limit is sharp."""
import os
import re
from ..core import Prop, COQ


def vl(n):
    c = 1
    while n >= 128:
        n >>= 7
        c += 1
    return c


def fsz(n):
    """wire size of a length-delimited field with a one-byte tag holding n bytes (always emitted)"""
    return 1 + vl(n) + n


def pad_size(n):
    """bytes request_data with implicit presence"""
    return 0 if n == 0 else fsz(n)


def base_of(ty, k, fd):
    """proto.Size of the request message with request_data cleared, from the description the Go side builds it from"""
    if ty in (0, 1, 2, 3, 4):
        b = 0
        if k >= 0:
            b += fsz(fsz(k))          # response_definition { response_data: k bytes } (oneof member / repeated element)
        if ty == 4 and fd:
            b += 2                    # bool full_duplex = 2
        return b
    if ty == 5:
        return fsz(k) if k > 0 else 0  # ConformancePayload{data}
    return max(k, 0)                  # 6, 7: raw value of that many bytes


def msg(ty, k, fd, n0):
    return [ty, k, 1 if fd else 0, n0, base_of(ty, k, fd)]


def limits():
    """the limits the compiled code uses (C19_Consts.v is regenerated before generate() runs)"""
    out = {"server": 200 * 1024, "client": 1024 * 1024}
    try:
        text = open(os.path.join(COQ, "theories", "C19_Consts.v")).read()
        for name in out:
            m = re.search(r"c19_%s_receive_limit : Z := (-?\d+)%%Z" % name, text)
            if m:
                out[name] = int(m.group(1))
    except OSError:
        pass
    return out


PAD0 = [0, 1, 126, 127, 128, 16383, 16384]
BOUNDARY_D = [127 + 2, 128 + 3, 16383 + 3, 16384 + 4, 2097151 + 4, 2097152 + 5]
I32_MIN, I32_MAX = -2 ** 31, 2 ** 31 - 1

WIRE_OVER = "#" + "wire-over".encode().hex()

PROTOCOLS = {1: "connect", 2: "grpc", 3: "grpc-web"}
COMPRESSIONS = [1, 2, 3, 4, 5, 6]
STREAMS = [1, 2, 3, 4, 5]


class C19(Prop):
    id = "C19"
    props = "C19_Props"
    coq_files = ("Base", "C19_Consts", "C19_Model", "C19_Spec", "C19_Proofs", "C19_Props")
    models = ("C19_Model",)
    packages = {"cc": "internal/app/connectconformance"}
    kinds = {"c19.expand": "cc", "c19.sharp": "cc", "c19.wiring": "cc"}
    consts = ("cc",)
    go_timeout = 1500
    rule = ("c19.expand: expandRequestData on single requests of the five padded request types x response-definition sizes "
            "(bases 0..400) x existing padding {0,1,126,127,128,16383,16384} x targets in +-6 windows around the current size, "
            "around base, around limit, around every varint boundary of the final padding length (127/128, 16383/16384, "
            "2^21; 2^28 in the thorough tier) and around both range ends, plus random multi-message cases (absent directives, "
            "too many directives, messages without a padding field, undecodable Any). Compared: error class, and per message "
            "proto.Size with padding cleared, padding length, serialized size, other-fields-untouched. "
            "c19.sharp: live RPCs of the in-process reference client with the sized message at limit-1, limit, limit+1 of the "
            "uncompressed size: requests (sized by expandRequestData; zeros, or incompressible existing padding that is topped up "
            "or trimmed) against the reference server started with the server limit, for unary/client/server/half-/full-duplex "
            "streams; responses (unary, and the second message of a server stream; zeros or incompressible) from an exact-size "
            "connect-go handler against the client limit given as the runner gives it; protocols x compressions sampled per seed "
            "(quick) or in full (thorough). c19.wiring: a generated suite file with one size directive per offset through "
            "parseTestSuites, newTestCaseLibrary, runTestCasesForServer and both reference peers; compared: request size and "
            "the runner's verdict. non-trivial = padding changed, an error class other than range, or an RPC verdict")
    trusted_base = ("Coq 8.16.1 kernel (vm_compute used, native_compute not)", "extraction (ExtrOcamlBasic only) + ocaml/driver.ml",
                    "vlib generators/comparator, Go overlay harness files (build the request messages, classify error texts into 4 tags, "
                    "the exact-size response handler used as the reference client's peer, the generated suite file of c19.wiring)",
                    "modelled not verified: google.golang.org/protobuf (proto.Size, Any), connect-go WithReadMaxBytes - the latter only "
                    "compared with the specification `accepts` by live runs")
    assumptions = ("request_data is a proto3 bytes field with implicit presence and a field number < 16 in every padded request type "
                   "(re-checked from the descriptors on every run: C19_Consts.v + theorem tag_one_byte)",
                   "lengths and sizes are Go ints (< 2^63); directives are int32",
                   "make([]byte, delta) succeeds (no out-of-memory for multi-GiB targets; targets above 2^28 are not executed)")
    level_text = ("Machine-checked proof (Coq) that the padding loop of the model reaches exactly limit+offset whenever some padding "
                  "length does, rejects only unreachable / out-of-range / unpaddable requests, never crashes and changes only padding "
                  "lengths, for all messages, existing paddings and offsets; the model is tied to expandRequestData by a differential "
                  "run on every check, and the sharpness of the receive limit is a specification compared with live runs of the real "
                  "reference peers and of the runner's own path.")
    level_note = ("Trusted: Coq kernel, extraction, OCaml driver, harness. Correspondence model/Go is sampled (windows around every "
                  "boundary), not proved. limit_sharp (`accepts`) is a specification that execution is compared with, not a theorem about "
                  "connect-go. Known finding wire-size-also-limited: connect-go applies the limit to the compressed envelope as well, so "
                  "'measured on the uncompressed size' holds only while the compressed form does not exceed the limit. Client-side "
                  "sharpness uses an exact-size connect-go handler as the peer of the real reference client, because the reference server "
                  "echoes the request in every unary / first stream response and so cannot send a response sized to the byte.")
    technique = "Coq proof (fixed-point iteration on a step function, case split on varint classes); differential model-vs-Go; live RPC spec comparison"

    def nontrivial(self, case, res):
        if case[0] in ("c19.sharp", "c19.wiring"):
            return res.startswith("(") and "657272" not in res
        if "657272" in res:                      # (err tag)
            return "72616e6765" not in res       # anything but "range"
        # some message's padding differs from what it had
        ms = case[1]
        got = re.findall(r"\((-?\d+) (-?\d+) (-?\d+) (-?\d+)\)", res)
        return any(int(g[1]) != m[3] for g, m in zip(got, ms))

    def classify(self, case, g, m):
        # live verdict "rejected" for a message whose uncompressed size is within the limit while its
        # compressed form is above it (the Go harness measures both and tags exactly that situation)
        if case[0] == "c19.sharp" and g and m and WIRE_OVER in g and m.rstrip(")").endswith(" 1") and len(case) == 8 \
                and case[5] != 1 and case[2] <= 0:
            return "wire-size-also-limited"
        return None

    def describe(self, case, g, m):
        if case[0] == "c19.wiring":
            return ("a message-size suite run through the runner's own path (parseTestSuites, library, server_runner, reference "
                    "peers) does not give the verdicts of the specification accepts(limit, size) = size <= limit")
        if case[0] == "c19.sharp":
            return "receive limit not sharp: live reference peers disagree with the specification accepts(limit, size) = size <= limit"
        return "expandRequestData differs from the proved model (exact padding or justified rejection, never a crash)"

    # ------------------------------------------------------------------
    def generate(self, rng, tier):
        lim = limits()
        L = lim["server"]
        quick = tier == "quick"
        win = range(-6, 7)

        def single(m, T):
            d = T - L
            if I32_MIN <= d <= I32_MAX:
                return ["c19.expand", [m], [[d]]]
            return None

        ks = [-1, 0, 1, 20, 122, 123, 124, 125, 126, 127, 300, 390] if not quick else [-1, 0, 20, 123, 125, 390]
        combos = []
        for ty in range(5):
            for k in ks:
                for n0 in PAD0:
                    combos.append(msg(ty, k, ty == 4 and (k % 2 == 0), n0))
        seen = set()

        def emit(c):
            if c is None:
                return None
            key = repr(c)
            if key in seen:
                return None
            seen.add(key)
            return c

        for m in combos:
            base, n0 = m[4], m[3]
            cur = base + pad_size(n0)
            targets = set()
            for o in win:
                targets.add(cur + o)          # around the current size (shrinking below zero: defect #6a)
                targets.add(base + o)         # around the unpadded size (D around 0: 1 and 2 unreachable)
                targets.add(L + o)            # the way the suites use it
            for D in BOUNDARY_D[:4]:
                for o in win:
                    targets.add(base + D + o)
            for T in sorted(targets):
                c = emit(single(m, T))
                if c:
                    yield c
        # expensive windows (2 MiB and more of padding): a sample of the combinations
        big = BOUNDARY_D[4:] + ([268435455 + 5, 268435456 + 6] if not quick else [])
        sample = rng.sample(combos, 12 if quick else 60)
        for m in sample:
            for D in big:
                if D > 2 ** 27 and m is not sample[0]:
                    continue
                for o in win:
                    c = emit(single(m, m[4] + D + o))
                    if c:
                        yield c
        # both ends of the admissible range of the target
        for m in rng.sample(combos, 20):
            for o in win:
                c = emit(single(m, 0 + o))
                if c:
                    yield c
            for d in (I32_MIN, I32_MIN + 1, -L - 1, -L, -L + 1, -300000):
                yield ["c19.expand", [m], [[d]]]
        # random single cases
        for _ in range(1500 if quick else 40000):
            ty = rng.randrange(5)
            m = msg(ty, rng.choice([-1, 0, 3, 17, 60, 124, 125, 126, 127, 128, 129, 250, 399]), rng.random() < 0.5,
                    rng.choice(PAD0 + [2, 5, 100, 129, 130, 131, 1000, 16382, 16385, 16386, 16387, 16388, 20000]))
            base = m[4]
            r = rng.random()
            if r < 0.4:
                T = base + rng.choice([0, 1, 2, 3, 129, 130, 131, 132, 16386, 16387, 16388, 16389]) + rng.randint(-3, 3)
            elif r < 0.7:
                T = base + rng.randint(0, 40000)
            else:
                T = L + rng.randint(-300, 300)
            c = single(m, T)
            if c:
                yield c
        # multi-message cases: absent directives, fewer/more directives than messages, unpaddable messages
        for _ in range(1200 if quick else 20000):
            n = rng.randint(0, 4)
            ms = []
            for _ in range(n):
                ty = rng.choice([0, 1, 2, 3, 4, 4, 3, 2, 5, 6, 7])
                if ty <= 4:
                    ms.append(msg(ty, rng.choice([-1, 0, 7, 125, 126]), rng.random() < 0.5, rng.choice(PAD0 + [9, 300])))
                else:
                    ms.append(msg(ty, rng.choice([0, 1, 5, 130, 200]) if ty != 7 else rng.choice([1, 5, 130, 200]), False, 0))
            nd = rng.choice([0, n, n, n, max(0, n - 1), n + 1, rng.randint(0, 5)])
            ds = []
            for i in range(nd):
                r = rng.random()
                if r < 0.3:
                    ds.append([])
                elif r < 0.85:
                    b = ms[i][4] if i < n else 0
                    ds.append([b + rng.choice([0, 3, 50, 129, 130, 131, 16386, 16387, 16388, 1, 2]) + rng.randint(-2, 2) - L])
                elif r < 0.95:
                    ds.append([rng.randint(-20, 20)])
                else:
                    ds.append([rng.choice([-L - 1, -L, I32_MIN, -L - 100])])
            yield ["c19.expand", ms, ds]

        # ---- live sharpness ----
        # case: side off httpVersion protocol compression streamType fill
        #   side 0: request against the server limit, reference client -> reference server
        #   side 1: response against the client limit, exact-size stub handler -> reference client
        #   fill 1: the bulk of the sized message is incompressible (compressed form above the limit at off 0)
        offs = (-1, 0, 1)
        if quick:
            cfgs = []
            comps = COMPRESSIONS[:]
            rng.shuffle(comps)
            i = 0
            for st in STREAMS:                      # every stream type, protocols and compressions rotate
                for p in rng.sample([1, 2, 3], 2):
                    cfgs.append((0, 2, p, comps[i % 6], st, 0))
                    i += 1
            cfgs.append((0, 1, 1, comps[i % 6], 1, 0))                # HTTP/1.1 connect unary
            cfgs.append((0, 1, 3, comps[(i + 1) % 6], 3, 0))          # HTTP/1.1 grpc-web server stream
            for p in (1, 2, 3):                                       # client side
                cfgs.append((1, 2, p, comps[(i + p) % 6], 3, 0))
                cfgs.append((1, 2, p, comps[(i + p + 3) % 6], 1, 0))
            cfgs.append((1, 1, 1, comps[(i + 2) % 6], 1, 0))           # HTTP/1.1 connect unary response
            # incompressible content: without compression the limit is just as sharp; with one, the compressed
            # form of a message of exactly the limit is above the limit (known finding wire-size-also-limited)
            for side, st in ((0, rng.choice(STREAMS)), (1, rng.choice([1, 3]))):
                p = rng.choice([1, 2, 3])
                cfgs.append((side, 2, p, 1, st, 1))
                cfgs.append((side, 2, p, rng.choice(COMPRESSIONS[1:]), st, 1))
        else:
            cfgs = [(0, 2, p, c, st, f) for st in STREAMS for p in (1, 2, 3) for c in COMPRESSIONS for f in (0, 1)]
            cfgs += [(0, 1, p, c, st, f) for st in (1, 2, 3) for p in (1, 3) for c in COMPRESSIONS for f in (0, 1)]
            cfgs += [(1, hv, p, c, st, f) for hv in (1, 2) for p in (1, 2, 3) for c in COMPRESSIONS for st in (1, 3)
                     for f in (0, 1) if not (hv == 1 and p == 2)]
        for side, hv, p, c, st, f in cfgs:
            for off in offs + ((-2, 2, 10) if not quick else ()):
                yield ["c19.sharp", side, off, hv, p, c, st, f]

        # ---- the runner's own path: suite file -> parseTestSuites -> library -> server_runner -> peers ----
        # case: (offs) httpVersion protocol compression streamType
        if quick:
            w = [(2, rng.choice([1, 2, 3]), rng.choice(COMPRESSIONS), 1),
                 (2, rng.choice([1, 2, 3]), rng.choice(COMPRESSIONS), 2),
                 (2, rng.choice([1, 2, 3]), 1, 3),
                 (1, rng.choice([1, 3]), rng.choice(COMPRESSIONS), rng.choice([1, 3]))]
            wo = [-1, 0, 1]
        else:
            w = [(2, p, c, st) for p in (1, 2, 3) for c in COMPRESSIONS for st in (1, 2, 3)]
            w += [(1, p, c, st) for p in (1, 3) for c in (1, 2, 4) for st in (1, 2, 3)]
            wo = [-130, -2, -1, 0, 1, 2, 10]
        for hv, p, c, st in w:
            yield ["c19.wiring", wo, hv, p, c, st]


PROP = C19()
