"""C18 — error, metadata and message conversions are lossless."""
import base64
import itertools
from ..core import Prop

PREFIX = "type.googleapis.com/"
TYPES = ["connectrpc.conformance.v1.Header", "google.rpc.ErrorInfo", "google.protobuf.StringValue",  # registered
         "acme.v1.NotRegistered", "x", ""]                                                            # not registered
URL_PREFIXES = [PREFIX, PREFIX, PREFIX, "", "example.com/", "example.com/a/b/", "/", "type.googleapis.com//"]
MESSAGES = [None, b"", b"oops", b"with space and 100% sign", "grüß dich ☃".encode(), b"\xff\xfe invalid utf8 \xc3",
            b"line\nbreak\ttab\x00nul", b"%41%zz%", b"~}|{ !", b" padded \t"]
CODES_EXTRA = [0, 17, 18, 100, -1, 2147483647, -2147483648]


def varint(n):
    out = bytearray()
    while True:
        b = n & 0x7F
        n >>= 7
        if n:
            out.append(b | 0x80)
        else:
            out.append(b)
            return bytes(out)


def varint_ol(n, extra):
    """varint of n, `extra` redundant continuation bytes appended (non-minimal, still valid while <= 10 bytes)"""
    v = bytearray(varint(n))
    extra = min(extra, 10 - len(v))
    if extra > 0:
        v[-1] |= 0x80
        v += b"\x80" * (extra - 1) + b"\x00"
    return bytes(v)


# registered message types (linked into the Go test binaries by the harness imports) and their fields:
# number -> kind: 's' string, 'y' bytes, 'v' varint, 'b' bool, 'p' packed varints, 'f' fixed64, 'm' map<string,string>, 'S' Struct fields
SCHEMAS = {
    "connectrpc.conformance.v1.Header": {1: "s", 2: "rs"},
    "connectrpc.conformance.v1.Features": {1: "p", 2: "p", 3: "p", 4: "p", 5: "p"},
    "connectrpc.conformance.v1.RawHTTPResponse": {1: "v"},
    "google.protobuf.StringValue": {1: "s"},
    "google.protobuf.BytesValue": {1: "y"},
    "google.protobuf.Int64Value": {1: "v"},
    "google.protobuf.UInt32Value": {1: "v"},
    "google.protobuf.BoolValue": {1: "b"},
    "google.protobuf.DoubleValue": {1: "f"},
    "google.protobuf.Duration": {1: "v", 2: "v"},
    "google.protobuf.Struct": {1: "S"},
    "google.rpc.ErrorInfo": {1: "s", 2: "s", 3: "m"},
    "google.rpc.RetryInfo": {},
}


def noncanonical(rng, ty=None):
    """(type name, bytes): a VALID encoding of a registered type that no marshaller would emit: fields out of order, default values
    written out, a singular field twice (last wins), packed fields unpacked or split, unknown fields, over-long varints"""
    ty = ty or rng.choice(sorted(SCHEMAS))
    ol = lambda: rng.choice([0, 0, 0, 1, 2, 4]) if rng.random() < 0.5 else 0
    word = lambda: bytes(rng.choice(b"abkXY-/ ") for _ in range(rng.choice([0, 0, 1, 2, 5])))

    def fld(num, wt, body):
        return varint_ol(num << 3 | wt, ol()) + body

    def ld(num, body):
        return fld(num, 2, varint_ol(len(body), ol()) + body)

    def vint(num, zero_ok=True):
        n = rng.choice(([0] if zero_ok else []) + [1, 2, 3, 127, 128, 300, 2 ** 31, 2 ** 63])
        return fld(num, 0, varint_ol(n, ol()))

    def entry(val):
        kv = [ld(1, word()), val]
        if rng.random() < 0.4:
            kv.reverse()
        if rng.random() < 0.2:
            kv.insert(0, ld(1, b"overridden"))
        return b"".join(kv)

    def svalue():
        k = rng.randrange(4)
        if k == 0:
            return ld(3, word())                                  # string_value
        if k == 1:
            return fld(4, 0, varint_ol(rng.choice([0, 1, 7]), ol()))   # bool_value, any non-zero is true
        if k == 2:
            return fld(2, 1, bytes(rng.randrange(256) for _ in range(7)) + b"\x3f")   # number_value
        return fld(1, 0, varint_ol(0, ol()))                      # null_value

    fields = []
    for num, kind in SCHEMAS[ty].items():
        r = rng.random()
        if kind in "sy":
            if r < 0.7:
                fields.append(ld(num, word() if r > 0.2 else b""))          # explicit empty = default written out
                if rng.random() < 0.2:
                    fields.insert(0, ld(num, b"first"))                     # occurs twice, last wins
        elif kind == "rs":
            fields += [ld(num, word()) for _ in range(rng.randint(0, 3))]
        elif kind == "v":
            if r < 0.8:
                fields.append(vint(num))
        elif kind == "b":
            if r < 0.8:
                fields.append(fld(num, 0, varint_ol(rng.choice([0, 1, 1, 2, 255]), ol())))
        elif kind == "f":
            if r < 0.8:
                fields.append(fld(num, 1, bytes(8) if r < 0.3 else bytes(rng.randrange(256) for _ in range(7)) + b"\x40"))
        elif kind == "p":
            if r < 0.6:
                vals = [rng.randint(0, 3) for _ in range(rng.randint(0, 4))]
                k = rng.random()
                if k < 0.35:                                              # unpacked
                    fields += [fld(num, 0, varint_ol(v, ol())) for v in vals]
                elif k < 0.7 and len(vals) > 1:                           # packed in two runs
                    c = rng.randint(1, len(vals) - 1)
                    fields += [ld(num, b"".join(varint_ol(v, ol()) for v in vals[:c])), ld(num, b"".join(varint(v) for v in vals[c:]))]
                else:
                    fields.append(ld(num, b"".join(varint_ol(v, ol()) for v in vals)))
        elif kind == "m":
            fields += [ld(num, entry(ld(2, word()))) for _ in range(rng.randint(0, 3))]
        elif kind == "S":
            fields += [ld(num, entry(ld(2, svalue()))) for _ in range(rng.randint(0, 3))]
    if rng.random() < 0.4:
        fields.append(unknown_field(rng))
    if rng.random() < 0.7:
        rng.shuffle(fields)
    return ty, b"".join(fields)


def unknown_field(rng):
    """well-formed protobuf field with a number no conformance message uses"""
    num = rng.choice([100, 1000, 2047, 19000 - 1, 536870911])
    wt = rng.choice([0, 1, 2, 5, 3])
    tag = varint(num << 3 | wt)
    if wt == 0:
        return tag + varint(rng.choice([0, 1, 127, 128, 2 ** 63]))
    if wt == 1:
        return tag + bytes(rng.randrange(256) for _ in range(8))
    if wt == 5:
        return tag + bytes(rng.randrange(256) for _ in range(4))
    if wt == 2:
        body = bytes(rng.randrange(256) for _ in range(rng.randint(0, 5)))
        return tag + varint(len(body)) + body
    return tag + varint(1 << 3 | 0) + varint(7) + varint(num << 3 | 4)   # group with one varint inside


class C18(Prop):
    id = "C18"
    props = "C18_Props"
    coq_files = ("Base", "C18_Model", "C18_Spec", "C18_Proofs", "C18_Instances", "C18_Hist", "C18_Consts", "C18_Wiring", "C18_Props")
    models = ("C18_Model",)
    packages = {"int": "internal", "gu": "internal/grpcutil"}
    consts = ("int",)
    kinds = {"c18.err_connect": "int", "c18.err_go": "int", "c18.http": "int", "c18.codec_rt": "int", "c18.codec_unknown": "int",
             "c18.codec_hist": "int", "c18.codec_keep": "int", "c18.alias_http": "int", "c18.alias_md": "gu",
             "c18.err_grpc": "gu", "c18.md": "gu", "c18.md_back": "gu", "c18.outgoing": "gu", "c18.escape": "gu",
             "c18.percent": "gu", "c18.unpercent": "gu", "c18.b64": "gu"}
    rule = ("errors: codes 1..16 (+0, 17, 18, 100, -1, int32 bounds) x 9 message classes (unset, empty, ASCII, '%', non-ASCII, invalid UTF-8, "
            "control bytes) x 0-4 details (registered / unregistered type names, 8 URL prefix shapes, random value bytes) through "
            "proto->connect->proto, error->connect/proto (plain, connect, wrapped) and proto->grpc->proto (status, plain, wrapped); "
            "header lists of 0-5 headers x 0-3 values over names differing in case, '-bin' names, valid/padded/invalid base64 values "
            "through ProtoHeaderToMetadata/MetadataToProtoHeader, AppendToOutgoingContext+FromOutgoingContext, AddHeaders/AddTrailers; "
            "every byte 0..255 for ShouldEscapeByteInMessage and alone/in context for PercentEncodeMessage, random strings, "
            "all strings <=4 over {%,4,a,G,g,+, } for the decoder; all strings <=5 over {Q,/,=,LF,-} for DecodeBinaryHeader; "
            "message trees laid over ClientCompatRequest/RawHTTPRequest/StreamContents/StreamItem/MessageContents/Any with unknown "
            "fields (5 wire types) injected at depth 0-5 for both strict codecs. Details of 13 registered types (conformance messages, google.protobuf "
            "wrappers, Duration, Struct, google.rpc.ErrorInfo; linked into the test binaries) in VALID NON-CANONICAL encodings (fields permuted, "
            "defaults written out, singular field twice, packed/unpacked/split repeated, unknown fields, over-long varints) through all error kinds, "
            "compared byte for byte. Histories: c18.codec_hist - ONE message object (ClientCompatRequest tree or google.protobuf.Struct = map values) "
            "changed in place in a nested message / list / map value between 2-5 Size/Marshal/MarshalAppend/MarshalStable calls, every output decoded "
            "and compared with the current value and with a fresh build; c18.codec_keep - the same histories with 3-8 encodings of DIFFERENT messages (shorter and "
            "longer ones after each other) where all outputs of Marshal / MarshalAppend (destination of the call's own, with and without spare capacity) / "
            "MarshalStable of both codecs are KEPT and decoded only after the last call (a returned slice must not be a view of memory a later call "
            "writes); c18.alias_http / c18.alias_md - for AddHeaders, AddTrailers, "
            "ConvertToProtoHeader, ConvertProtoHeaderToMetadata, ConvertMetadataToProtoHeader: two destinations filled from one source (slices with "
            "spare capacity), a value appended to every list of each, the source scribbled over and appended to, first destination re-read; error "
            "kinds scribble the source error and a sibling result before the result is read. non-trivial = result longer than a tag")
    trusted_base = ("Coq 8.16.1 kernel (vm_compute used for the 256-value byte sweeps, native_compute not)",
                    "extraction (ExtrOcamlBasic only) + ocaml/driver.ml",
                    "vlib generators/comparator, Go overlay harness files (harness/C18)",
                    "external libraries, in the theorems only as universally quantified functions under the contracts of C18_Spec.v: "
                    "base64 = connect.EncodeBinaryHeader/DecodeBinaryHeader (b64_contract: dec (enc x) = Some x on byte strings; the Gallina "
                    "transcription used for extraction is PROVED to satisfy it and is compared with the Go functions on every run, kind c18.b64); "
                    "connect.NewErrorDetail/ErrorDetail.Type/Bytes (detail_contract); proto.Marshal/Unmarshal (bin_contract); "
                    "protojson.Marshal/Unmarshal with DiscardUnknown unset (json_contract); the contract-level instances are proved to satisfy them "
                    "(contracts_inhabited)",
                    "modelled third-party behaviour inside the model, compared on every run but not verified: grpc-go status.ErrorProto/FromError "
                    "(nil for OK, wrapped status keeps code+details with the wrapper's text) and metadata.AppendToOutgoingContext/FromOutgoingContext "
                    "(lower-cased keys, append), url.PathUnescape as the percent decoder, textproto.CanonicalMIMEHeaderKey, strings.ToLower on ASCII")
    assumptions = ("header names are ASCII (strings.ToLower on non-ASCII / invalid UTF-8 is not modelled)",
                   "error codes are int32 values (theorems: int32 code; the generator also sends 0, 17, 18, 100, -1 and the int32 bounds); "
                   "byte strings consist of bytes (< 256)",
                   "an unset error message and an empty one are the same text: every conversion returns the message set",
                   "type-URL restoration is exact for canonical URLs (default prefix + name); any other URL keeps its type name and gets the default prefix",
                   "a -bin value that is not canonical base64 (padded, or not base64 at all) keeps its content and is re-encoded once, so its text may change",
                   "unknown fields inside the opaque value bytes of a google.protobuf.Any are outside the codecs' view",
                   "a Connect error made by ConvertProtoToConnectError keeps the Any messages of the test-case error (connect.NewErrorDetail keeps an "
                   "*anypb.Any as it is - connect-go's API): changing those messages in place afterwards shows through; every other conversion "
                   "returns structures of its own (checked: c18.alias_*, scribbling in the error kinds)",
                   "explicit-memory model: every array has spare capacity (append is always in place - the worst case for sharing; the harness makes "
                   "source slices with spare capacity); stale nested size caches are abstracted to a three-valued sizing state of the message object")

    level_text = ("Machine-checked proof (Coq) that the model of the six error conversions, the header<->metadata conversions, the outgoing-context "
                  "path, AddHeaders/ConvertToProtoHeader, percent-encoding and the strict codecs' own logic are lossless: round-trip laws for ALL "
                  "inputs and, for the header/metadata conversions and the codecs, for all HISTORIES in which the converted structures / message objects are "
                  "used further (explicit-memory model: conversions_do_not_alias; codec_stateless; codec_outputs_are_values = every kept output of Marshal/MarshalAppend/MarshalStable, read again after all later calls, is still the encoding of its own message; detail bytes handed on verbatim) (23 theorems, closed under the global context), the libraries entering as quantified functions under explicit round-trip "
                  "contracts that the extracted instances are proved to meet; the model is tied to the Go code by a differential run on every check.")
    level_note = ("Trusted: Coq kernel, extraction, OCaml driver, harness; base64/protobuf/protojson/connect are contracts (base64 instance proved and "
                  "compared with Go), grpc-go/net/url/textproto behaviour is modelled and compared; the model-code correspondence is sampled "
                  "(exhaustive over the 256 bytes and the small alphabets named in the rule), not proved. The output-memory model of codec_outputs_are_values has one cell per "
                  "returned slice (a view of PART of a shared array is not modelled; MarshalAppend's destination is the call's own); sync.Pool reuse is scheduler-dependent in Go, "
                  "so c18.codec_keep sees a pooled result only when the pool hands the same buffer back (same goroutine: practically always). Nothing is partial: no theorem carries the suffix. "
                  "Which peer installs which strict codec is set-up code outside this property: the table is regenerated from the peers' sources "
                  "(C18_Consts.v), recorded in the evidence and never pinned; strict_where_installed says what the codec theorems give for a peer that "
                  "installs a codec on every path (on /repo: the reference server for JSON; StrictProtoCodec is installed by no peer).")
    technique = "Coq round-trip proofs over contract-parametrised model; differential model-vs-Go correspondence"

    def nontrivial(self, case, res):
        return len(res) > 12

    def extra(self, ctx):
        """descriptive only: which peer installs which strict codec (C18_Consts.v, regenerated from the peers' sources) goes
        into the evidence; nothing is demanded of it (which codec a peer installs is outside C18, see C18_Wiring.v)"""
        import os
        import re
        from ..core import COQ
        try:
            text = open(os.path.join(COQ, "theories", "C18_Consts.v")).read()
            peers = {1: "referenceserver", 2: "referenceclient", 3: "grpcserver", 4: "grpcclient"}
            codecs = {1: "StrictJSONCodec", 2: "StrictProtoCodec"}
            ctx.notes["strict_codec_registrations"] = [
                "%s installs %s %s" % (peers.get(int(p), p), codecs.get(int(c), c),
                                       "on every path" if int(g) == 0 else "under %s condition(s)" % g)
                for p, c, g in re.findall(r"\((\d+), (\d+), (\d+)\)", text)]
        except OSError:
            pass
        return []

    def describe(self, case, g, m):
        return {"c18.err_connect": "proto<->connect error conversion", "c18.err_go": "error->connect/proto conversion",
                "c18.err_grpc": "proto<->gRPC status conversion", "c18.md": "header list <-> gRPC metadata (repeated keys, -bin)",
                "c18.md_back": "metadata -> header list", "c18.outgoing": "AppendToOutgoingContext: -bin values must be encoded once",
                "c18.http": "AddHeaders/AddTrailers/ConvertToProtoHeader", "c18.escape": "ShouldEscapeByteInMessage",
                "c18.percent": "PercentEncodeMessage round trip", "c18.unpercent": "percent decoder", "c18.b64": "base64 oracle instance",
                "c18.codec_rt": "strict codec: Unmarshal(Marshal(m)) must give m (format 0=binary 1=JSON)",
                "c18.codec_unknown": "strict codec must reject unknown fields at any depth",
                "c18.codec_hist": "strict codec: a message changed in place after an earlier Size/Marshal must encode as its current value",
                "c18.codec_keep": "strict codec: an output of Marshal/MarshalAppend/MarshalStable, kept and decoded after later calls, is no longer its own message",
                "c18.alias_http": "AddHeaders/AddTrailers/ConvertToProtoHeader: a destination changed when the source or a sibling destination was used further",
                "c18.alias_md": "metadata conversions: a destination changed when the source or a sibling destination was used further"}.get(case[0], "") + \
            ": implementation differs from the proved lossless model"

    # ---------------------------------------------------------------- generators
    def gen_details(self, rng, n):
        out = []
        for _ in range(n):
            if rng.random() < 0.45:
                # registered type, valid but non-canonical bytes: must come back byte for byte, not re-encoded
                ty, val = noncanonical(rng)
                out.append([rng.choice(URL_PREFIXES) + ty, val])
                continue
            url = rng.choice(URL_PREFIXES) + rng.choice(TYPES)
            val = bytes(rng.randrange(256) for _ in range(rng.choice([0, 1, 3, 12])))
            out.append([url, val])
        return out

    def gen_perr(self, rng, code=None, msg=0, nd=None):
        if code is None:
            code = rng.randint(1, 16) if rng.random() < 0.85 else rng.choice(CODES_EXTRA)
        if msg == 0:
            msg = rng.choice(MESSAGES) if rng.random() < 0.7 else bytes(rng.randrange(256) for _ in range(rng.randint(0, 10)))
        if nd is None:
            nd = rng.randint(0, 4)
        return [code, [] if msg is None else [msg], self.gen_details(rng, nd)]

    NAMES = ["x-a", "X-A", "X-a", "x-b", "Key-Bin", "key-bin", "KEY-BIN", "data-bin", "Data-BIN", "bin", "-bin", "-BIN", "x-binx",
             "x-bin-", "", "a_b.c", "Content-Type", "grpc-status-details-bin", "x--y", "1-2-bin", "ab", "aB-"]

    def gen_value(self, rng, name):
        r = rng.random()
        if name.lower().endswith("-bin") or r < 0.15:
            raw = bytes(rng.randrange(256) for _ in range(rng.randint(0, 7)))
            std = base64.b64encode(raw)
            k = rng.random()
            if k < 0.45:
                return std.rstrip(b"=")
            if k < 0.65:
                return std
            if k < 0.75:
                return base64.urlsafe_b64encode(raw)            # '-' '_' are not in the std alphabet
            if k < 0.85:
                return rng.choice([b"!!!", b"a", b"ab=c", b"====", b"a===", b"QQ=", b"QQ=Q", b"Q Q", b"not base64", b"QUI\n", b"QQ\r\n=="])
            return base64.b64encode(std).rstrip(b"=")           # base64 of base64 text
        if r < 0.3:
            return b""
        if r < 0.4:
            return "välue".encode()
        return bytes(rng.choice(b"abcXYZ019 ,;=%-") for _ in range(rng.randint(1, 6)))

    def gen_headers(self, rng, names=None, maxh=5):
        names = names or self.NAMES
        base = rng.sample(names, rng.randint(1, 4))
        hs = []
        for _ in range(rng.randint(0, maxh)):
            n = rng.choice(base)
            if isinstance(n, str) and rng.random() < 0.3:
                n = "".join(c.upper() if rng.random() < 0.5 else c.lower() for c in n)
            hs.append([n, [self.gen_value(rng, n) for _ in range(rng.choice([0, 1, 1, 1, 2, 3]))]])
        return hs

    def gen_tree(self, rng, json, p_unknown):
        def unk():
            return b"".join(unknown_field(rng) for _ in range(rng.randint(1, 2))) if rng.random() < p_unknown else b""

        def word():
            n = rng.randint(300, 900) if rng.random() < 0.04 else rng.randint(0, 6)     # a few messages beyond 512 bytes
            return "".join(rng.choice("abcXYZ-/ ") for _ in range(n))

        def leaf():
            return [word(), unk(), []]

        def mc():
            subs = []
            if not json and rng.random() < 0.4:
                subs = [[PREFIX + rng.choice(TYPES), unk(), []]]
            return [word(), unk(), subs]

        def item():
            return ["", unk(), [mc()] if rng.random() < 0.7 else []]

        def stream():
            return ["", unk(), [item() for _ in range(rng.randint(0, 3))]]

        def raw():
            subs = []
            if rng.random() < 0.8:
                subs = [stream()] + [leaf() for _ in range(rng.randint(0, 2))]
            return [word(), unk(), subs]
        subs = []
        if rng.random() < 0.85:
            subs = [raw()] + [leaf() for _ in range(rng.randint(0, 2))]
        return [word(), unk(), subs]

    def mutate_tree(self, rng, t, json):
        """a copy of tree t changed in ONE nested place: a deeper message's scalar, a list grown or shrunk, a sub-tree replaced"""
        t = [t[0], t[1], [self.mutate_tree(rng, s, json) if False else s for s in t[2]]]
        path = t
        while path[2] and rng.random() < 0.8:
            i = rng.randrange(len(path[2]))
            path[2] = list(path[2])
            path[2][i] = [path[2][i][0], path[2][i][1], list(path[2][i][2])]
            path = path[2][i]
        k = rng.random()
        if k < 0.5:
            path[0] = path[0] + "".join(rng.choice("abcXYZ") for _ in range(rng.choice([1, 3, 40, 200])))
        elif k < 0.65:
            path[0] = ""
        elif k < 0.85 and path[2]:
            path[2] = path[2] + [path[2][-1]]
        elif path[2]:
            path[2] = path[2][:-1]
        else:
            path[0] = "changed"
        return t

    def gen_history(self, rng, json):
        t = self.gen_tree(rng, json, 0.0)
        steps = [[rng.choice([0, 0, 1, 2]), t]]
        for _ in range(rng.randint(1, 4)):
            t = self.mutate_tree(rng, t, json) if rng.random() < 0.85 else self.gen_tree(rng, json, 0.0)
            steps.append([rng.choice([0, 0, 0, 1, 2]), t])
        return steps

    def gen_keep_history(self, rng, json):
        """3-8 encodings of different messages (sizes going up and down), a Size-only step now and then"""
        steps, t = [], None
        n = rng.choice([3, 3, 4, 5, 8])
        while sum(1 for s in steps if s[0] != 2) < n:
            if t is None or rng.random() < 0.5:
                t = self.gen_tree(rng, json, 0.0)
            else:
                t = self.mutate_tree(rng, t, json)
            steps.append([rng.choice([0, 0, 0, 1, 2]), t])
        return steps

    def generate(self, rng, tier):
        quick = tier == "quick"
        # ---- errors: structured product, then random
        for code in list(range(1, 17)) + CODES_EXTRA:
            for msg in MESSAGES:
                nd = rng.randint(0, 4)
                e = self.gen_perr(rng, code, msg, nd)
                yield ["c18.err_connect", e]
                yield ["c18.err_grpc", 0, "", e]
        for nd in range(0, 5):
            for pre in URL_PREFIXES:
                for ty in TYPES:
                    ds = self.gen_details(rng, nd)
                    if ds:
                        ds[rng.randrange(nd)][0] = pre + ty
                    e = [rng.randint(1, 16), [b"m"], ds]
                    yield ["c18.err_connect", e]
                    yield ["c18.err_grpc", rng.choice([0, 0, 2]), "wrapped: text", e]
        for _ in range(15000 if quick else 90000):
            e = self.gen_perr(rng)
            yield ["c18.err_connect", e]
            yield ["c18.err_go", rng.randint(0, 2), rng.choice([b"", b"plain error", b"ctx: \xffbad"]), e]
            yield ["c18.err_grpc", rng.randint(0, 2), rng.choice([b"", b"plain error", b"ctx: \xffbad"]), e]
        # ---- header lists
        yield ["c18.md", [["X-A", ["1"]], ["x-a", ["2"]]]]
        yield ["c18.outgoing", [["Key-Bin", [b"AQID"]]]]
        for _ in range(27000 if quick else 150000):
            hs = self.gen_headers(rng)
            yield ["c18.md", hs]
            yield ["c18.outgoing", hs]
        for _ in range(8000 if quick else 40000):
            seen, hs = set(), []
            for h in self.gen_headers(rng):
                if h[0] not in seen:
                    seen.add(h[0])
                    hs.append(h)
            yield ["c18.md_back", hs]
        http_names = self.NAMES + ["x a", "x:a", "X-\u00e4", "a-b-c", "A-B-c", "x-a!", "x_a"]
        for _ in range(13000 if quick else 50000):
            yield ["c18.http", rng.randint(0, 1), self.gen_headers(rng, http_names)]
        # ---- percent-encoding: exhaustive over bytes, then random
        for b in range(256):
            yield ["c18.escape", b]
            yield ["c18.percent", bytes([b])]
            yield ["c18.percent", b"a" + bytes([b]) + b"%z"]
            yield ["c18.percent", bytes([b, b]) + b"ok"]
        yield ["c18.percent", b""]
        alph = [bytes(range(256)), bytes(range(32, 127)), b"%%%a0F ", b"\xc3\xa4\xe2\x98\x83%~ \x7f\x1f"]
        for _ in range(25000 if quick else 150000):
            a = rng.choice(alph)
            yield ["c18.percent", bytes(rng.choice(a) for _ in range(rng.randint(0, 24)))]
        for n in range(0, 5 if quick else 6):
            for t in itertools.product(b"%4aGg+ ", repeat=n):
                yield ["c18.unpercent", bytes(t)]
        for _ in range(3000 if quick else 50000):
            yield ["c18.unpercent", bytes(rng.choice(b"%%%0123456789abcdefABCDEFgG+/ \xff") for _ in range(rng.randint(0, 16)))]
        # ---- base64 oracle instance against connect's functions
        for n in range(0, 6 if quick else 8):
            for t in itertools.product(b"Q/=\n-", repeat=n):
                yield ["c18.b64", bytes(t)]
        for _ in range(3000 if quick else 50000):
            raw = bytes(rng.randrange(256) for _ in range(rng.randint(0, 10)))
            yield ["c18.b64", raw]
            enc = base64.b64encode(raw)
            yield ["c18.b64", rng.choice([enc, enc.rstrip(b"="), enc + b"=", enc[:-1], enc.replace(b"A", b"\r\n")])]
        # ---- strict codecs
        for _ in range(8000 if quick else 40000):
            for codec in (0, 1):
                yield ["c18.codec_rt", codec, self.gen_tree(rng, codec == 1, 0.0)]
        for _ in range(12000 if quick else 60000):
            for codec in (0, 1):
                yield ["c18.codec_unknown", codec, self.gen_tree(rng, codec == 1, rng.choice([0.0, 0.1, 0.1, 0.3]))]
        # ---- codec histories: one message object changed in place (nested message, list element, map value) between encodings
        for _ in range(12000 if quick else 50000):
            for codec in (0, 1):
                yield ["c18.codec_hist", codec, rng.randint(0, 1), self.gen_history(rng, codec == 1)]
        # ---- several outputs kept and decoded after all calls (returned byte slices are values, not views of a reused buffer)
        for _ in range(4000 if quick else 20000):
            for codec in (0, 1):
                yield ["c18.codec_keep", codec, rng.randint(0, 1), self.gen_keep_history(rng, codec == 1)]
        # ---- the converted structures are used further: source scribbled, sibling destination appended to
        for _ in range(24000 if quick else 100000):
            hs = self.gen_headers(rng, http_names)
            yield ["c18.alias_http", rng.randint(0, 2), hs, rng.choice([b"first-extra", b"", b"1"]), rng.choice([b"second-extra", b"2"])]
            hs = self.gen_headers(rng)
            yield ["c18.alias_md", rng.randint(3, 4), hs, rng.choice([b"first-extra", b"", b"AQ"]), rng.choice([b"second-extra", b"Ag"])]


PROP = C18()
