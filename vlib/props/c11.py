"""C11 — a server batch always yields exactly one outcome per case and terminates."""
import itertools
import os

from .. import core
from ..core import Prop

NAMES = ["S/a", "S/b", "T/c", "T/d", "U/e e", "U/f", "V/g/h", "V/g", "W", "X/i:1", "X/j", "Y/k", "Y/l", "Z/m"]
SENT = b"<<verif-c11-end>>"
LATE = 99                      # a delay no batch reaches: the callback fires while the function waits
APASS, AFAIL, ACLIENTERR, ANEITHER, ACBERR, ANORESULT = range(6)
ANSWERS = [APASS, AFAIL, ACLIENTERR, ANEITHER, ACBERR, ANORESULT]
# (code, param): valid+cert, valid without cert, valid zero-length; empty, cut, oversize, garbage
R_CERT, R_NOCERT, R_ZERO = (0, 0), (1, 0), (2, 0)
FULL_LEN = 37                  # length of the harness's full response (prefix + body); cuts are taken mod len


def mk(cases, refsrv=0, refcli=0, tls=0, start=1, wf=0, resp=R_NOCERT, dead=-1, stderr=b"", chunk=4096, wait=None, clean=0):
    """assemble a case; `wait`: None = decide here (marker appended whenever the stderr reader exists);
    `clean`: the server that is gone after `dead` sends exited with status 0 (result() nil), not with an error"""
    if wait is None:
        if refsrv and start:
            stderr = stderr + b"\n" + SENT + b"\n"      # the marker is a complete line: nothing hangs if an
            wait = SENT                                   # unterminated last line were dropped
        else:
            wait = b""
    return ["c11.batch", [refsrv, refcli, tls] + ([1] if clean else []), start, wf, list(resp), dead, bytes(stderr), chunk,
            bytes(wait), [list(c) for c in cases]]


def proc(mode, aborts=1, pre=0, code=0, tmode=2, td=0, cmode=0, cd=0, killable=0, holds=0, wd=0, n=0):
    """one process case: (pre code tmode td cmode cd killable holds wd n), durations in ms"""
    return ["c11.proc", mode, aborts, [pre, code, tmode, td, cmode, cd, killable, holds, wd, n]]


BIG = 262200                   # a request far beyond what the OS pipe of a child's stdin takes unread (64 KiB)
SMALL = 40
PIPE_CAP = 65536


def start(n=2, all_=0, answers=0, delay=0, reads=0, release=1, code=3, length=BIG, sd=0):
    """mode 5: the real runTestCasesForServer over the real runCommand around a child scripted in what it does with
    its stdin: (all answers delay reads release code len cap sd n); release 0 keeps stdin open unread, 1 exits with
    `code`, 2 closes its stdin and stays until SIGTERM; sd = the starter hands the process over this much later"""
    return ["c11.proc", 5, 1, [all_, answers, delay, reads, release, code, length, PIPE_CAP, sd, n]]


def start_cases(tier):
    ns = (0, 2, 3)
    # the child lets go of its stdin by EXITING: at once without reading (before / racing with / after the writes),
    # after a delay during which the write of a big request is blocked, after reading k bytes
    for i, kw in enumerate((dict(length=BIG), dict(length=BIG, sd=1000), dict(length=SMALL, sd=1000), dict(length=BIG, delay=2000),
                            dict(length=SMALL, delay=2000), dict(length=BIG, reads=100), dict(length=BIG, reads=4, sd=1000),
                            dict(length=SMALL, reads=4), dict(length=SMALL), dict(length=BIG, reads=PIPE_CAP, sd=1000),
                            dict(length=BIG, reads=100, delay=2000))):
        for code in (0, 3):
            yield start(n=ns[(i + code) % 3], code=code, **kw)
    # it closes its stdin after the request was written and taken by the OS pipe, or keeps it open unread, or reads
    # everything and says nothing: the response time-out ends the start
    yield start(n=2, release=2, length=SMALL, delay=2000)
    yield start(n=3, release=0, length=SMALL)
    yield start(n=2, all_=1, length=SMALL)
    yield start(n=2, all_=1, length=BIG)
    # control: it reads the request and answers (with a certificate: TLS is on) -> every case passes
    yield start(n=3, all_=1, answers=1, length=SMALL)
    yield start(n=3, all_=1, answers=1, length=BIG, sd=1000)
    # KNOWN FINDING request-write-unbounded: it CLOSES its stdin unread and stays alive while a write is pending
    yield start(n=2, release=2, length=BIG)
    yield start(n=2, release=2, length=SMALL, sd=1000)
    if tier != "quick":
        yield start(n=1, release=2, length=BIG, delay=2000)
        yield start(n=1, release=2, length=BIG, reads=100)


def live(flavour, when, code, k, n, own=0):
    """mode 6: the real runTestCasesForServer over a REAL server process that gives up by itself:
    (flavour when code k n own); flavour 0 an OS child of runCommand (the real cmdProcess.whenDone), 1 a server function
    under runInProcess (reference server: its stderr is parsed); when 0 at once, 1 after reading the request, 2 after the
    handshake when k sendRequest calls have returned; code 0 = exit status 0 / nil error"""
    return ["c11.proc", 6, 1, [flavour, when, code, k, n, own]]


def live_cases(rng, tier):
    # a server under test that answers the handshake and EXITS, with status 0 or not, after k of n requests
    for n, k in ((3, 1), (4, 2), (2, 2), (3, 4)):
        for code in (0, 3):
            yield live(0, 2, code, k, n)
    yield live(0, 2, 0, rng.randrange(1, 4), 5)
    # an in-process reference server that returns - nil or an error - at once / after the request / after k requests
    for code in (1, 0):
        yield live(1, 0, code, 0, 2, own=code)
        yield live(1, 1, code, 0, 3, own=1)
        yield live(1, 2, code, 1, 3, own=2 - code)
        yield live(1, 2, code, 2, 2, own=0)
    yield live(1, 2, 1, rng.randrange(1, 4), 4, own=rng.randrange(0, 3))
    yield live(1, 2, 1, 5, 3, own=1)           # it stays to the end: stopped by the runner, the error is still passed on
    if tier != "quick":
        for n in range(1, 6):
            for k in range(1, n + 2):
                yield live(0, 2, 0, k, n)
                yield live(1, 2, 1, k, n, own=k % 3)


def proc_cases(rng):
    """every child behaviour x every way of stopping it; every scripted delay is >= 1 s away from every other
    event of the same script (5000 forced close, 10000 giving up, WaitDelay), so only the ORDER is observed"""
    k = itertools.cycle([1, 2, 3, 2])
    # mode 0: real OS children of the real runCommand
    for code in (0, 3):
        yield proc(0, next(k), pre=1, code=code, killable=1)
    for holds in (0, 1):
        for kw in (dict(tmode=0, td=0, code=0), dict(tmode=0, td=0, code=3), dict(tmode=1), dict(tmode=0, td=1000, code=7),
                   dict(tmode=0, td=1000, code=0), dict(tmode=2)):
            yield proc(0, next(k), killable=1, holds=holds, **kw)
    # mode 1: cmdProcess over a scripted operating system
    for code in (0, 3):
        yield proc(1, next(k), pre=1, code=code, killable=1, wd=2500)
    for tm, td in ((0, 0), (0, 1500), (1, 0), (2, 0)):
        for cm, cd in ((0, 0), (1, 0), (1, 2000)):
            for killable in (0, 1):
                for wd in (0, 2500, 8500):
                    yield proc(1, next(k), code=rng.choice([0, 0, 3]), tmode=tm, td=td, cmode=cm, cd=cd, killable=killable, wd=wd)
    # mode 2: real localProcess
    for code in (0, 1):
        yield proc(2, next(k), pre=1, code=code, tmode=0)
        for kw in (dict(tmode=0, td=0), dict(tmode=0, td=1500), dict(tmode=0, td=7000), dict(tmode=2)):
            yield proc(2, next(k), code=code, **kw)
    # modes 3, 4: runTestCasesForServer over them
    for n in (0, 2, 5):
        for kw in (dict(tmode=2), dict(tmode=0, td=0), dict(tmode=0, td=1500, code=3), dict(tmode=2, cmode=1, cd=2000),
                   dict(tmode=2, killable=1, wd=2500), dict(tmode=2, killable=1, wd=8500), dict(tmode=1, wd=2500)):
            yield proc(3, 1, n=n, **kw)
    for n in (1, 3):
        for kw in (dict(tmode=0, td=0), dict(tmode=0, td=1500), dict(tmode=0, td=7000), dict(tmode=2)):
            yield proc(4, 1, n=n, **kw)


S_LIMIT, C_LIMIT = 1 << 20, 1 << 24     # maxServerResponseSize, maxClientResponseSize as shipped (the model uses the
                                         # values regenerated from the code; these only place the windows)


def limit(size, body=0, n=2, tls=0):
    """the scripted server announces `size` bytes and then delivers a valid response of that size (body=1) or
    nothing: outcome per case, returned, stdout read beyond the prefix"""
    return ["c11.limit", size, body, n, tls]


def limit_cases(rng, tier):
    # the window around the server limit, with and without a body behind the prefix
    for size in (S_LIMIT - 1, S_LIMIT, S_LIMIT + 1, S_LIMIT + 2):
        for body in (0, 1):
            yield limit(size, body, n=rng.choice([1, 2, 3]), tls=body)
    # between the two limits and around the client's: refused at the prefix; the body (2 - 16 MB) is built by
    # the harness only if the code asks for it, i.e. never on a correct tree
    for size in (2 * S_LIMIT, 2 * S_LIMIT + 7, C_LIMIT - 1, C_LIMIT, C_LIMIT + 1):
        yield limit(size, 0, n=2)
        yield limit(size, 1, n=rng.choice([0, 3]), tls=1)
    yield limit(200, 1, n=3, tls=1)
    yield limit(70000, 1, n=1)
    for _ in range(12 if tier == "quick" else 60):
        size = rng.choice([rng.randint(1, 4 * S_LIMIT), rng.randint(S_LIMIT + 1, C_LIMIT), rng.randint(1, S_LIMIT)])
        yield limit(size, 0, n=rng.randint(0, 4), tls=rng.randrange(2))
    for _ in range(4 if tier == "quick" else 20):
        yield limit(rng.randint(S_LIMIT + 1, C_LIMIT), 1, n=rng.randint(1, 3), tls=1)


PCT_NAMES = ["Pct/100%", "Pct/%s done", "Pct/50%d", "Pct/%%", "Pct/%v/%41%42", "Pct/a%!b", "Pct/%", "Pct/%5.2f x"]
PMSGS = ["expected HTTP version 1; instead got 2", "m1", "x: y", "100% wrong", "got %s", "%d", "trailing  ", "a\tb", ""]


def printer(names, progs, rounds=1, mode=0):
    """goroutines (one list of (prefix, message) each) print through ONE real printer into the stderr the real
    runTestCasesForServer parses; mode bit 0: messages without '%' are passed as the format itself; mode >= 2: the
    writer does not sleep"""
    return ["c11.printer", list(names), [[[p, m] for p, m in g] for g in progs], rounds, mode]


def printer_cases(rng, tier):
    plain = ["S/a", "S/b", "T/c", "T/d", "U/e e", "V/g/h", "X/i:1"]
    for k in range(26 if tier == "quick" else 120):
        pool = PCT_NAMES if k % 3 == 0 else (plain if k % 3 == 1 else plain + PCT_NAMES)
        batch = rng.sample(pool, rng.randint(3, min(6, len(pool))))
        ng = rng.randint(3, 4)
        owners = list(batch)
        rng.shuffle(owners)
        progs = [[] for _ in range(ng)]
        for i, nm in enumerate(owners):                      # every batch name: at most one line, so that the record
            if rng.random() < 0.85:                          # does not depend on the order of the lines
                progs[i % ng].append((nm, rng.choice(PMSGS[:-1])))
        others = ["referenceserver", "Q/zz", "panic", "Pct/other%d", "x%"]
        for g in progs:
            for _ in range(rng.randint(0, 2)):
                g.insert(rng.randint(0, len(g)), (rng.choice(others), rng.choice(PMSGS)))
        for g in progs:
            if not g:
                g.append((rng.choice(others), "filler"))
        yield printer(batch, progs, rounds=1 if k % 4 else 2, mode=k % 2)
    # without the sleeping writer: plain contention
    for k in range(6 if tier == "quick" else 30):
        batch = ["S/a", "S/b", "T/c", "Pct/100%", "Pct/%s done"]
        progs = [[(nm, "feedback for " + nm)] + [("noise%d" % g, "line %d" % j) for j in range(20)] for g, nm in enumerate(batch)]
        yield printer(batch, progs, rounds=1, mode=2 + k % 2)


def cs(n, answers=None, delays=None, senderr=None, names=None, feedback=None, reports=None):
    names = names or NAMES
    out = []
    for i in range(n):
        nm = names[i]
        out.append([nm, 0 if senderr == i else 1, (answers[i] if answers else APASS), (delays[i] if delays else 0),
                    (reports[i] if reports else nm), (feedback[i] if feedback else [])])
    return out


LINE_SHAPES = [b"S/a: m1", b"S/b: m2", b"S/a: again", b"Q/zz: not in the batch", b"no colon here", b"S/a:nospace",
               b"  S/a: padded  ", b"", b"   ", b"S/a: ", b"S/a:  two spaces", b": S/a", b"S/a: x: y", b"T/c: S/a: nested",
               b"\tS/b: tab\r", b"S/a", b"S/a :m", b"s/a: case", b"S/a: \x0b", b"\x0cS/b: ff"]


class C11(Prop):
    id = "C11"
    props = "C11_Props"
    coq_files = ("Base", "C11_Consts", "C11_Proc", "C11_Start", "C11_Printer", "C11_InProc", "C11_Model", "C11_Spec",
                 "C11_Proofs", "C11_ProcProofs", "C11_StartProofs", "C11_PrinterProofs", "C11_InProcProofs", "C11_Props")
    models = ("C11_Model",)
    packages = {"cc": "internal/app/connectconformance"}
    kinds = {"c11.batch": "cc", "c11.proc": "cc", "c11.limit": "cc", "c11.printer": "cc"}
    consts = ("cc",)
    go_timeout = 1500
    rule = ("c11.batch drives the real runTestCasesForServer with a scripted server process and a scripted clientRunner. "
            "EVERY fault point for batches of 0..5 cases: start error; stdin write error at either write, close error; response empty, "
            "cut at every byte, oversize, garbage, zero-length, with/without certificate x TLS on/off; server exit after k sends "
            "(k=0..n) in BOTH flavours (exit status 0 = result() nil, and an error) x sendRequest error at position p (none, "
            "0..n-1), each with synchronous, all-late, staggered and random answer timings; every timing vector over {own send, "
            "+1, +2, late} for n<=5 x every loop fault point; every answer "
            "pair for n=2; stderr streams: every sequence of <=2 line shapes (20 shapes: valid, unknown name, no colon, no space, "
            "padded, blank, nested ': ', case-changed, control characters) x LF/CRLF x terminated/unterminated x read sizes, random "
            "longer streams and random bytes; random batches of 5..12 cases with every fault kind, misreported names, duplicate "
            "names, reference-client feedback. One 'never answers' case (10 s) in quick, more in thorough. "
            "Compared at the moment the function returns: outcome kind per name (missing/pass/failed/setup/could-not-run/"
            "no-result/callback-error), number of outcomes set per name, returned, started, abort requested, process state, "
            "process-end transitions, names handed to the client; at quiescence of the stderr reader: side-band record per name, "
            "lines passed through. c11.proc (process.go, ~130 cases run concurrently, 10 s): the REAL cmdProcess of runCommand "
            "around the test binary re-executed as a scripted child (exits on SIGTERM with status 0 / non-zero, default "
            "disposition, exits 1 s later, ignores SIGTERM, leaves a descendant holding the stdout pipe, had exited before); "
            "cmdProcess.abort/result/whenDone/markDone over a scripted operating system (every combination of reaction to "
            "SIGTERM x reaction to the forced close x killable or not x WaitDelay none / inside the first / inside the second "
            "wait, 1..3 abort calls); the real localProcess of runInProcess (returns at once / late / after the period / "
            "never); runTestCasesForServer over the scripted cmdProcess and over a localProcess with batches of 0..5; "
            "mode 5 (30 cases): the real runTestCasesForServer over the real runCommand around a child scripted in what it does "
            "with its STDIN - exits at once without reading (before / racing with / after the two writes of the request: the "
            "starter hands the process over at once or 1 s later), after 2 s during which the write is blocked, after reading "
            "4 / 100 / 65536 bytes, with exit status 0 and 3; closes its stdin and stays; keeps it open unread; reads all and "
            "says nothing; reads all and answers (control: all pass) - with a request of a few bytes and of 256 KiB (server "
            "credentials; far beyond the 64 KiB an OS pipe takes unread, so the write really blocks): returned within the "
            "patience, child gone (kill(pid,0)), passes, setup errors with exactly one outcome. "
            "mode 6 (20 cases): the real runTestCasesForServer over a REAL server process that gives up by itself - the real "
            "runCommand (cmdProcess.whenDone) around a child that answers the handshake and exits with status 0 / 3 after k of n "
            "requests (told so by SIGUSR1 inside the k-th sendRequest; the harness then waits for the context handed to the "
            "starter to be cancelled, at most 5 s), and the real runInProcess around a reference-server function that writes "
            "0..2 lines to its stderr and returns nil / an error at once, after reading the request, or after the handshake and k "
            "requests: returned, passes, setup errors, and the lines handed to the error printer once the stderr reader has "
            "seen the end of the stream. "
            "Compared: returned within 3 x (both waits) [a correct implementation needs <= 1/3 of that], class of the error "
            "(nil, exit status, signal, context.Canceled, gave up, deadline, own error), child gone at return (kill(pid,0)), "
            "forced closes, passes recorded. The three durations are regenerated from the compiled code into C11_Consts.v "
            "(gracefulShutdownPeriod; cmd.WaitDelay read from a started exec.Cmd) and abort_bounded_code is re-proved against "
            "them. c11.printer (32 cases): free-running goroutines print feedback lines through ONE real internal.NewPrinter "
            "(PrefixPrintf(test name, ...)) into a synchronous pipe that is the stderr the real runTestCasesForServer parses "
            "(the runner's error printer is the real one too); test names with %, %s, %d, %%, %v; a writer that sleeps while "
            "the mutex is held forces sync.Mutex into hand-off mode; compared: side-band record per case, passed-through "
            "lines as a sorted list (schedule-independent for an atomic printer: printer_feedback_attributed). c11.limit (41 "
            "cases): the scripted server announces a size in the windows around maxServerResponseSize / maxClientResponseSize "
            "(both regenerated into C11_Consts.v) and delivers a valid response of exactly that size or nothing; compared: "
            "outcome and count per case, returned, stdout read beyond the four prefix bytes. "
            "thorough: the same cases again under the race detector.")
    trusted_base = ("Coq 8.16.1 kernel (vm_compute used, native_compute not)", "extraction (ExtrOcamlBasic only) + ocaml/driver.ml",
                    "vlib generators/comparator, Go overlay harness (harness/C11): scripted process/client fakes, goroutine-dump "
                    "detection of 'parked in WaitGroup.Wait', known-flaky trie hit counters as setOutcome counters",
                    "modelled not verified: results.go (only the log of setOutcome / recordSideband calls), client_runner.go "
                    "(scripted interface; its exactly-once callback contract is C10), ReadDelimitedMessage (every read failure is "
                    "one 'bad response'; framing is C09); in c11.batch the package's fakeProcess stands in for the process "
                    "(whenDone runs synchronously); process.go is modelled as a timed state machine (C11_Proc.v) whose os/exec "
                    "part (Cancel = SIGTERM at cancellation; kill and pipe close WaitDelay later; Wait waits for the copy "
                    "goroutines) is written from the os/exec documentation and checked against the real thing only on the "
                    "children a test binary can play (no unkillable real process: that part runs over a scripted OS)",
                    "internal/printer.go is modelled as a lock-step machine (one step per write / lock operation); fmt's "
                    "formatting of the message is outside the model (a call is the pair prefix, formatted message)")
    assumptions = ("the client runner fires every registered callback exactly once and none for a request whose sendRequest "
                   "returned an error (C10); a callback not fired during the send loop fires while the function waits",
                   "stderr of the reference server is ASCII (strings.TrimSpace's Unicode classes are not modelled)",
                   "server death is noticed at the next loop iteration (true for fakeProcess; with real processes whenDone runs "
                   "on a goroutine, so notice may lag: the cases sent meanwhile are then answered by the client, not marked; "
                   "mode 6 of c11.proc waits inside sendRequest until the batch context is cancelled, 5 s at most, so the real "
                   "whenDone of cmdProcess / localProcess decides the observable)",
                   "when a reference client's feedback and a reference server's stderr line name the same case the map keeps "
                   "whichever recordSideband ran last (a race in the code); the generator never produces both for one name",
                   "on the early-return paths (write/read/certificate failure) the stderr reader is not awaited by the code; "
                   "side-band records are compared at the reader's quiescence")
    level_text = ("Machine-checked proof (Coq) for ALL batches x ALL fault scripts (server: start/write/close error, bad response, "
                  "missing certificate, exit after any number of sends; client: send error anywhere, any answer, any callback "
                  "timing): the function is a structurally recursive total function (no fuel); with distinct names and a client "
                  "reporting the names it was given every case has exactly one outcome at return and nothing else has one; cases "
                  "at or after the fault point are setup errors of the specified class, cases before it keep the verdict of their "
                  "own answer whatever the timing; no case is ever missing even if the client misreports names; no callback is "
                  "outstanding at return; abort is requested iff a process was started and the process ends exactly once; stderr "
                  "lines are attributed iff their text before the first ': ' is a batch name, every other non-blank line is passed "
                  "through verbatim in order. A server that exits with status 0 is as dead as one that crashes (run_batch does "
                  "not depend on the flavour). process.go: for EVERY child behaviour script and all durations with a WaitDelay, "
                  "abort();result() returns within the two waits of abort's goroutine, by then + WaitDelay the child is gone or "
                  "was sent SIGKILL (already at return, and gone if killable, with the code's durations); localProcess within one "
                  "period; the stop phase of runTestCasesForServer within max(both waits, 2 periods). Start phase over a real "
                  "OS process: for EVERY request size, pipe capacity, starter delay and child stdin script in which the child "
                  "takes the request or lets go of its stdin by EXITING (dead before the first byte, after k bytes, after any "
                  "delay), the write of the request returns (done or failed) and the function returns within that delay + the "
                  "response time-out + both waits, with process.go's plumbing as it is (start_fault_bounded_code); a plumbing "
                  "that closes the pipe on neither occasion never wakes the writer (unwoken_write_never). Glue: the printer "
                  "through which a reference server writes feedback (safePrinter.PrefixPrintf as a lock-step machine) emits, "
                  "for ALL programs and ALL schedules, whole lines 'prefix: message' of exactly the submitted calls, prefix "
                  "verbatim (printer_lines_atomic), so the stderr parser attributes every feedback line to the case it was "
                  "printed for and passes the others through whole (printer_feedback_attributed); the server's response is "
                  "read with the server's size limit, which is the smaller of the two regenerated limits: above it the start "
                  "fails at the prefix with a setup error for every case (limits_wired). The goroutine of runInProcess as a list of "
                  "actions: the line with the error an in-process server returned reaches the stderr reader iff it is printed "
                  "after the function returned and before the pipes are closed (inprocess_print_order); in process.go's order "
                  "the stream is the server's own output, then that line, then its end (inprocess_stream), and for EVERY batch "
                  "and fault script the line is handed to the error printer (inprocess_error_is_printed); whenDone calls its "
                  "action whatever the result, so a clean exit is noticed like any other (clean_exit_is_noticed). Model tied to "
                  "server_runner.go / process.go by an exhaustive fault-point differential run and real child processes.")
    level_note = ("Trusted: Coq kernel, extraction, OCaml driver, harness. Model-code correspondence is sampled (every fault "
                  "point and every callback timing vector for batches <= 5; ~130 process scripts), not proved. results.go, "
                  "client_runner.go and ReadDelimitedMessage are represented by their interfaces; termination of the Go "
                  "function rests on the client runner firing every callback (C10), on serverResponseTimeout (C09) and on "
                  "abort();result() returning (abort_bounded / local_bounded / batch_stop_bounded, for every child behaviour "
                  "script). Time is modelled in ms with exact event times; the differential run observes only the ORDER of "
                  "events more than a second apart and a 3x patience bound, never durations. KNOWN FINDING "
                  "request-write-unbounded (reported on every run, exit 0): a server command that closes its stdin unread and "
                  "stays alive while a write of the request is pending blocks the function for ever (not reachable through "
                  "Run(): its requests are a few KB, written right after cmd.Start); a child that keeps its stdin open without "
                  "reading a request larger than the pipe takes blocks the write in code and model alike and is outside "
                  "start_fault_bounded's hypothesis (lets_go); neither is generated beyond the two known-finding cases. "
                  "c11.printer observes records and passed-through lines only under the precondition that makes them "
                  "schedule-independent (clean calls, one line per case); detection of a non-atomic printer relies on the "
                  "Go mutex's hand-off mode (26 of 26 sleeping-writer cases under seed C11-18), not on a forced schedule. "
                  "runInProcess's goroutine and whenDone are modelled as an action list / a one-line function whose correspondence "
                  "to process.go is the 20 mode-6 cases per run (real OS child, real in-process function), not a proof; a server "
                  "that ends right after the handshake (k = 0) is not generated with real processes (the notice races the first "
                  "loop iteration).")
    technique = ("Coq proofs by induction over arbitrary fault scripts (permutation invariant of the outcome log), timed "
                 "state machine for process.go with constants regenerated from the code; differential model-vs-Go on scripted "
                 "fakes at every fault point and on real re-executed child processes run concurrently")

    # ------------------------------------------------------------------
    def nontrivial(self, case, res):
        try:
            r = core.parse_sx("(" + res + ")")[0]
        except Exception:
            return False
        if case[0] == "c11.limit":
            return isinstance(r, list) and len(r) == 3 and r[1] == 1
        if case[0] == "c11.printer":
            return isinstance(r, list) and len(r) >= 1 and all(isinstance(x, list) and len(x) == 2 for x in r) and \
                any(sb for sb in r[0][0]) and len(r[0][1]) >= 1
        if case[0] == "c11.proc" and case[1] == 5:
            return isinstance(r, list) and len(r) == 6 and r[0] == 1 and (r[4] + r[5] > 0 or case[3][9] == 0)
        if case[0] == "c11.proc" and case[1] == 6:
            return isinstance(r, list) and len(r) == 4 and r[0] == 1 and (r[2] > 0 or len(r[3]) > 0 or case[3][3] > case[3][4])
        if case[0] == "c11.proc":
            return isinstance(r, list) and len(r) == 5 and r[0] == 1 and (r[1] != 0 or r[3] != 0 or r[4] != 0 or r[2] == 0)
        if not isinstance(r, list) or len(r) < 8:
            return False
        kinds = {p[0] for p in r[0]}
        return len(kinds) >= 2 or len(r[7]) > 1 or any(p[2] for p in r[0]) or (len(kinds) == 1 and kinds != {1})

    def classify(self, case, g, m):
        """known finding request-write-unbounded: exactly the mode-5 scripts in which the child closes its stdin unread
        and stays alive while a write of the request is pending, the real function does not return and the model
        (with the plumbing bounded termination needs) does"""
        if case[0] != "c11.proc" or case[1] != 5:
            return None
        all_, answers, delay, reads, release, code, length, cap, sd, n = case[3]
        pending = (reads == 0 and delay <= sd) or length > reads + cap
        if all_ == 0 and release == 2 and pending and g == "(0 0 0 0 0 0)" and m == "(1 0 1 0 0 %d)" % n:
            return "request-write-unbounded"
        return None

    def describe(self, case, g, m):
        if case[0] == "c11.limit":
            return ("runTestCasesForServer over a server whose response announces %d bytes: outcomes / 'stdout read beyond "
                    "the 4 prefix bytes' differ from the model, in which the server's response is read with the SERVER "
                    "limit (maxServerResponseSize, regenerated; theorem limits_wired): above it the read fails at the prefix "
                    "and every case is a setup error, whatever follows" % case[1])
        if case[0] == "c11.printer":
            return ("feedback lines printed concurrently through the real internal.NewPrinter (PrefixPrintf(test name, ...)) "
                    "into the stderr that the real runTestCasesForServer parses: side-band records / passed-through lines "
                    "are not those of the submitted 'test name: message' lines (proved for every schedule of an atomic "
                    "printer: printer_lines_atomic, printer_feedback_attributed) - a line was split, merged, or its "
                    "test name was not copied verbatim")
        if case[0] == "c11.proc" and case[1] == 6:
            fl, when, code, k, n, own = case[3]
            who = ("a real server command (runCommand, cmdProcess.whenDone) that answers the handshake and exits with status %d "
                   "after %d of %d requests" % (code, k, n)) if fl == 0 else \
                  ("an in-process reference server (runInProcess) that writes %d lines to its stderr and returns %s %s"
                   % (own, "nil" if code == 0 else "an error",
                      ("at once", "after reading the request", "after the handshake and %d of %d requests" % (k, n))[when]))
            return ("runTestCasesForServer over %s: (in-time, passes, setup errors, lines handed to the error printer) differ "
                    "from the model: the cases after the server's end are setup errors whichever way it ended "
                    "(dead_server_either_flavour), and the error runInProcess prints for the server is written BEFORE the "
                    "pipes are closed, so it is passed through (inprocess_error_is_printed)" % who)
        if case[0] == "c11.proc" and case[1] == 5:
            try:
                r = core.parse_sx("(" + g + ")")[0]
                if isinstance(r, list) and len(r) == 6 and r[0] == 0:
                    return ("runTestCasesForServer over a real server command (runCommand) that exits / closes its stdin "
                            "before it has read the request did NOT return within 3 x the two waits of abort's goroutine: the "
                            "write of the ServerCompatRequest is never woken (property: the batch ends in bounded time with a "
                            "setup error for every case when the server cannot be started)")
            except Exception:
                pass
            return ("runTestCasesForServer over a real server command scripted in what it does with its stdin: in-time / "
                    "child gone / passes / setup errors differ from the proved model of the start phase")
        if case[0] == "c11.proc":
            what = ["a real OS child process under runCommand's cmdProcess", "cmdProcess over a scripted operating system",
                    "a real localProcess", "runTestCasesForServer over a scripted cmdProcess",
                    "runTestCasesForServer over a localProcess"][case[1]] if 0 <= case[1] <= 4 else "process"
            try:
                r = core.parse_sx("(" + g + ")")[0]
                if isinstance(r, list) and len(r) == 5 and r[0] == 0:
                    return ("%s: abort(); result() did NOT return within 3 x the two waits of abort's goroutine "
                            "(property: the batch ends in bounded time)" % what)
                mr = core.parse_sx("(" + m + ")")[0]
                if isinstance(r, list) and len(r) == 5 and r[2] == 0 and mr[2] == 1:
                    return ("%s: the process is still ALIVE when result() returns (property: the server is stopped "
                            "afterwards; proved: gone or sent SIGKILL by then)" % what)
            except Exception:
                pass
            return ("%s: stop behaviour (in-time, error class, child gone, forced closes, passes) differs from the proved "
                    "timed model of process.go" % what)
        try:
            r = core.parse_sx("(" + g + ")")[0]
            if isinstance(r, list) and len(r) >= 8:
                if r[1] == 0:
                    return "runTestCasesForServer did not return (hang) where the proved model terminates"
                if any(p[0] == 0 for p in r[0][:len(case[9])]):
                    return ("a case of the batch has NO outcome when runTestCasesForServer returns "
                            "(property: exactly one outcome per case whatever goes wrong)")
                if any(p[1] > 1 for p in r[0]):
                    return "an outcome was set more than once for a case (property: exactly one outcome per case)"
        except Exception:
            pass
        return "server batch: outcomes / stop request / side-band attribution differ from the proved model"

    # ------------------------------------------------------------------
    def generate(self, rng, tier):
        quick = tier == "quick"

        def rand_answers(n):
            return [rng.choice(ANSWERS) for _ in range(n)]

        def rand_delays(n):
            return [rng.choice([0, 0, 1, 2, 3, LATE]) for _ in range(n)]

        # (a) every fault point, batches of 0..5; a server that is gone after k sends in BOTH flavours
        #     (exit status 0 = result() nil, and an error)
        for n in range(0, 6):
            patterns = [(None, None), ([APASS] * n, [LATE] * n), (None, [n - 1 - i for i in range(n)]),
                        (rand_answers(n), rand_delays(n)), (rand_answers(n), rand_delays(n))]
            # before the loop
            pre = [dict(start=0), dict(wf=1), dict(wf=2), dict(wf=3), dict(resp=(10, 0)), dict(resp=(12, 0)), dict(resp=(12, 7)),
                   dict(resp=(13, 0)), dict(resp=(13, 11)), dict(resp=R_NOCERT, tls=1), dict(resp=R_ZERO, tls=1),
                   dict(resp=R_CERT, tls=1), dict(resp=R_ZERO), dict(resp=R_CERT)]
            pre += [dict(resp=(11, k)) for k in (range(FULL_LEN) if n == 2 else [1, 3, 4, 5, FULL_LEN - 1])]
            for kw in pre:
                for a, d in patterns[:2] if n != 2 else patterns[:4]:
                    for refsrv in (0, 1):
                        yield mk(cs(n, a, d), refsrv=refsrv, stderr=b"S/a: early\nplain", dead=rng.choice([-1, -1, 0, 1]),
                                 clean=rng.randrange(2), **kw)
            # in the loop
            for dead in [-1] + list(range(0, n + 1)):
                for senderr in [None] + list(range(n)):
                    for a, d in patterns:
                        for clean in ((0,) if dead < 0 else (0, 1)):
                            yield mk(cs(n, a, d, senderr), dead=dead, refsrv=rng.randrange(2), refcli=rng.randrange(2),
                                     stderr=b"T/c: x\n", tls=rng.randrange(2), resp=R_CERT, clean=clean)

        # (b) every timing vector for n <= 3 x every loop fault point; every answer pair for n = 2
        keep = {1: 1.0, 2: 1.0, 3: 1.0, 4: 1.0, 5: 1.0}
        for n in (1, 2, 3, 4, 5):
            for delays in itertools.product([0, 1, 2, LATE], repeat=n):
                for dead in [-1] + list(range(0, n + 1)):
                    for senderr in [None] + list(range(n)):
                        if rng.random() < keep[n]:
                            yield mk(cs(n, [ANSWERS[(i + dead) % 6] for i in range(n)], list(delays), senderr), dead=dead,
                                     clean=rng.randrange(2))
        for a in itertools.product(ANSWERS, repeat=2):
            for delays in itertools.product([0, 1, LATE], repeat=2):
                yield mk(cs(2, list(a), list(delays)), refcli=1, tls=1, resp=R_CERT)
                yield mk(cs(2, list(a), list(delays), rng.choice([None, 0, 1])), dead=rng.choice([-1, 0, 1, 2]), clean=rng.randrange(2))

        # (c) stderr streams (reference server), full path, 2 cases S/a S/b (+ T/c)
        def stream(lines, eol, terminated):
            s = eol.join(lines)
            return s + (eol if terminated and lines else b"")

        for k in (1, 2):
            for shapes in itertools.product(LINE_SHAPES, repeat=k):
                if k == 2 and quick and rng.random() < 0.5:
                    continue
                eol = rng.choice([b"\n", b"\n", b"\r\n"])
                term = rng.random() < 0.5
                chunk = rng.choice([1, 2, 3, 5, 7, 64, 4096])
                s = stream(list(shapes), eol, term)
                if rng.random() < 0.5:
                    yield mk(cs(3), refsrv=1, stderr=s, chunk=chunk)
                else:
                    # no marker: the function itself must wait for the reader (full path only)
                    yield mk(cs(3), refsrv=1, stderr=s, chunk=chunk, wait=b"")
        for _ in range(1500 if quick else 8000):
            ls = [rng.choice(LINE_SHAPES) for _ in range(rng.randint(0, 8))]
            s = stream(ls, rng.choice([b"\n", b"\r\n"]), rng.random() < 0.5)
            yield mk(cs(rng.randint(0, 4)), refsrv=1, stderr=s, chunk=rng.choice([1, 2, 3, 5, 7, 64, 4096]),
                     wait=rng.choice([None, b""]), dead=rng.choice([-1, -1, 1, 2]))
        for _ in range(600 if quick else 4000):
            s = bytes(rng.choice(b"S/ab: \n\r\tTc:  x") for _ in range(rng.randint(0, 40)))
            yield mk(cs(3), refsrv=1, stderr=s, chunk=rng.choice([1, 3, 4096]), wait=rng.choice([None, b""]))
        # names that contain ": ", that are prefixes of each other, empty
        pct = ["Pct/100%", "Pct/%s done", "Pct/50%d", "Pct/%%", "Pct/%v", "Pct/%"]
        for s in [b"Pct/100%: m\n", b"Pct/%s done: got %d\nPct/%%: x\n", b"Pct/50%d: a: b\r\nPct/%: \n", b"Pct/%: z\nPct/%v : y\nPct/%!: no\n"]:
            yield mk(cs(6, names=pct), refsrv=1, stderr=s, chunk=rng.choice([1, 3, 4096]))
        odd = ["A: b", "A", "A: b: c", "", " lead", "trail "]
        for s in [b"A: b: c: d\n", b"A: b\n", b": x\n", b"A: b: c\n", b"lead: x\n", b"trail : y\n", b" lead: z\n"]:
            yield mk(cs(6, names=odd), refsrv=1, stderr=s)

        # (d) random larger batches
        for _ in range(4000 if quick else 25000):
            n = rng.randint(5, 12)
            names = rng.sample(NAMES, n)
            if rng.random() < 0.1:
                names[rng.randrange(n)] = names[rng.randrange(n)]          # duplicate name
            reports = list(names)
            if rng.random() < 0.15:
                reports[rng.randrange(n)] = rng.choice(NAMES + ["other/name"])  # client misreports
            refsrv, refcli = rng.randrange(2), rng.randrange(2)
            ans = rand_answers(n)
            fb_names = set()
            feedback = []
            for i in range(n):
                if refcli and rng.random() < 0.3:
                    feedback.append([rng.choice(["fb1", "fb two", "x: y"]) for _ in range(rng.randint(1, 2))])
                    fb_names.add(reports[i])
                else:
                    feedback.append([])
            free = [nm for nm in names if nm not in fb_names] or ["none/at/all"]
            lines = []
            for _ in range(rng.randint(0, 5)):
                lines.append((rng.choice(free) + ": " + rng.choice(["bad header", "m: n", ""])).encode()
                             if rng.random() < 0.6 else rng.choice(LINE_SHAPES[3:5] + LINE_SHAPES[7:9]))
            kw = {}
            r = rng.random()
            if r < 0.06:
                kw = rng.choice([dict(start=0), dict(wf=rng.choice([1, 2, 3])), dict(resp=(rng.choice([10, 11, 12, 13]), rng.randrange(36))),
                                 dict(resp=R_NOCERT, tls=1)])
            elif r < 0.5:
                kw = dict(tls=1, resp=R_CERT)
            yield mk(cs(n, ans, rand_delays(n), rng.choice([None] * 3 + list(range(n))), names, feedback, reports),
                     refsrv=refsrv, refcli=refcli, dead=rng.choice([-1] * 3 + list(range(n + 1))), clean=rng.randrange(2),
                     stderr=b"\n".join(lines), chunk=rng.choice([1, 7, 4096]), **kw)

        # (e) the server never answers (serverResponseTimeout = 10 s each)
        for i in range(1 if quick else 3):
            yield mk(cs(2 + i, None, [LATE] * (2 + i)), resp=(14, 0), refsrv=i % 2)

        # (f) process.go: stopping the server process (real children, scripted OS, in-process); seconds each, all
        #     started together by the harness when the run begins, so they cost the longest of them (10 s)
        yield from proc_cases(rng)
        # (g) the start phase over real children that exit / close their stdin before, while or after the request is written
        yield from start_cases(tier)
        # (g') a real server process that gives up by itself mid-batch: OS child (status 0 / non-zero), in-process (nil / error)
        yield from live_cases(rng, tier)
        # (h) glue: which size limit the response read gets; the real printer in front of the real stderr parser
        yield from limit_cases(rng, tier)
        yield from printer_cases(rng, tier)

    # ------------------------------------------------------------------
    def durations(self):
        """the durations TestVerifConsts found in the compiled code (C11_Consts.v of this run)"""
        import re
        txt = open(os.path.join(core.COQ, "theories", "C11_Consts.v")).read()
        return {k: int(v) for k, v in re.findall(r"Definition c11_(\w+)_ms : N := (\d+)%N", txt)}

    def extra(self, ctx):
        vs = []
        # abort_bounded_code is proved for the durations of the compiled code; when it cannot be (the Coq build then fails
        # in C11_ProcProofs.v), say why in terms of the code and give the child that shows it
        d = self.durations()
        if d and not (0 < d.get("wait_delay", 0) <= d.get("grace", 0) + d.get("grace2", 0)):
            case = proc(0, 1, tmode=2, killable=1)
            (g,), (m,) = ctx.eval_both([case], "waitdelay")
            vs.append(core.Violation(
                "process.go: runCommand sets cmd.WaitDelay = %d ms (abort's goroutine waits %d + %d ms): os/exec never kills "
                "a server that ignores SIGTERM before result() gives up; abort_bounded_code (child gone or sent SIGKILL when "
                "result() returns) is not provable for these durations" % (d.get("wait_delay", 0), d.get("grace", 0), d.get("grace2", 0)),
                "; C11: the server process is not stopped: a real child that ignores SIGTERM, result (in-time class gone forced "
                "passes), gone = 0 means kill(pid, 0) still finds it after abort(); result()\n; impl : %s\n; model: %s (the model "
                "follows the code's WaitDelay; the THEOREM abort_bounded_code fails)\n; replay: ./check C11 --replay <this file>\n%s\n"
                % (g, m, core.sx([case[0], 0] + list(case[1:])))))
        if ctx.tier == "quick":
            return vs
        # thorough: the same cases under the race detector; results must equal the plain run's
        cases = os.path.join(ctx.work, "main.cc.cases")
        plain = os.path.join(ctx.work, "main.cc.go.out")
        if not os.path.exists(cases):
            return vs
        binp = core.go_test_bin(self, self.packages["cc"], race=True)
        out = os.path.join(ctx.work, "race.go.out")
        if os.path.exists(out):
            os.remove(out)
        rc, log, dt = core.run_cmd([binp, "-test.run", "^TestVerifEval$", "-test.count=1", "-test.timeout", "3000s"],
                                   cwd=os.path.join(core.REPO, self.packages["cc"]), timeout=3100, check=False,
                                   extra_env={"VERIF_CASES": cases, "VERIF_OUT": out, "GORACE": "halt_on_error=0"})
        ctx.notes["t_race_s"] = round(dt, 2)
        if "DATA RACE" in log:
            i = log.index("DATA RACE")
            vs.append(core.Violation("data race reported by the race detector in runTestCasesForServer run",
                                     "; C11 (go test -race): data race\n; %s\n" % log[max(0, i - 200):i + 3000].replace("\n", "\n; "),
                                     "no-failing-input-found"))
        elif rc != 0 or not os.path.exists(out):
            raise core.HarnessError("race run failed (rc=%d):\n%s" % (rc, log[-4000:]))
        else:
            a, b = core.read_results(plain), core.read_results(out)
            diff = [k for k in a if a[k] != b.get(k)]
            ctx.notes["race_run"] = "%d cases, %d differ from the plain run" % (len(b), len(diff))
            if diff:
                vs.append(core.Violation("results under the race detector differ from the plain run (schedule-dependent outcome), case ids %s"
                                         % diff[:5], "; C11: race-build results differ for case ids %s\n" % diff[:20], "no-failing-input-found"))
        return vs


PROP = C11()
