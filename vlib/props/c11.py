"""C11 — a server batch always yields exactly one outcome per case and terminates."""
import itertools
import os

from .. import core
from ..core import Prop

NAMES = ["S/a", "S/b", "T/c", "T/d", "U/e e", "U/f", "V/g/h", "V/g", "W", "X/i:1", "X/j", "Y/k", "Y/l", "Z/m"]
SENT = b"<<verif-c11-end>>"
LATE = 99                      # a delay no batch reaches: the callback fires while the function waits
APASS, AFAIL, ACLIENTERR, ANEITHER, ACBERR, ANORESULT = range(6)
ANSWERS = [APASS, AFAIL, ACLIENTERR, ANEITHER, ACBERR, ANORESULT]
# (code, param): valid+cert, valid without cert, valid zero-length; empty, cut, oversize, garbage
R_CERT, R_NOCERT, R_ZERO = (0, 0), (1, 0), (2, 0)
FULL_LEN = 37                  # length of the harness's full response (prefix + body); cuts are taken mod len


def mk(cases, refsrv=0, refcli=0, tls=0, start=1, wf=0, resp=R_NOCERT, dead=-1, stderr=b"", chunk=4096, wait=None):
    """assemble a case; `wait`: None = decide here (marker appended whenever the stderr reader exists)"""
    if wait is None:
        if refsrv and start:
            stderr = stderr + b"\n" + SENT + b"\n"      # the marker is a complete line: nothing hangs if an
            wait = SENT                                   # unterminated last line were dropped
        else:
            wait = b""
    return ["c11.batch", [refsrv, refcli, tls], start, wf, list(resp), dead, bytes(stderr), chunk, bytes(wait),
            [list(c) for c in cases]]


def cs(n, answers=None, delays=None, senderr=None, names=None, feedback=None, reports=None):
    names = names or NAMES
    out = []
    for i in range(n):
        nm = names[i]
        out.append([nm, 0 if senderr == i else 1, (answers[i] if answers else APASS), (delays[i] if delays else 0),
                    (reports[i] if reports else nm), (feedback[i] if feedback else [])])
    return out


LINE_SHAPES = [b"S/a: m1", b"S/b: m2", b"S/a: again", b"Q/zz: not in the batch", b"no colon here", b"S/a:nospace",
               b"  S/a: padded  ", b"", b"   ", b"S/a: ", b"S/a:  two spaces", b": S/a", b"S/a: x: y", b"T/c: S/a: nested",
               b"\tS/b: tab\r", b"S/a", b"S/a :m", b"s/a: case", b"S/a: \x0b", b"\x0cS/b: ff"]


class C11(Prop):
    id = "C11"
    props = "C11_Props"
    coq_files = ("Base", "C11_Model", "C11_Spec", "C11_Proofs", "C11_Props")
    models = ("C11_Model",)
    packages = {"cc": "internal/app/connectconformance"}
    kinds = {"c11.batch": "cc"}
    go_timeout = 1500
    rule = ("c11.batch drives the real runTestCasesForServer with a scripted server process and a scripted clientRunner. "
            "EVERY fault point for batches of 0..4 cases: start error; stdin write error at either write, close error; response empty, "
            "cut at every byte, oversize, garbage, zero-length, with/without certificate x TLS on/off; server exit after k sends "
            "(k=0..n) x sendRequest error at position p (none, 0..n-1), each with synchronous, all-late, staggered and random "
            "answer timings; every timing vector over {own send, +1, +2, late} for n<=3 x every loop fault point; every answer "
            "pair for n=2; stderr streams: every sequence of <=2 line shapes (20 shapes: valid, unknown name, no colon, no space, "
            "padded, blank, nested ': ', case-changed, control characters) x LF/CRLF x terminated/unterminated x read sizes, random "
            "longer streams and random bytes; random batches of 5..12 cases with every fault kind, misreported names, duplicate "
            "names, reference-client feedback. One 'never answers' case (10 s) in quick, more in thorough. "
            "Compared at the moment the function returns: outcome kind per name (missing/pass/failed/setup/could-not-run/"
            "no-result/callback-error), number of outcomes set per name, returned, started, abort requested, process state, "
            "process-end transitions, names handed to the client; at quiescence of the stderr reader: side-band record per name, "
            "lines passed through. thorough: the same cases again under the race detector.")
    trusted_base = ("Coq 8.16.1 kernel (vm_compute used, native_compute not)", "extraction (ExtrOcamlBasic only) + ocaml/driver.ml",
                    "vlib generators/comparator, Go overlay harness (harness/C11): scripted process/client fakes, goroutine-dump "
                    "detection of 'parked in WaitGroup.Wait', known-flaky trie hit counters as setOutcome counters",
                    "modelled not verified: results.go (only the log of setOutcome / recordSideband calls), client_runner.go "
                    "(scripted interface; its exactly-once callback contract is C10), ReadDelimitedMessage (every read failure is "
                    "one 'bad response'; framing is C09), process.go's real processes (the package's fakeProcess stands in: "
                    "whenDone runs synchronously), context cancellation timing")
    assumptions = ("the client runner fires every registered callback exactly once and none for a request whose sendRequest "
                   "returned an error (C10); a callback not fired during the send loop fires while the function waits",
                   "stderr of the reference server is ASCII (strings.TrimSpace's Unicode classes are not modelled)",
                   "server death is noticed at the next loop iteration (true for fakeProcess; with real processes whenDone runs "
                   "on a goroutine, so notice may lag: the cases sent meanwhile are then answered by the client, not marked)",
                   "when a reference client's feedback and a reference server's stderr line name the same case the map keeps "
                   "whichever recordSideband ran last (a race in the code); the generator never produces both for one name",
                   "on the early-return paths (write/read/certificate failure) the stderr reader is not awaited by the code; "
                   "side-band records are compared at the reader's quiescence")
    level_text = ("Machine-checked proof (Coq) for ALL batches x ALL fault scripts (server: start/write/close error, bad response, "
                  "missing certificate, exit after any number of sends; client: send error anywhere, any answer, any callback "
                  "timing): the function is a structurally recursive total function (no fuel); with distinct names and a client "
                  "reporting the names it was given every case has exactly one outcome at return and nothing else has one; cases "
                  "at or after the fault point are setup errors of the specified class, cases before it keep the verdict of their "
                  "own answer whatever the timing; no case is ever missing even if the client misreports names; no callback is "
                  "outstanding at return; abort is requested iff a process was started and the process ends exactly once; stderr "
                  "lines are attributed iff their text before the first ': ' is a batch name, every other non-blank line is passed "
                  "through verbatim in order. Model tied to server_runner.go by an exhaustive fault-point differential run.")
    level_note = ("Trusted: Coq kernel, extraction, OCaml driver, harness. Model-code correspondence is sampled (every fault "
                  "point for batches <= 4), not proved. results.go, client_runner.go, process.go and ReadDelimitedMessage are "
                  "represented by their interfaces; termination of the Go function additionally rests on the client runner "
                  "firing every callback (C10) and on abort ending the process (process.go).")
    technique = ("Coq proofs by induction over arbitrary fault scripts (permutation invariant of the outcome log); "
                 "differential model-vs-Go on scripted fakes, every fault point")

    # ------------------------------------------------------------------
    def nontrivial(self, case, res):
        try:
            r = core.parse_sx("(" + res + ")")[0]
        except Exception:
            return False
        if not isinstance(r, list) or len(r) < 8:
            return False
        kinds = {p[0] for p in r[0]}
        return len(kinds) >= 2 or len(r[7]) > 1 or any(p[2] for p in r[0]) or (len(kinds) == 1 and kinds != {1})

    def describe(self, case, g, m):
        try:
            r = core.parse_sx("(" + g + ")")[0]
            if isinstance(r, list) and len(r) >= 8:
                if r[1] == 0:
                    return "runTestCasesForServer did not return (hang) where the proved model terminates"
                if any(p[0] == 0 for p in r[0][:len(case[9])]):
                    return ("a case of the batch has NO outcome when runTestCasesForServer returns "
                            "(property: exactly one outcome per case whatever goes wrong)")
                if any(p[1] > 1 for p in r[0]):
                    return "an outcome was set more than once for a case (property: exactly one outcome per case)"
        except Exception:
            pass
        return "server batch: outcomes / stop request / side-band attribution differ from the proved model"

    # ------------------------------------------------------------------
    def generate(self, rng, tier):
        quick = tier == "quick"

        def rand_answers(n):
            return [rng.choice(ANSWERS) for _ in range(n)]

        def rand_delays(n):
            return [rng.choice([0, 0, 1, 2, 3, LATE]) for _ in range(n)]

        # (a) every fault point, batches of 0..4
        for n in range(0, 5):
            patterns = [(None, None), ([APASS] * n, [LATE] * n), (None, [n - 1 - i for i in range(n)]),
                        (rand_answers(n), rand_delays(n)), (rand_answers(n), rand_delays(n))]
            # before the loop
            pre = [dict(start=0), dict(wf=1), dict(wf=2), dict(wf=3), dict(resp=(10, 0)), dict(resp=(12, 0)), dict(resp=(12, 7)),
                   dict(resp=(13, 0)), dict(resp=(13, 11)), dict(resp=R_NOCERT, tls=1), dict(resp=R_ZERO, tls=1),
                   dict(resp=R_CERT, tls=1), dict(resp=R_ZERO), dict(resp=R_CERT)]
            pre += [dict(resp=(11, k)) for k in (range(FULL_LEN) if n == 2 else [1, 3, 4, 5, FULL_LEN - 1])]
            for kw in pre:
                for a, d in patterns[:2] if n != 2 else patterns[:4]:
                    for refsrv in (0, 1):
                        yield mk(cs(n, a, d), refsrv=refsrv, stderr=b"S/a: early\nplain", dead=rng.choice([-1, -1, 0, 1]), **kw)
            # in the loop
            for dead in [-1] + list(range(0, n + 1)):
                for senderr in [None] + list(range(n)):
                    for a, d in patterns:
                        yield mk(cs(n, a, d, senderr), dead=dead, refsrv=rng.randrange(2), refcli=rng.randrange(2),
                                 stderr=b"T/c: x\n", tls=rng.randrange(2), resp=R_CERT)

        # (b) every timing vector for n <= 3 x every loop fault point; every answer pair for n = 2
        for n in (1, 2, 3):
            for delays in itertools.product([0, 1, 2, LATE], repeat=n):
                for dead in [-1] + list(range(0, n + 1)):
                    for senderr in [None] + list(range(n)):
                        if not quick or n < 3 or rng.random() < 0.5:
                            yield mk(cs(n, [ANSWERS[(i + dead) % 6] for i in range(n)], list(delays), senderr), dead=dead)
        for a in itertools.product(ANSWERS, repeat=2):
            for delays in itertools.product([0, 1, LATE], repeat=2):
                yield mk(cs(2, list(a), list(delays)), refcli=1, tls=1, resp=R_CERT)
                yield mk(cs(2, list(a), list(delays), rng.choice([None, 0, 1])), dead=rng.choice([-1, 0, 1, 2]))

        # (c) stderr streams (reference server), full path, 2 cases S/a S/b (+ T/c)
        def stream(lines, eol, terminated):
            s = eol.join(lines)
            return s + (eol if terminated and lines else b"")

        for k in (1, 2):
            for shapes in itertools.product(LINE_SHAPES, repeat=k):
                if k == 2 and quick and rng.random() < 0.5:
                    continue
                eol = rng.choice([b"\n", b"\n", b"\r\n"])
                term = rng.random() < 0.5
                chunk = rng.choice([1, 2, 3, 5, 7, 64, 4096])
                s = stream(list(shapes), eol, term)
                if rng.random() < 0.5:
                    yield mk(cs(3), refsrv=1, stderr=s, chunk=chunk)
                else:
                    # no marker: the function itself must wait for the reader (full path only)
                    yield mk(cs(3), refsrv=1, stderr=s, chunk=chunk, wait=b"")
        for _ in range(1500 if quick else 8000):
            ls = [rng.choice(LINE_SHAPES) for _ in range(rng.randint(0, 8))]
            s = stream(ls, rng.choice([b"\n", b"\r\n"]), rng.random() < 0.5)
            yield mk(cs(rng.randint(0, 4)), refsrv=1, stderr=s, chunk=rng.choice([1, 2, 3, 5, 7, 64, 4096]),
                     wait=rng.choice([None, b""]), dead=rng.choice([-1, -1, 1, 2]))
        for _ in range(600 if quick else 4000):
            s = bytes(rng.choice(b"S/ab: \n\r\tTc:  x") for _ in range(rng.randint(0, 40)))
            yield mk(cs(3), refsrv=1, stderr=s, chunk=rng.choice([1, 3, 4096]), wait=rng.choice([None, b""]))
        # names that contain ": ", that are prefixes of each other, empty
        odd = ["A: b", "A", "A: b: c", "", " lead", "trail "]
        for s in [b"A: b: c: d\n", b"A: b\n", b": x\n", b"A: b: c\n", b"lead: x\n", b"trail : y\n", b" lead: z\n"]:
            yield mk(cs(6, names=odd), refsrv=1, stderr=s)

        # (d) random larger batches
        for _ in range(4000 if quick else 25000):
            n = rng.randint(5, 12)
            names = rng.sample(NAMES, n)
            if rng.random() < 0.1:
                names[rng.randrange(n)] = names[rng.randrange(n)]          # duplicate name
            reports = list(names)
            if rng.random() < 0.15:
                reports[rng.randrange(n)] = rng.choice(NAMES + ["other/name"])  # client misreports
            refsrv, refcli = rng.randrange(2), rng.randrange(2)
            ans = rand_answers(n)
            fb_names = set()
            feedback = []
            for i in range(n):
                if refcli and rng.random() < 0.3:
                    feedback.append([rng.choice(["fb1", "fb two", "x: y"]) for _ in range(rng.randint(1, 2))])
                    fb_names.add(reports[i])
                else:
                    feedback.append([])
            free = [nm for nm in names if nm not in fb_names] or ["none/at/all"]
            lines = []
            for _ in range(rng.randint(0, 5)):
                lines.append((rng.choice(free) + ": " + rng.choice(["bad header", "m: n", ""])).encode()
                             if rng.random() < 0.6 else rng.choice(LINE_SHAPES[3:5] + LINE_SHAPES[7:9]))
            kw = {}
            r = rng.random()
            if r < 0.06:
                kw = rng.choice([dict(start=0), dict(wf=rng.choice([1, 2, 3])), dict(resp=(rng.choice([10, 11, 12, 13]), rng.randrange(36))),
                                 dict(resp=R_NOCERT, tls=1)])
            elif r < 0.5:
                kw = dict(tls=1, resp=R_CERT)
            yield mk(cs(n, ans, rand_delays(n), rng.choice([None] * 3 + list(range(n))), names, feedback, reports),
                     refsrv=refsrv, refcli=refcli, dead=rng.choice([-1] * 3 + list(range(n + 1))),
                     stderr=b"\n".join(lines), chunk=rng.choice([1, 7, 4096]), **kw)

        # (e) the server never answers (serverResponseTimeout = 10 s each)
        for i in range(1 if quick else 3):
            yield mk(cs(2 + i, None, [LATE] * (2 + i)), resp=(14, 0), refsrv=i % 2)

    # ------------------------------------------------------------------
    def extra(self, ctx):
        if ctx.tier == "quick":
            return []
        # thorough: the same cases under the race detector; results must equal the plain run's
        cases = os.path.join(ctx.work, "main.cc.cases")
        plain = os.path.join(ctx.work, "main.cc.go.out")
        if not os.path.exists(cases):
            return []
        binp = core.go_test_bin(self, self.packages["cc"], race=True)
        out = os.path.join(ctx.work, "race.go.out")
        if os.path.exists(out):
            os.remove(out)
        rc, log, dt = core.run_cmd([binp, "-test.run", "^TestVerifEval$", "-test.count=1", "-test.timeout", "3000s"],
                                   cwd=os.path.join(core.REPO, self.packages["cc"]), timeout=3100, check=False,
                                   extra_env={"VERIF_CASES": cases, "VERIF_OUT": out, "GORACE": "halt_on_error=0"})
        ctx.notes["t_race_s"] = round(dt, 2)
        vs = []
        if "DATA RACE" in log:
            i = log.index("DATA RACE")
            vs.append(core.Violation("data race reported by the race detector in runTestCasesForServer run",
                                     "; C11 (go test -race): data race\n; %s\n" % log[max(0, i - 200):i + 3000].replace("\n", "\n; "),
                                     "no-failing-input-found"))
        elif rc != 0 or not os.path.exists(out):
            raise core.HarnessError("race run failed (rc=%d):\n%s" % (rc, log[-4000:]))
        else:
            a, b = core.read_results(plain), core.read_results(out)
            diff = [k for k in a if a[k] != b.get(k)]
            ctx.notes["race_run"] = "%d cases, %d differ from the plain run" % (len(b), len(diff))
            if diff:
                vs.append(core.Violation("results under the race detector differ from the plain run (schedule-dependent outcome), case ids %s"
                                         % diff[:5], "; C11: race-build results differ for case ids %s\n" % diff[:20], "no-failing-input-found"))
        return vs


PROP = C11()
