"""C01 — the reference implementations pass every embedded test permutation; the shipped
known-failing lists stay exact.

Quick tier: besides the gRPC-peer runs and the reduced sub-matrix of the reference pair, "slices" of the SHIPPED
reference configuration are run with --run row patterns chosen by a covering-array computation (`_cover`), so that
every axis value, every (suite x axis value) and every per-suite (axis value x axis value) pair of the full matrix is
executed; every run is judged against the oracle evaluated for its configuration and its --run / --skip patterns.

The property is about a FINITE set of executions of the real binaries.  The Coq development gives the
oracle (which names a run must send, which of them the known-failing list marks, what success means);
`extra()` builds the five binaries from the working tree, runs the runner exactly as the Makefile's
`runconformance` does and compares every run with the oracle evaluated on the REAL embedded suites and
the REAL shipped configuration / known-failing files (dumped through the repository's own loaders)."""
import collections
import concurrent.futures
import itertools
import json
import math
import os
import re
import subprocess
import threading
import time

from .. import core
from ..core import Prop

# ---------------------------------------------------------------------------
# encodings shared with harness/C06 and harness/C07 (decoded by C06_Model.un_config / C07_Model.un_suite)
# ---------------------------------------------------------------------------


def features(v=(), p=(), c=(), z=(), st=(), h2c=0, tls=0, certs=0, trailers=0, half1=0, get=0, limit=0):
    return [list(v), list(p), list(c), list(z), list(st), h2c, tls, certs, trailers, half1, get, limit]


def entry(v=0, p=0, c=0, z=0, st=0, tls=0, certs=0, limit=0):
    return [v, p, c, z, st, tls, certs, limit]


def tcase(name="t", stream=1, service="", method="", rawreq=False, rawresp=False):
    return [name, stream, service, method, rawreq, rawresp, 0]


def suite(name="S", mode=0, p=(), v=(), c=(), z=(), cvm=0, tls=False, certs=False, get=False, limit=False, tcs=None):
    return [name, mode, list(p), list(v), list(c), list(z), cvm, tls, certs, get, limit,
            [list(t) for t in (tcs if tcs is not None else [tcase()])]]


# the feature blocks of the shipped configurations (flags: 0 absent, 1 false, 2 true)
F_GRPC = features(v=[2], p=[2], c=[1], tls=1)
F_GRPC_WEB = features(v=[1, 2], p=[3], c=[1], tls=1)
F_REDUCED = features(v=[1, 2], p=[1, 2, 3], c=[1, 2], z=[1, 2], tls=1, half1=2)
F_SMALL = features(v=[2], p=[1, 2], c=[1], z=[1], tls=1)

REDUCED_CONFIG = """# C01 quick tier: the reference configuration reduced to HTTP/1.1 + h2c, no TLS, identity + gzip
features:
  versions:
    - HTTP_VERSION_1
    - HTTP_VERSION_2
  protocols:
    - PROTOCOL_CONNECT
    - PROTOCOL_GRPC
    - PROTOCOL_GRPC_WEB
  codecs:
    - CODEC_PROTO
    - CODEC_JSON
  compressions:
    - COMPRESSION_IDENTITY
    - COMPRESSION_GZIP
  supportsTls: false
  supportsHalfDuplexBidiOverHttp1: true
"""

# (run name, client is reference, server is reference, config file, known-failing file, peer binary)
RUNS = [
    ("referenceserver", 1, 0, "reference-impls-config.yaml", "referenceserver-known-failing.txt", "referenceserver"),
    ("referenceclient", 0, 1, "reference-impls-config.yaml", "referenceclient-known-failing.txt", "referenceclient"),
    ("grpcserver", 1, 0, "grpc-impls-config.yaml", "grpcserver-known-failing.txt", "grpcserver"),
    ("grpcserver-web", 1, 0, "grpc-web-server-impl-config.yaml", "grpcserver-web-known-failing.txt", "grpcserver"),
    ("grpcclient", 0, 1, "grpc-impls-config.yaml", "grpcclient-known-failing.txt", "grpcclient"),
]
BINARIES = ["connectconformance", "referenceserver", "referenceclient", "grpcserver", "grpcclient"]

# the axes of the matrix the property names, as read off each request (tls: 0 none, 1 TLS, 2 TLS + client certificates)
AXES = ("version", "protocol", "codec", "compression", "tls", "stream")
AXIS_NAMES = {
    "version": {1: "HTTP_VERSION_1", 2: "HTTP_VERSION_2", 3: "HTTP_VERSION_3"},
    "protocol": {1: "PROTOCOL_CONNECT", 2: "PROTOCOL_GRPC", 3: "PROTOCOL_GRPC_WEB"},
    "codec": {1: "CODEC_PROTO", 2: "CODEC_JSON"},
    "compression": {1: "COMPRESSION_IDENTITY", 2: "COMPRESSION_GZIP", 3: "COMPRESSION_BR", 4: "COMPRESSION_ZSTD",
                    5: "COMPRESSION_DEFLATE", 6: "COMPRESSION_SNAPPY"},
    "tls": {0: "no TLS", 1: "TLS", 2: "TLS + client certificates"},
    "stream": {1: "unary", 2: "client stream", 3: "server stream", 4: "half-duplex bidi stream", 5: "full-duplex bidi stream"},
}
CFG_PARTS = ("HTTPVersion:", "Protocol:", "Codec:", "Compression:", "TLS:")
SLICE_TARGET_S = 25.0     # estimated duration of one slice process
SLICE_MAX_PROCS = 4       # per mode

SEND_RE = re.compile(r'^Sending request for (".*")\.\.\.$')
RECV_RE = re.compile(r'^Received response for (".*")\.\.\.$')
INFO_RE = re.compile(r"^INFO: (.*) failed \(as expected\):$")
FAILED_RE = re.compile(r"^FAILED: (.*?)(?::| was expected to fail but did not)$")
TOTAL_RE = re.compile(r"^Total cases: (\d+)$")
PASSED_RE = re.compile(r"^(\d+) passed, (\d+) failed$")


def unquote(q):
    try:
        return json.loads(q)
    except ValueError:
        return q[1:-1]


class C01(Prop):
    id = "C01"
    props = "C01_Props"
    coq_files = ("Base", "C06_Model", "C06_Spec", "C06_Proofs", "C07_Consts", "C07_Model", "C07_Spec", "C07_Proofs",
                 "C08_Model", "C08_Spec", "C08_Proofs", "C04_Model", "C04_Spec", "C04_Proofs",
                 "C01_Model", "C01_Spec", "C01_Proofs", "C01_Props")
    models = ("C01_Model",)
    packages = {"cc": "internal/app/connectconformance", "main": "cmd/connectconformance"}
    kinds = {"c01.run": "cc", "c01.real": "cc", "c01.patterns": "main"}
    go_timeout = 1800
    model_timeout = 2400
    rule = ("EXECUTION (extra): the five runs of the Makefile's runconformance that do not need npm (reference server, reference "
            "client, grpcserver, grpcserver with the gRPC-Web config, grpcclient) with the real binaries built from the working tree, "
            "`-v --vv --trace --known-failing @<shipped list>`; per run: exit status 0, `0 failed`, no FAILED line, no 'could not be run', "
            "multiset of 'Sending request for' names = the oracle's names (none dropped, none twice), every one answered, totals = |names|, "
            "INFO 'failed (as expected)' names = the oracle's marked set. thorough: the full shipped matrix. quick: the gRPC-peer runs in "
            "full; for the reference pair, in BOTH modes, (a) the reduced sub-matrix (HTTP/1.1 + h2c, 3 protocols, proto + json, identity + "
            "gzip, no TLS) of every suite except the two message-size suites (--skip), in full, plus (b) 4 'slice' processes per mode on the "
            "SHIPPED reference-impls-config.yaml restricted with --run '<suite>/<config case>/**' row patterns chosen by a greedy "
            "covering-array computation over (suite, HTTP version, protocol, codec, compression, TLS mode [none / TLS / TLS + client "
            "certificates], stream type) on the full matrix as the repository's own loaders announce it: together (a)+(b) execute every "
            "axis value, every (suite x axis value) and, inside every suite, every (axis value x axis value) pair that exists in the full "
            "matrix at least once (counted after the runs from the 'Sending request' lines: evidence axis_values_covered / "
            "pairs_covered; the check ERRORs if a pair is missing); about 150 + 210 rows, 3,500 + 4,800 distinct permutations of 12,998 + "
            "16,580. Every run, sliced or not, is judged against the oracle evaluated for ITS configuration and ITS --run / --skip "
            "patterns (predicted_slices). "
            "ORACLE vs CODE: c01.real = the extracted predicted_run / predicted_slices on the dump of the real embedded suites / shipped "
            "configs / shipped lists against parseConfig + newTestCaseLibrary + allPermutations + the client x server x instance loops "
            "with filterGRPCImplTestCases + newFilter/filter.apply + tryMatchPatterns on the real inputs (sorted sent names, marked names, "
            "library size, groups, |allPermutations|, filteredTestCount, patterns ok) - in the quick tier now also on the FULL shipped "
            "reference configuration (the slices); c01.run = the same plus newResults/setOutcome/report() with an outcome assignment, on "
            "generated configurations, suites, pattern lists (exact lists, listed-but-passing, unlisted-but-failing, unmatched and "
            "shadowed patterns, set-up / could-not-run outcomes, marker-like test names), 30% of them restricted with generated --run / "
            "--skip patterns (incl. patterns that match nothing); c01.patterns = argsToPatterns('@file') on the shipped lists and "
            "variants. non-trivial = a run was predicted")
    trusted_base = ("Coq 8.16.1 kernel (vm_compute only in Examples)", "extraction (ExtrOcamlBasic only) + ocaml/driver.ml",
                    "vlib/props/c01.py: process launching, parsing of the runner's printed lines (Sending/Received/INFO/FAILED/totals)",
                    "Go overlay harness harness/C01 (projection of the real suites/configs into the case encoding; copy of the client x "
                    "server x instance loop header of run())",
                    "the operating system, Go runtime and network stack the binaries run on")
    assumptions = ("predicted_names_spec: the configuration denotes declared protocols only (true of the shipped files: ex_grpc_config_declared)",
                   "lists_exact_iff: executed names pairwise distinct (decided by the oracle on every run: a prediction with repeated names "
                   "is refused as ambiguous-names) and every sent case gets an outcome (checked on every run: each Sending line has its "
                   "Received line and the totals add up)",
                   "timing: the runs are executed once per check on a loaded machine; a failure that needs a rare schedule can be missed")
    level_text = ("The property is decided by EXECUTION: every permutation of the space is run with the real binaries and the runner's own "
                  "verdict, totals and per-case lines are compared with a proved oracle. Machine-checked (Coq) about the oracle: the names it "
                  "predicts are exactly those the C06/C07 specifications describe, pairwise distinct, the batching of run() sends each exactly "
                  "once, and the runner's success verdict holds exactly when no pattern is unmatched, every listed permutation ran and failed "
                  "and every unlisted one passed (with an empty list: all passed); a run restricted with --run / --skip sends exactly the "
                  "expected permutations some run pattern globs and no skip pattern globs, announces that many, and succeeds exactly when "
                  "its pattern lists are well-formed against the whole space and every SENT permutation meets its listing. The oracle is "
                  "tied to the code on every check by evaluating "
                  "it against the real loaders on the real embedded corpus and shipped files. The verdicts themselves (pass/fail of each "
                  "permutation) come from execution, not from a theorem. Tiers: THOROUGH executes the full shipped matrix (12,998 "
                  "server-mode + 16,580 client-mode permutations of the reference pair + the three gRPC-peer runs). QUICK executes the three "
                  "gRPC-peer runs in full and, for the reference pair in each mode, (a) every permutation of the reduced sub-matrix HTTP/1.1 "
                  "+ h2c x 3 protocols x proto/json x identity/gzip without TLS of all suites except the two message-size suites, and (b) "
                  "about 150 (server mode) / 210 (client mode) rows (suite x config case, all their test cases) of the SHIPPED configuration, "
                  "chosen by a covering-array computation and run with --run, such that every value of HTTP version (1, 2, 3), protocol, "
                  "codec, compression (identity, gzip, br, zstd, deflate, snappy), TLS mode (none, TLS, TLS + client certificates) and stream "
                  "type, every (suite x axis value) pair and every (axis value x axis value) pair inside every suite that the full matrix "
                  "contains is executed at least once per mode (about 3,500 + 4,800 distinct permutations; the counts actually executed are "
                  "in the evidence: axis_values_covered, pairs_covered). Not executed by QUICK: the remaining ~3/4 of the matrix, i.e. "
                  "combinations of three or more axis values inside a suite beyond those pairs.")
    level_note = ("level=proof refers to the oracle theorems (obligations = C01_Props); pass/fail of the 12,998 + 16,580 + gRPC-peer permutations "
                  "is established by exhaustive execution in the thorough tier (exhaustive=true in the evidence). The QUICK tier "
                  "(exhaustive=false) executes: the three gRPC-peer runs in full (1,162 permutations); for the reference pair in each mode the "
                  "complete reduced sub-matrix (HTTP/1.1 + h2c x Connect / gRPC / gRPC-Web x proto / json x identity / gzip, no TLS) of all "
                  "suites but the two message-size suites, and rows of the full shipped matrix selected with --run so that EVERY value of "
                  "every axis the property names (HTTP version 1/2/3, protocol, codec, all six compressions, no TLS / TLS / TLS with client "
                  "certificates, the five stream types), every (suite x axis value) pair and, within every suite, every (axis value x axis "
                  "value) pair of the full matrix is executed at least once in each mode - about a quarter of the matrix (3,500 of 12,998 "
                  "server-mode, 4,800 of 16,580 client-mode permutations). What the quick tier does NOT execute: interactions of three or "
                  "more axis values inside one suite beyond those pairs (e.g. zstd x gRPC-Web x HTTP/3 in one suite may be covered only "
                  "pair by pair), and, outside the reduced sub-matrix, each selected row once rather than in every combination. Which values "
                  "/ pairs were executed is COUNTED from the runs and written to the evidence (axis_values_covered, pairs_covered, slices); a "
                  "missing pair is an ERROR of the check. Expected responses are not predicted by the model (C02's subject). The npm-built "
                  "testing/grpcwebclient is not available offline: the sixth Makefile run (grpc-web-client-impl-config) is not executed; its "
                  "configuration and list are not covered. One execution per check: timing-dependent flakiness is not explored.")
    technique = ("Coq oracle (composition of C06/C07/C08/C04 theorems) + exhaustive execution of the real binaries (thorough) / "
                 "reduced sub-matrix + covering-array slices of the shipped matrix (quick)")

    # ------------------------------------------------------------------
    def nontrivial(self, case, res):
        return res.startswith("(#6f6b") or (case[0] == "c01.patterns" and len(res) > 2)

    def describe(self, case, g, m):
        return ("run planning / verdict: parseConfig + newTestCaseLibrary + gRPC filter + pattern marking + report() differ from the "
                "proved oracle")

    # ------------------------------------------------------------------
    def _shipped(self, name):
        with open(os.path.join(core.REPO, "testing", name), "rb") as f:
            return f.read()

    def generate(self, rng, tier):
        # the shipped known-failing files (and what the command line makes of them), plus variants
        files = sorted(f for f in os.listdir(os.path.join(core.REPO, "testing")) if f.endswith("-known-failing.txt"))
        for f in files:
            d = self._shipped(f)
            yield ["c01.patterns", d]
            yield ["c01.patterns", d.replace(b"\n", b"\r\n")]
            yield ["c01.patterns", b"  " + d + b"\n# trailing comment"]
        yield ["c01.patterns", b""]

        tests = [tcase("unary/success", 1), tcase("unary/no-request", 1, rawreq=True), tcase("server-stream/ok", 3),
                 tcase("unary/multiple-responses", 1, rawresp=True), tcase("bidi/full", 5), tcase("client-stream/x", 2),
                 tcase("(grpc client impl)/unary/success", 1), tcase("(grpc server impl)/unary/success", 1), tcase("a/../t", 1)]
        feats = [F_GRPC, F_GRPC_WEB, F_SMALL, features(v=[1], p=[1, 3], c=[1], z=[1], tls=1),
                 features(v=[2], p=[2, 3], c=[1, 2], z=[1, 2], tls=1), features(v=[1, 2], p=[2], c=[1], tls=1),
                 features(v=[2], p=[1, 2, 3], c=[1], z=[1, 3], st=[1, 3], tls=1), features(v=[2], p=[2], c=[1], z=[1])]
        n = 1500 if tier == "quick" else 20000
        for i in range(n):
            fe = rng.choice(feats)
            inc, exc = [], []
            r = rng.random()
            if r < 0.1:
                exc = [entry(p=rng.choice([1, 2, 3]))]
            elif r < 0.2:
                inc = [entry(v=2, p=3, c=1, z=2, st=1)]
            elif r < 0.23:
                fe = features(v=[1], p=[2])          # rejected: gRPC needs HTTP/2
            ss = []
            names = rng.sample(["Basic", "Raw", "gRPC Trailers", "S"], rng.randint(1, 3))
            if rng.random() < 0.03:
                names.append(names[0])               # duplicate suite name: rejected
            for nm in names:
                tcs = rng.sample(tests[:6], rng.randint(1, 3))
                if rng.random() < 0.05:
                    tcs = tcs + [rng.choice(tests[6:])]
                mode = rng.choice([0, 0, 1, 2])
                ss.append(suite(nm, mode,
                                p=rng.choice([(), (), (), (), (2,), (2, 3), (1,)]), v=rng.choice([(), (), (), (2,), (1, 2)]),
                                c=rng.choice([(), (1,)]), z=rng.choice([(), (), (), (1,), (1, 2)]),
                                tls=rng.random() < 0.03, tcs=tcs))
            cl, sv = rng.choice([(1, 0), (1, 0), (0, 1), (0, 1), (1, 1), (0, 0)])
            run_mode = 1 if (sv and not cl) else 2 if (cl and not sv) else 0
            # a known-failing list and an outcome assignment; mostly coherent (the list is exact)
            simple = sorted({t[0] for s in ss if s[1] in (0, run_mode) for t in s[11] if t[1] in (1, 2, 3) or rng.random() < 0.3})
            listed = [t for t in simple if rng.random() < 0.3]
            ps = ["**/" + t for t in listed]
            outs = [["/" + t, rng.choice([1, 2])] for t in listed]
            r = rng.random()
            if r < 0.08 and simple:
                outs.append(["/" + rng.choice(simple), rng.choice([1, 2, 3, 4])])       # an unlisted case fails / is not run
            elif r < 0.16 and outs:
                outs.pop(rng.randrange(len(outs)))                                       # a listed case passes
            elif r < 0.22:
                ps.append(rng.choice(["**/zzz", "Nope/**", "**/unary"]))                  # a pattern that matches nothing
            elif r < 0.28 and listed:
                ps.append("**/*/" + listed[0].split("/")[-1])                             # shadowed by the more specific one
            elif r < 0.32 and outs:
                outs[0][1] = rng.choice([3, 4])                                          # listed, but set-up error / not run
            elif r < 0.36 and ss:
                ps.append(ss[0][0] + "/**")
            rng.shuffle(ps)
            if rng.random() < 0.3:
                # the same run restricted with --run / --skip (the form the quick tier's slices use)
                pool = [s[0] + "/**" for s in ss] + ["**/unary/*", "**/" + rng.choice(tests)[0], "**/(grpc client impl)/**",
                                                      "**/(grpc server impl)/**", "*/Compression:COMPRESSION_GZIP/**",
                                                      "**/TLS:false/**", "**/Protocol:PROTOCOL_GRPC/**", "Nope/**", "**"]
                rs = rng.sample(pool, rng.choice([0, 1, 1, 2, 3]))
                sk = rng.sample(pool[:-2], rng.choice([0, 0, 1, 2]))
                yield ["c01.run", cl, sv, fe, inc, exc, ss, ps, outs, rs, sk]
                continue
            yield ["c01.run", cl, sv, fe, inc, exc, ss, ps, outs]

    # ------------------------------------------------------------------
    # the quick tier's slices: which rows of the full shipped matrix are executed besides the reduced sub-matrix
    # ------------------------------------------------------------------
    def _universe(self, ctx, cfg_text):
        """{mode key: [(name, (version, protocol, codec, compression, tls mode, stream type))]} of the shipped reference
        configuration, from the repository's own loaders (TestVerifDump 'universe': axis values are read off the
        REQUEST each permutation would send, not off its name)."""
        din = os.path.join(ctx.work, "universe.in")
        dout = os.path.join(ctx.work, "universe.out")
        with open(din, "w") as f:
            f.write(core.sx(["universe", 0, "referenceserver", 1, 0, cfg_text]) + "\n")
            f.write(core.sx(["universe", 1, "referenceclient", 0, 1, cfg_text]) + "\n")
        core.run_go(ctx.bin("cc"), self.packages["cc"], din, dout, timeout=300, testname="TestVerifDump")
        uni = {"referenceserver": [], "referenceclient": []}
        for line in open(dout):
            t = core.parse_sx(line)
            r = t[2]
            tls = 2 if r[6] else 1 if r[5] else 0
            uni["referenceserver" if t[1] == 0 else "referenceclient"].append((r[0].decode(), (r[1], r[2], r[3], r[4], tls, r[7])))
        return uni

    @staticmethod
    def _row_prefix(name):
        parts = name.split("/")
        i = 1
        while i < len(parts) and parts[i].startswith(CFG_PARTS):
            i += 1
        return "/".join(parts[:i])

    @staticmethod
    def _targets(suite, tup):
        """what one executed permutation covers: (suite x axis value) and, within the suite, (axis value x axis value)"""
        t = {("sv", suite, a, v) for a, v in zip(AXES, tup)}
        for (i, a), (j, b) in itertools.combinations(list(enumerate(AXES)), 2):
            t.add(("svv", suite, a, tup[i], b, tup[j]))
            t.add(("vv", a, tup[i], b, tup[j]))
        return t

    def _rows(self, perms):
        """rows = (suite, version, protocol, codec, compression, tls mode): the unit a --run pattern '<prefix>/**' selects"""
        rows = {}
        for name, tup in perms:
            suite = name.split("/")[0]
            r = rows.setdefault((suite,) + tup[:5], {"prefix": self._row_prefix(name), "names": [], "targets": set()})
            if r["prefix"] != self._row_prefix(name):
                raise core.HarnessError("C01 slices: permutations of one row differ in their name prefix: %s / %s" % (r["prefix"], name))
            r["names"].append(name)
            r["targets"] |= self._targets(suite, tup)
        return rows

    @staticmethod
    def _expensive(suite):
        """the runner compares the 200 KB payloads of these suites at about 0.45 s per case: their rows are left out of the
        reduced sub-matrix run (--skip) and spread over the slice processes instead"""
        return "Message Size" in suite

    @classmethod
    def _in_reduced(cls, key):
        suite, v, p, c, z, t = key
        return v in (1, 2) and z in (1, 2) and t == 0 and not cls._expensive(suite)

    def _cover(self, rows):
        """greedy covering array: rows of the full matrix, outside the reduced sub-matrix, such that together with it every
        (suite x axis value) and, per suite, every (axis value x axis value) of the full matrix is executed at least once"""
        need = set()
        for r in rows.values():
            need |= r["targets"]
        total = set(need)
        for k, r in rows.items():
            if self._in_reduced(k):
                need -= r["targets"]
        cand = sorted(k for k in rows if not self._in_reduced(k))
        chosen = []
        while need:
            best = None
            for k in cand:
                g = len(rows[k]["targets"] & need)
                if g and (best is None or (g, -len(rows[k]["names"])) > best[0]):
                    best = ((g, -len(rows[k]["names"])), k)
            if best is None:
                raise core.HarnessError("C01 slices: %d coverage targets cannot be reached by any row" % len(need))
            chosen.append(best[1])
            need -= rows[best[1]]["targets"]
            cand.remove(best[1])
        return total, chosen

    @staticmethod
    def _pack(rows, chosen):
        """split the chosen rows over a few runner processes of similar estimated duration (the runner compares the 200 KB
        payloads of the message-size suites at about 0.45 s per case, everything else takes a few ms per case)"""
        cost = {k: len(rows[k]["names"]) * (0.45 if C01._expensive(k[0]) else 0.02) for k in chosen}
        n = max(1, min(SLICE_MAX_PROCS, int(math.ceil(sum(cost.values()) / SLICE_TARGET_S))))
        bins = [[0.0, []] for _ in range(n)]
        for k in sorted(chosen, key=lambda k: (-cost[k], k)):
            b = min(bins, key=lambda b: b[0])
            b[0] += cost[k]
            b[1].append(k)
        return [sorted(b[1]) for b in bins if b[1]]

    # ------------------------------------------------------------------
    # execution
    # ------------------------------------------------------------------
    def _plan(self, ctx):
        """[(run name, cl, sv, config path, config text, known-failing path, peer binary name,
             None | {"run": [patterns], "skip": [patterns]})]"""
        tdir = os.path.join(core.REPO, "testing")
        reduced = os.path.join(ctx.work, "reference-impls-reduced-config.yaml")
        with open(reduced, "w") as f:
            f.write(REDUCED_CONFIG)
        plan = []
        for name, cl, sv, cfg, kf, peer in RUNS:
            cfgp = os.path.join(tdir, cfg)
            if ctx.tier == "quick" and name.startswith("reference"):
                cfgp = reduced
            plan.append((name, cl, sv, cfgp, open(cfgp, "rb").read(), os.path.join(tdir, kf), peer, None))
        self._slices = {}
        if ctx.tier == "quick":
            # slices of the SHIPPED reference configuration, selected with --run
            cfgp = os.path.join(tdir, "reference-impls-config.yaml")
            cfg_text = open(cfgp, "rb").read()
            uni = self._universe(ctx, cfg_text)
            for name, cl, sv, cfg, kf, peer in RUNS[:2]:
                rows = self._rows(uni[name])
                total, chosen = self._cover(rows)
                parts = self._pack(rows, chosen)
                self._slices[name] = {"rows": rows, "targets": total, "chosen": chosen, "parts": parts,
                                      "tuple_of": dict(uni[name])}
                for i, part in enumerate(parts):
                    pats = [rows[k]["prefix"] + "/**" for k in part]
                    plan.append(("%s-slice%d" % (name, i + 1), cl, sv, cfgp, cfg_text, os.path.join(tdir, kf), peer,
                                 {"run": pats, "skip": []}))
                # the run on the reduced configuration leaves the expensive suites to the slices
                skip = sorted({k[0] + "/**" for k in rows if self._expensive(k[0]) and k[1] in (1, 2) and k[4] in (1, 2) and k[5] == 0})
                j = [r[0] for r in plan].index(name)
                plan[j] = plan[j][:7] + ({"run": [], "skip": skip},)
        return plan

    def _start(self, ctx, bins, run):
        name, cl, sv, cfgp, _, kfp, peer, sel = run
        rel = lambda p: "./" + os.path.relpath(p, core.REPO) if p.startswith(core.REPO + os.sep) else p
        cmd = [bins["connectconformance"], "-v", "--vv", "--conf", rel(cfgp), "--mode", "server" if cl else "client", "--trace",
               "--known-failing", "@" + rel(kfp)]
        for flag in ("run", "skip"):
            if sel and sel[flag]:
                pf = os.path.join(ctx.work, "run.%s.%s-patterns" % (name, flag))
                with open(pf, "w") as f:
                    f.write("\n".join(sel[flag]) + "\n")
                cmd += ["--" + flag, "@" + pf]
        cmd += ["--", bins[peer]]
        so = open(os.path.join(ctx.work, "run.%s.stdout" % name), "wb")
        se = open(os.path.join(ctx.work, "run.%s.stderr" % name), "wb")
        p = subprocess.Popen(cmd, cwd=core.REPO, env=core.env(), stdout=so, stderr=se, stdin=subprocess.DEVNULL)
        return {"run": run, "cmd": cmd, "proc": p, "t0": time.time(), "so": so, "se": se}

    def _violation(self, run, cmd, what, name=None, detail=""):
        rname, cl, sv, cfgp, _, kfp, peer = run[:7]
        replay = " ".join(cmd[:1] + ["-v", "--vv", "--trace", "--conf", cmd[cmd.index("--conf") + 1], "--mode", cmd[cmd.index("--mode") + 1],
                                     "--known-failing", cmd[cmd.index("--known-failing") + 1]]
                          + (["--run", "'%s'" % name] if name else []) + ["--"] + cmd[-1:])
        body = ("; C01 run=%s mode=%s config=%s known-failing=%s peer=%s\n; %s\n%s; replay (cwd = the repository): %s\n" % (
            rname, "server" if cl else "client", cfgp, kfp, peer, what,
            ("; permutation: %s\n" % name) if name else "", replay))
        if detail:
            body += "; " + detail.replace("\n", "\n; ") + "\n"
        return core.Violation("run %s: %s%s" % (rname, what, (" [%s]" % name) if name else ""), body,
                              "" if name else "no-failing-input-found")

    def _confirm_alone(self, ctx, st, names, attempts=3):
        """A permutation that failed while a dozen runner processes shared the machine is run again ALONE (same
        config, mode, peer), `attempts` times, one after the other, after every other run has ended.  Several
        embedded suites are timing assertions (Deadline Propagation: the echoed timeout must lie within 500 ms of
        the one sent; Timeouts; cancellation), which a starved scheduler can fail on a correct tree.  Returns the
        names that passed in every isolated attempt; a name that fails in any of them stays a failure."""
        cmd = st["cmd"]
        base = cmd[:cmd.index("--")]
        for flag in ("--run", "--skip"):
            while flag in base:
                i = base.index(flag)
                del base[i:i + 2]
        pf = os.path.join(ctx.work, "confirm.%s.patterns" % st["run"][0])
        with open(pf, "w") as f:
            f.write("\n".join(names) + "\n")
        still = set()
        for k in range(attempts):
            rc, log, _ = core.run_cmd(base + ["--run", "@" + pf] + cmd[cmd.index("--"):], cwd=core.REPO, timeout=600, check=False)
            bad = set()
            for line in log.split("\n"):
                m = FAILED_RE.match(line)
                if m:
                    bad.add(m.group(1))
            if rc != 0 and not bad:
                bad = set(names)          # the isolated run itself went wrong: nothing is recovered
            still |= bad
        return [n for n in names if n not in still]

    def _judge(self, ctx, st, pred, recovered=()):
        """compare one finished run with the oracle's prediction (names list, marked list)"""
        run, cmd = st["run"], st["cmd"]
        rname = run[0]
        out = open(os.path.join(ctx.work, "run.%s.stdout" % rname), errors="replace").read()
        err = open(os.path.join(ctx.work, "run.%s.stderr" % rname), errors="replace").read()
        sent, recv, info, failed = collections.Counter(), collections.Counter(), [], []
        total = passed = nfailed = None
        notrun = expected = 0
        for line in out.split("\n"):
            m = SEND_RE.match(line)
            if m:
                sent[unquote(m.group(1))] += 1
                continue
            m = RECV_RE.match(line)
            if m:
                recv[unquote(m.group(1))] += 1
                continue
            m = INFO_RE.match(line)
            if m:
                info.append(m.group(1))
                continue
            m = FAILED_RE.match(line)
            if m:
                failed.append(m.group(1))
                continue
            m = TOTAL_RE.match(line)
            if m:
                total = int(m.group(1))
                continue
            m = PASSED_RE.match(line)
            if m:
                passed, nfailed = int(m.group(1)), int(m.group(2))
                continue
            m = re.match(r"^Another (\d+) could not be run", line)
            if m:
                notrun = int(m.group(1))
            m = re.match(r"^\(Another (\d+) failed as expected", line)
            if m:
                expected = int(m.group(1))
        names, marked = pred
        st["failed_names"] = list(failed)
        if recovered:
            rec = [n for n in failed if n in set(recovered)]
            failed = [n for n in failed if n not in set(recovered)]
            if nfailed is not None and passed is not None:
                nfailed -= len(rec)
                passed += len(rec)
            if not failed and st["rc"] == 1:
                st = dict(st, rc=0)
            ctx.notes.setdefault("passed_when_rerun_alone", []).extend(rec)
        want = collections.Counter(names)
        note = {"exit": st["rc"], "wall_s": round(st["dt"], 1), "predicted": len(names), "sent": sum(sent.values()),
                "answered": sum(recv.values()), "total": total, "passed": passed, "failed": nfailed,
                "failed_as_expected": len(info), "marked": len(marked), "could_not_run": notrun}
        ctx.notes["run_" + rname] = note
        st["sent"] = sent
        vs = []
        tail = "stdout tail: " + out[-1500:] + "\nstderr tail: " + err[-1500:]
        for n in failed[:3]:
            i = out.find("FAILED: " + n)
            vs.append(self._violation(run, cmd, "unexpected failure reported by the runner", n, out[i:i + 1500] if i >= 0 else ""))
        if len(failed) > 3:
            vs.append(self._violation(run, cmd, "%d FAILED lines in all" % len(failed)))
        missing = sorted((want - sent).elements())
        surplus = sorted((sent - want).elements())
        for n in missing[:3]:
            vs.append(self._violation(run, cmd, "permutation predicted by the oracle was not sent (%d missing in all)" % len(missing), n))
        for n in surplus[:3]:
            vs.append(self._violation(run, cmd, "permutation sent %s (%d surplus in all)" % (
                "twice" if n in want else "that the oracle does not predict", len(surplus)), n))
        unanswered = sorted((sent - recv).elements())
        for n in unanswered[:3]:
            vs.append(self._violation(run, cmd, "request sent but no response received (%d in all)" % len(unanswered), n))
        mset, iset = set(marked), set(info)
        for n in sorted(mset - iset)[:3]:
            if n not in failed:
                vs.append(self._violation(run, cmd, "listed as known failing but not reported as failed (as expected)", n))
        for n in sorted(iset - mset)[:3]:
            vs.append(self._violation(run, cmd, "reported as failed (as expected) but the oracle does not mark it", n))
        if len(info) != len(iset):
            vs.append(self._violation(run, cmd, "an expected failure is reported twice"))
        if not vs:
            if st["rc"] != 0:
                vs.append(self._violation(run, cmd, "runner exit status %s" % st["rc"], None, tail))
            elif total != len(names) or nfailed != 0 or passed != len(names) - len(marked) or notrun != 0 or expected != len(marked):
                vs.append(self._violation(run, cmd, "totals differ from the oracle: total=%s passed=%s failed=%s could-not-run=%s "
                                          "failed-as-expected=%s, predicted %d names of which %d marked" % (
                                              total, passed, nfailed, notrun, expected, len(names), len(marked)), None, tail))
        return vs

    def _coverage(self, ctx, started, vs):
        """which axis values / pairs of the full shipped matrix the quick tier really executed (from the 'Sending request'
        lines of the reduced run and the slices of each mode), against what the full matrix contains"""
        values, pairs, slices = {}, {}, {}
        missing_all = []
        for base, sl in self._slices.items():
            tuple_of = sl["tuple_of"]
            sent = collections.Counter()
            for st in started:
                if st["run"][0].split("-slice")[0] == base:
                    sent.update(st.get("sent", {}))
            covered, outside = set(), 0
            for n in sent:
                t = tuple_of.get(n)
                if t is None:
                    outside += 1
                    continue
                covered |= self._targets(n.split("/")[0], t)
            need = sl["targets"]
            missing = sorted(need - covered, key=repr)
            mode = "server mode" if base == "referenceserver" else "client mode"
            values[mode] = {a: ["%s%s" % (AXIS_NAMES[a].get(v, v), "" if any(t[0] == "sv" and t[2] == a and t[3] == v for t in covered) else " (NOT EXECUTED)")
                                for v in sorted({t[3] for t in need if t[0] == "sv" and t[2] == a})] for a in AXES}
            cnt = lambda kind: "%d of %d" % (sum(1 for t in need if t[0] == kind and t in covered), sum(1 for t in need if t[0] == kind))
            pairs[mode] = {"suite_x_axis_value": cnt("sv"), "axis_value_x_axis_value": cnt("vv"),
                           "suite_x_axis_value_x_axis_value": cnt("svv"), "suites": len({t[1] for t in need if t[0] == "sv"}),
                           "distinct_permutations_executed": len(sent), "of_full_matrix": len(tuple_of),
                           "executed_names_outside_the_full_matrix": outside}
            slices[mode] = {"rows_of_full_matrix": len(sl["rows"]), "rows_in_reduced_config": sum(1 for k in sl["rows"] if self._in_reduced(k)),
                            "rows_added_by_covering_array": len(sl["chosen"]), "slice_processes": len(sl["parts"]),
                            "rows_per_process": [len(p) for p in sl["parts"]]}
            missing_all += [(mode,) + t for t in missing]
        ctx.notes["axis_values_covered"] = values
        ctx.notes["pairs_covered"] = pairs
        ctx.notes["slices"] = slices
        if missing_all and not vs:
            raise core.HarnessError("C01 quick tier: %d coverage targets of the full matrix were not executed, e.g. %s" % (
                len(missing_all), missing_all[:5]))

    def extra(self, ctx):
        if os.environ.get("VERIF_C01_SKIP_RUNS"):
            return []
        vs = []
        plan = self._plan(ctx)
        bins = {b: core.go_build("cmd/" + b, b) for b in BINARIES}
        # 1. start the real runs (they take the longest), as the Makefile does
        limit = 600 if ctx.tier == "quick" else 2400
        started = [self._start(ctx, bins, run) for run in plan]

        def reap():
            # note when each run ends (they end at different times, while the oracle is still being evaluated)
            while True:
                pending = [st for st in started if "rc" not in st]
                if not pending:
                    return
                for st in pending:
                    rc = st["proc"].poll()
                    if rc is None and time.time() - st["t0"] > limit:
                        st["proc"].kill()
                        st["proc"].wait()
                        rc = "timeout after %ds" % limit
                    if rc is not None:
                        st["dt"] = time.time() - st["t0"]
                        st["so"].close()
                        st["se"].close()
                        st["rc"] = rc
                time.sleep(0.2)
        reaper = threading.Thread(target=reap, daemon=True)
        reaper.start()
        rcmd = lambda run: ["connectconformance", "--conf", run[3], "--mode", "server" if run[1] else "client",
                            "--known-failing", "@" + run[5], "--", run[6]]
        try:
            # 2. meanwhile: the oracle on the real corpus.  Patterns come from the real command-line parser.
            g, m = ctx.eval_both([["c01.patterns", open(run[5], "rb").read()] for run in plan], "kf")
            pats = []
            for run, gi, mi in zip(plan, g, m):
                if gi != mi:
                    vs.append(core.Violation("known-failing file %s: parsePatternFile and the model disagree" % run[5],
                                             "; impl : %s\n; model: %s\n%s\n" % (gi, mi, core.sx(["c01.patterns", 0, open(run[5], "rb").read()]))))
                pats.append([p for p in core.parse_sx(gi)])
            # one oracle case per unrestricted run; the slices of one mode share one case (the library is built once)
            groups = []          # [(label, [plan indices], dump line)]
            by_base = collections.OrderedDict()
            for i, run in enumerate(plan):
                if run[7] is None:
                    groups.append((run[0], [i], ["dump", len(groups), run[0], run[1], run[2], run[4], pats[i]]))
                else:
                    by_base.setdefault((run[0].split("-slice")[0], run[3]), []).append(i)
            for (base, _), idx in by_base.items():
                run = plan[idx[0]]
                label = base + ("-slices" if "-slice" in run[0] else "-selected")
                groups.append((label, idx, ["dump", len(groups), label, run[1], run[2], run[4], pats[idx[0]],
                                            [[plan[i][7]["run"], plan[i][7]["skip"]] for i in idx]]))
            dump_in = os.path.join(ctx.work, "dump.in")
            with open(dump_in, "w") as f:
                for _, _, line in groups:
                    f.write(core.sx(line) + "\n")
            dump_out = os.path.join(ctx.work, "real.cases")
            core.run_go(ctx.bin("cc"), self.packages["cc"], dump_in, dump_out, timeout=300, testname="TestVerifDump")
            cases = []
            for line in open(dump_out):
                c = core.parse_sx(line)
                cases.append([c[0].decode()] + c[2:])
            # small cases together, each case on the full shipped matrix in a process of its own, all at once
            big = [i for i, (label, idx, _) in enumerate(groups)
                   if label.endswith("-slices") or (ctx.tier != "quick" and label.startswith("reference"))]
            small = [i for i in range(len(cases)) if i not in big]
            res = {}
            with concurrent.futures.ThreadPoolExecutor(max_workers=8) as ex:
                futs = {}
                if small:
                    futs[ex.submit(ctx.eval_both, [cases[i] for i in small], "real")] = small
                for i in big:
                    futs[ex.submit(ctx.eval_both, [cases[i]], "real." + groups[i][0])] = [i]
                for fu, idx in futs.items():
                    gg, mm = fu.result()
                    for i, gi, mi in zip(idx, gg, mm):
                        res[i] = (gi, mi)
            preds = [None] * len(plan)
            for gi_, (label, idx, _) in enumerate(groups):
                gi, mi = res[gi_]
                run = plan[idx[0]]
                mt = core.parse_sx(mi) if mi else None
                gt = core.parse_sx(gi) if gi else None
                ok_m = isinstance(mt, list) and mt and mt[0] == b"ok"
                ok_g = isinstance(gt, list) and gt and gt[0] == b"ok"
                sliced = run[7] is not None
                # views: per plan index (names, marked, lib, groups, total of allPermutations, announced total, patterns ok)
                view = lambda t, j: (t[1 + j] + [t[-1][j]]) if sliced else t[1:]
                if gi != mi:
                    detail = "impl : %s\nmodel: %s" % ((gi or "")[:300], (mi or "")[:300])
                    nm = None
                    if ok_m and ok_g and len(gt) == len(mt):
                        for j in range(len(idx)):
                            gv, mv = view(gt, j), view(mt, j)
                            if gv == mv:
                                continue
                            gs, ms = collections.Counter(gv[0]), collections.Counter(mv[0])
                            only_g = sorted((gs - ms).elements())
                            only_m = sorted((ms - gs).elements())
                            detail = ("run %s: sent by the real planning code only (%d): %s\npredicted by the oracle only (%d): %s\n"
                                      "marked impl/model: %d/%d; library %s/%s; groups %s/%s; all permutations %s/%s; "
                                      "announced total %s/%s; patterns ok %s/%s" % (
                                          plan[idx[j]][0], len(only_g), [x.decode() for x in only_g[:5]], len(only_m),
                                          [x.decode() for x in only_m[:5]], len(gv[1]), len(mv[1]), gv[2], mv[2], gv[3], mv[3],
                                          gv[4], mv[4], gv[5], mv[5], gv[6], mv[6]))
                            nm = (only_g + only_m + [None])[0]
                            nm = nm.decode() if nm else None
                            break
                    vs.append(self._violation(run, rcmd(run), "oracle and real planning code (parseConfig/newTestCaseLibrary/gRPC filter/"
                                              "patterns/--run filter) disagree", nm, detail))
                if not ok_m:
                    vs.append(self._violation(run, rcmd(run), "the oracle does not predict this run: %s" % (mi or "")[:200]))
                    continue
                for j, pi in enumerate(idx):
                    mv = view(mt, j)
                    if mv[5] != len(mv[0]):
                        vs.append(self._violation(plan[pi], rcmd(plan[pi]), "oracle: announced total %s differs from the %d names sent" % (mv[5], len(mv[0]))))
                    preds[pi] = ([x.decode() for x in mv[0]], [x.decode() for x in mv[1]])
                    ctx.notes["oracle_" + plan[pi][0]] = {"names": len(mv[0]), "marked": len(mv[1]), "library": mv[2], "groups": mv[3],
                                                          "all_permutations": mv[4], "patterns": len(pats[pi]), "patterns_ok": mv[6],
                                                          "run_patterns": len((plan[pi][7] or {}).get("run", [])),
                                                          "skip_patterns": len((plan[pi][7] or {}).get("skip", []))}
                    if mv[6] != 1:
                        vs.append(self._violation(plan[pi], rcmd(plan[pi]), "a pattern of the shipped known-failing list%s matches no permutation" % (
                            " or a --run / --skip pattern of the selection" if sliced else "")))
            # the reference pair ships EMPTY lists
            for run, ps in zip(plan, pats):
                if run[0].startswith("reference") and ps:
                    vs.append(self._violation(run, rcmd(run), "the known-failing list of a reference implementation is not empty: %s" % ps[:3]))
            # 3. wait for the runs and judge them
            reaper.join()
            for st, pred in zip(started, preds):
                if pred is None:
                    continue
                v1 = self._judge(ctx, st, pred)
                fn = st.get("failed_names", [])
                if fn and len(fn) <= 40 and not vs:
                    # every run has ended by now (reaper joined): the machine is quiet
                    rec = self._confirm_alone(ctx, st, fn)
                    if rec:
                        v1 = self._judge(ctx, st, pred, recovered=rec)
                vs.extend(v1)
        finally:
            for st in started:
                if st["proc"].poll() is None:
                    st["proc"].kill()
            reaper.join(30)
        if ctx.tier == "quick":
            self._coverage(ctx, started, vs)
        # 4. thorough: the timing-dependent pairing found on this property (gRPC reference server, gRPC-Web over
        #    HTTP/1.1, large half-duplex streams; fixed in /repo 9b5a7d5) is run again and again
        if ctx.tier == "thorough" and not vs:
            run = plan[1]
            reps, bad = 25, 0
            pattern = "Client Message Size/HTTPVersion:1/**/(grpc server impl)/**"
            rel = "./" + os.path.relpath(run[3], core.REPO) if run[3].startswith(core.REPO + os.sep) else run[3]
            cmd = [bins["connectconformance"], "-v", "--conf", rel, "--mode", "client", "--trace", "--run", pattern,
                   "--", bins["referenceclient"]]
            for i in range(reps):
                rc, log, _ = core.run_cmd(cmd, cwd=core.REPO, timeout=300, check=False)
                if rc != 0:
                    bad += 1
                    if bad == 1:
                        m = re.search(r"^FAILED: (.*?):$", log, re.M)
                        vs.append(self._violation(run, cmd[:1] + ["--conf", rel, "--mode", "client", "--known-failing", "@" + run[5], "--"] + cmd[-1:],
                                                  "repeated filtered run %d of %d failed" % (i + 1, reps), m.group(1) if m else None, log[-3000:]))
            ctx.notes["stress_grpcweb_http1"] = "%d repetitions, %d failed" % (reps, bad)
        ctx.notes["exhaustive"] = (ctx.tier == "thorough")
        ctx.notes["executed_permutations"] = sum(ctx.notes.get("run_" + r[0], {}).get("sent", 0) for r in plan)
        ctx.notes["runs"] = [r[0] + (" (shipped config, %d --run row patterns)" % len(r[7]["run"]) if r[7] and r[7]["run"] else
                                     " (reduced config, --skip %s)" % " ".join("'%s'" % x for x in r[7]["skip"]) if r[7] else "") for r in plan]
        return vs


PROP = C01()
