"""C01 — the reference implementations pass every embedded test permutation; the shipped
known-failing lists stay exact.

The property is about a FINITE set of executions of the real binaries.  The Coq development gives the
oracle (which names a run must send, which of them the known-failing list marks, what success means);
`extra()` builds the five binaries from the working tree, runs the runner exactly as the Makefile's
`runconformance` does and compares every run with the oracle evaluated on the REAL embedded suites and
the REAL shipped configuration / known-failing files (dumped through the repository's own loaders)."""
import collections
import json
import os
import re
import subprocess
import time

from .. import core
from ..core import Prop

# ---------------------------------------------------------------------------
# encodings shared with harness/C06 and harness/C07 (decoded by C06_Model.un_config / C07_Model.un_suite)
# ---------------------------------------------------------------------------


def features(v=(), p=(), c=(), z=(), st=(), h2c=0, tls=0, certs=0, trailers=0, half1=0, get=0, limit=0):
    return [list(v), list(p), list(c), list(z), list(st), h2c, tls, certs, trailers, half1, get, limit]


def entry(v=0, p=0, c=0, z=0, st=0, tls=0, certs=0, limit=0):
    return [v, p, c, z, st, tls, certs, limit]


def tcase(name="t", stream=1, service="", method="", rawreq=False, rawresp=False):
    return [name, stream, service, method, rawreq, rawresp, 0]


def suite(name="S", mode=0, p=(), v=(), c=(), z=(), cvm=0, tls=False, certs=False, get=False, limit=False, tcs=None):
    return [name, mode, list(p), list(v), list(c), list(z), cvm, tls, certs, get, limit,
            [list(t) for t in (tcs if tcs is not None else [tcase()])]]


# the feature blocks of the shipped configurations (flags: 0 absent, 1 false, 2 true)
F_GRPC = features(v=[2], p=[2], c=[1], tls=1)
F_GRPC_WEB = features(v=[1, 2], p=[3], c=[1], tls=1)
F_REDUCED = features(v=[1, 2], p=[1, 2, 3], c=[1, 2], z=[1, 2], tls=1, half1=2)
F_SMALL = features(v=[2], p=[1, 2], c=[1], z=[1], tls=1)

REDUCED_CONFIG = """# C01 quick tier: the reference configuration reduced to HTTP/1.1 + h2c, no TLS, identity + gzip
features:
  versions:
    - HTTP_VERSION_1
    - HTTP_VERSION_2
  protocols:
    - PROTOCOL_CONNECT
    - PROTOCOL_GRPC
    - PROTOCOL_GRPC_WEB
  codecs:
    - CODEC_PROTO
    - CODEC_JSON
  compressions:
    - COMPRESSION_IDENTITY
    - COMPRESSION_GZIP
  supportsTls: false
  supportsHalfDuplexBidiOverHttp1: true
"""

# (run name, client is reference, server is reference, config file, known-failing file, peer binary)
RUNS = [
    ("referenceserver", 1, 0, "reference-impls-config.yaml", "referenceserver-known-failing.txt", "referenceserver"),
    ("referenceclient", 0, 1, "reference-impls-config.yaml", "referenceclient-known-failing.txt", "referenceclient"),
    ("grpcserver", 1, 0, "grpc-impls-config.yaml", "grpcserver-known-failing.txt", "grpcserver"),
    ("grpcserver-web", 1, 0, "grpc-web-server-impl-config.yaml", "grpcserver-web-known-failing.txt", "grpcserver"),
    ("grpcclient", 0, 1, "grpc-impls-config.yaml", "grpcclient-known-failing.txt", "grpcclient"),
]
BINARIES = ["connectconformance", "referenceserver", "referenceclient", "grpcserver", "grpcclient"]

SEND_RE = re.compile(r'^Sending request for (".*")\.\.\.$')
RECV_RE = re.compile(r'^Received response for (".*")\.\.\.$')
INFO_RE = re.compile(r"^INFO: (.*) failed \(as expected\):$")
FAILED_RE = re.compile(r"^FAILED: (.*?)(?::| was expected to fail but did not)$")
TOTAL_RE = re.compile(r"^Total cases: (\d+)$")
PASSED_RE = re.compile(r"^(\d+) passed, (\d+) failed$")


def unquote(q):
    try:
        return json.loads(q)
    except ValueError:
        return q[1:-1]


class C01(Prop):
    id = "C01"
    props = "C01_Props"
    coq_files = ("Base", "C06_Model", "C06_Spec", "C06_Proofs", "C07_Consts", "C07_Model", "C07_Spec", "C07_Proofs",
                 "C08_Model", "C08_Spec", "C08_Proofs", "C04_Model", "C04_Spec", "C04_Proofs",
                 "C01_Model", "C01_Spec", "C01_Proofs", "C01_Props")
    models = ("C01_Model",)
    packages = {"cc": "internal/app/connectconformance", "main": "cmd/connectconformance"}
    kinds = {"c01.run": "cc", "c01.real": "cc", "c01.patterns": "main"}
    go_timeout = 1800
    model_timeout = 2400
    rule = ("EXECUTION (extra): the five runs of the Makefile's runconformance that do not need npm (reference server, reference "
            "client, grpcserver, grpcserver with the gRPC-Web config, grpcclient) with the real binaries built from the working tree, "
            "`-v --vv --trace --known-failing @<shipped list>`; per run: exit status 0, `0 failed`, no FAILED line, no 'could not be run', "
            "multiset of 'Sending request for' names = the oracle's names (none dropped, none twice), every one answered, totals = |names|, "
            "INFO 'failed (as expected)' names = the oracle's marked set. quick: gRPC-peer runs in full + the reference pair in both modes on "
            "the reduced configuration (HTTP/1.1 + h2c, 3 protocols, proto + json, identity + gzip, no TLS); thorough: the full shipped matrix. "
            "ORACLE vs CODE: c01.real = the extracted predicted_run on the dump of the real embedded suites / shipped configs / shipped lists "
            "against parseConfig + newTestCaseLibrary + allPermutations + the client x server x instance loops with filterGRPCImplTestCases "
            "+ tryMatchPatterns on the real inputs (sorted sent names, marked names, library size, groups, total); c01.run = the same plus "
            "newResults/setOutcome/report() with an outcome assignment, on generated configurations, suites, pattern lists (exact lists, "
            "listed-but-passing, unlisted-but-failing, unmatched and shadowed patterns, set-up / could-not-run outcomes, marker-like test "
            "names); c01.patterns = argsToPatterns('@file') on the shipped lists and variants. non-trivial = a run was predicted")
    trusted_base = ("Coq 8.16.1 kernel (vm_compute only in Examples)", "extraction (ExtrOcamlBasic only) + ocaml/driver.ml",
                    "vlib/props/c01.py: process launching, parsing of the runner's printed lines (Sending/Received/INFO/FAILED/totals)",
                    "Go overlay harness harness/C01 (projection of the real suites/configs into the case encoding; copy of the client x "
                    "server x instance loop header of run())",
                    "the operating system, Go runtime and network stack the binaries run on")
    assumptions = ("predicted_names_spec: the configuration denotes declared protocols only (true of the shipped files: ex_grpc_config_declared)",
                   "lists_exact_iff: executed names pairwise distinct (decided by the oracle on every run: a prediction with repeated names "
                   "is refused as ambiguous-names) and every sent case gets an outcome (checked on every run: each Sending line has its "
                   "Received line and the totals add up)",
                   "timing: the runs are executed once per check on a loaded machine; a failure that needs a rare schedule can be missed")
    level_text = ("The property is decided by EXECUTION: every permutation of the space is run with the real binaries and the runner's own "
                  "verdict, totals and per-case lines are compared with a proved oracle. Machine-checked (Coq) about the oracle: the names it "
                  "predicts are exactly those the C06/C07 specifications describe, pairwise distinct, the batching of run() sends each exactly "
                  "once, and the runner's success verdict holds exactly when no pattern is unmatched, every listed permutation ran and failed "
                  "and every unlisted one passed (with an empty list: all passed). The oracle is tied to the code on every check by evaluating "
                  "it against the real loaders on the real embedded corpus and shipped files. The verdicts themselves (pass/fail of each "
                  "permutation) come from execution, not from a theorem.")
    level_note = ("level=proof refers to the oracle theorems (obligations = C01_Props); pass/fail of the 12,998 + 16,580 + gRPC-peer permutations "
                  "is established by exhaustive execution in the thorough tier (exhaustive=true in the evidence) and on the reduced HTTP/TLS/"
                  "compression matrix in the quick tier (exhaustive=false). Expected responses are not predicted by the model (C02's subject). "
                  "The npm-built testing/grpcwebclient is not available offline: the sixth Makefile run (grpc-web-client-impl-config) is not "
                  "executed; its configuration and list are not covered. One execution per check: timing-dependent flakiness is not explored.")
    technique = "Coq oracle (composition of C06/C07/C08/C04 theorems) + exhaustive execution of the real binaries"

    # ------------------------------------------------------------------
    def nontrivial(self, case, res):
        return res.startswith("(#6f6b") or (case[0] == "c01.patterns" and len(res) > 2)

    def describe(self, case, g, m):
        return ("run planning / verdict: parseConfig + newTestCaseLibrary + gRPC filter + pattern marking + report() differ from the "
                "proved oracle")

    # ------------------------------------------------------------------
    def _shipped(self, name):
        with open(os.path.join(core.REPO, "testing", name), "rb") as f:
            return f.read()

    def generate(self, rng, tier):
        # the shipped known-failing files (and what the command line makes of them), plus variants
        files = sorted(f for f in os.listdir(os.path.join(core.REPO, "testing")) if f.endswith("-known-failing.txt"))
        for f in files:
            d = self._shipped(f)
            yield ["c01.patterns", d]
            yield ["c01.patterns", d.replace(b"\n", b"\r\n")]
            yield ["c01.patterns", b"  " + d + b"\n# trailing comment"]
        yield ["c01.patterns", b""]

        tests = [tcase("unary/success", 1), tcase("unary/no-request", 1, rawreq=True), tcase("server-stream/ok", 3),
                 tcase("unary/multiple-responses", 1, rawresp=True), tcase("bidi/full", 5), tcase("client-stream/x", 2),
                 tcase("(grpc client impl)/unary/success", 1), tcase("(grpc server impl)/unary/success", 1), tcase("a/../t", 1)]
        feats = [F_GRPC, F_GRPC_WEB, F_SMALL, features(v=[1], p=[1, 3], c=[1], z=[1], tls=1),
                 features(v=[2], p=[2, 3], c=[1, 2], z=[1, 2], tls=1), features(v=[1, 2], p=[2], c=[1], tls=1),
                 features(v=[2], p=[1, 2, 3], c=[1], z=[1, 3], st=[1, 3], tls=1), features(v=[2], p=[2], c=[1], z=[1])]
        n = 1500 if tier == "quick" else 20000
        for i in range(n):
            fe = rng.choice(feats)
            inc, exc = [], []
            r = rng.random()
            if r < 0.1:
                exc = [entry(p=rng.choice([1, 2, 3]))]
            elif r < 0.2:
                inc = [entry(v=2, p=3, c=1, z=2, st=1)]
            elif r < 0.23:
                fe = features(v=[1], p=[2])          # rejected: gRPC needs HTTP/2
            ss = []
            names = rng.sample(["Basic", "Raw", "gRPC Trailers", "S"], rng.randint(1, 3))
            if rng.random() < 0.03:
                names.append(names[0])               # duplicate suite name: rejected
            for nm in names:
                tcs = rng.sample(tests[:6], rng.randint(1, 3))
                if rng.random() < 0.05:
                    tcs = tcs + [rng.choice(tests[6:])]
                mode = rng.choice([0, 0, 1, 2])
                ss.append(suite(nm, mode,
                                p=rng.choice([(), (), (), (), (2,), (2, 3), (1,)]), v=rng.choice([(), (), (), (2,), (1, 2)]),
                                c=rng.choice([(), (1,)]), z=rng.choice([(), (), (), (1,), (1, 2)]),
                                tls=rng.random() < 0.03, tcs=tcs))
            cl, sv = rng.choice([(1, 0), (1, 0), (0, 1), (0, 1), (1, 1), (0, 0)])
            run_mode = 1 if (sv and not cl) else 2 if (cl and not sv) else 0
            # a known-failing list and an outcome assignment; mostly coherent (the list is exact)
            simple = sorted({t[0] for s in ss if s[1] in (0, run_mode) for t in s[11] if t[1] in (1, 2, 3) or rng.random() < 0.3})
            listed = [t for t in simple if rng.random() < 0.3]
            ps = ["**/" + t for t in listed]
            outs = [["/" + t, rng.choice([1, 2])] for t in listed]
            r = rng.random()
            if r < 0.08 and simple:
                outs.append(["/" + rng.choice(simple), rng.choice([1, 2, 3, 4])])       # an unlisted case fails / is not run
            elif r < 0.16 and outs:
                outs.pop(rng.randrange(len(outs)))                                       # a listed case passes
            elif r < 0.22:
                ps.append(rng.choice(["**/zzz", "Nope/**", "**/unary"]))                  # a pattern that matches nothing
            elif r < 0.28 and listed:
                ps.append("**/*/" + listed[0].split("/")[-1])                             # shadowed by the more specific one
            elif r < 0.32 and outs:
                outs[0][1] = rng.choice([3, 4])                                          # listed, but set-up error / not run
            elif r < 0.36 and ss:
                ps.append(ss[0][0] + "/**")
            rng.shuffle(ps)
            yield ["c01.run", cl, sv, fe, inc, exc, ss, ps, outs]

    # ------------------------------------------------------------------
    # execution
    # ------------------------------------------------------------------
    def _plan(self, ctx):
        """[(run name, cl, sv, config path, config text, known-failing path, peer binary name)]"""
        tdir = os.path.join(core.REPO, "testing")
        reduced = os.path.join(ctx.work, "reference-impls-reduced-config.yaml")
        with open(reduced, "w") as f:
            f.write(REDUCED_CONFIG)
        plan = []
        for name, cl, sv, cfg, kf, peer in RUNS:
            cfgp = os.path.join(tdir, cfg)
            if ctx.tier == "quick" and name.startswith("reference"):
                cfgp = reduced
            plan.append((name, cl, sv, cfgp, open(cfgp, "rb").read(), os.path.join(tdir, kf), peer))
        return plan

    def _start(self, ctx, bins, run):
        name, cl, sv, cfgp, _, kfp, peer = run
        rel = lambda p: "./" + os.path.relpath(p, core.REPO) if p.startswith(core.REPO + os.sep) else p
        cmd = [bins["connectconformance"], "-v", "--vv", "--conf", rel(cfgp), "--mode", "server" if cl else "client", "--trace",
               "--known-failing", "@" + rel(kfp), "--", bins[peer]]
        so = open(os.path.join(ctx.work, "run.%s.stdout" % name), "wb")
        se = open(os.path.join(ctx.work, "run.%s.stderr" % name), "wb")
        p = subprocess.Popen(cmd, cwd=core.REPO, env=core.env(), stdout=so, stderr=se, stdin=subprocess.DEVNULL)
        return {"run": run, "cmd": cmd, "proc": p, "t0": time.time(), "so": so, "se": se}

    def _violation(self, run, cmd, what, name=None, detail=""):
        rname, cl, sv, cfgp, _, kfp, peer = run
        replay = " ".join(cmd[:1] + ["-v", "--vv", "--trace", "--conf", cmd[cmd.index("--conf") + 1], "--mode", cmd[cmd.index("--mode") + 1],
                                     "--known-failing", cmd[cmd.index("--known-failing") + 1]]
                          + (["--run", "'%s'" % name] if name else []) + ["--"] + cmd[-1:])
        body = ("; C01 run=%s mode=%s config=%s known-failing=%s peer=%s\n; %s\n%s; replay (cwd = the repository): %s\n" % (
            rname, "server" if cl else "client", cfgp, kfp, peer, what,
            ("; permutation: %s\n" % name) if name else "", replay))
        if detail:
            body += "; " + detail.replace("\n", "\n; ") + "\n"
        return core.Violation("run %s: %s%s" % (rname, what, (" [%s]" % name) if name else ""), body,
                              "" if name else "no-failing-input-found")

    def _judge(self, ctx, st, pred):
        """compare one finished run with the oracle's prediction (names list, marked list)"""
        run, cmd = st["run"], st["cmd"]
        rname = run[0]
        out = open(os.path.join(ctx.work, "run.%s.stdout" % rname), errors="replace").read()
        err = open(os.path.join(ctx.work, "run.%s.stderr" % rname), errors="replace").read()
        sent, recv, info, failed = collections.Counter(), collections.Counter(), [], []
        total = passed = nfailed = None
        notrun = expected = 0
        for line in out.split("\n"):
            m = SEND_RE.match(line)
            if m:
                sent[unquote(m.group(1))] += 1
                continue
            m = RECV_RE.match(line)
            if m:
                recv[unquote(m.group(1))] += 1
                continue
            m = INFO_RE.match(line)
            if m:
                info.append(m.group(1))
                continue
            m = FAILED_RE.match(line)
            if m:
                failed.append(m.group(1))
                continue
            m = TOTAL_RE.match(line)
            if m:
                total = int(m.group(1))
                continue
            m = PASSED_RE.match(line)
            if m:
                passed, nfailed = int(m.group(1)), int(m.group(2))
                continue
            m = re.match(r"^Another (\d+) could not be run", line)
            if m:
                notrun = int(m.group(1))
            m = re.match(r"^\(Another (\d+) failed as expected", line)
            if m:
                expected = int(m.group(1))
        names, marked = pred
        want = collections.Counter(names)
        note = {"exit": st["rc"], "wall_s": round(st["dt"], 1), "predicted": len(names), "sent": sum(sent.values()),
                "answered": sum(recv.values()), "total": total, "passed": passed, "failed": nfailed,
                "failed_as_expected": len(info), "marked": len(marked), "could_not_run": notrun}
        ctx.notes["run_" + rname] = note
        vs = []
        tail = "stdout tail: " + out[-1500:] + "\nstderr tail: " + err[-1500:]
        for n in failed[:3]:
            i = out.find("FAILED: " + n)
            vs.append(self._violation(run, cmd, "unexpected failure reported by the runner", n, out[i:i + 1500] if i >= 0 else ""))
        if len(failed) > 3:
            vs.append(self._violation(run, cmd, "%d FAILED lines in all" % len(failed)))
        missing = sorted((want - sent).elements())
        surplus = sorted((sent - want).elements())
        for n in missing[:3]:
            vs.append(self._violation(run, cmd, "permutation predicted by the oracle was not sent (%d missing in all)" % len(missing), n))
        for n in surplus[:3]:
            vs.append(self._violation(run, cmd, "permutation sent %s (%d surplus in all)" % (
                "twice" if n in want else "that the oracle does not predict", len(surplus)), n))
        unanswered = sorted((sent - recv).elements())
        for n in unanswered[:3]:
            vs.append(self._violation(run, cmd, "request sent but no response received (%d in all)" % len(unanswered), n))
        mset, iset = set(marked), set(info)
        for n in sorted(mset - iset)[:3]:
            if n not in failed:
                vs.append(self._violation(run, cmd, "listed as known failing but not reported as failed (as expected)", n))
        for n in sorted(iset - mset)[:3]:
            vs.append(self._violation(run, cmd, "reported as failed (as expected) but the oracle does not mark it", n))
        if len(info) != len(iset):
            vs.append(self._violation(run, cmd, "an expected failure is reported twice"))
        if not vs:
            if st["rc"] != 0:
                vs.append(self._violation(run, cmd, "runner exit status %s" % st["rc"], None, tail))
            elif total != len(names) or nfailed != 0 or passed != len(names) - len(marked) or notrun != 0 or expected != len(marked):
                vs.append(self._violation(run, cmd, "totals differ from the oracle: total=%s passed=%s failed=%s could-not-run=%s "
                                          "failed-as-expected=%s, predicted %d names of which %d marked" % (
                                              total, passed, nfailed, notrun, expected, len(names), len(marked)), None, tail))
        return vs

    def extra(self, ctx):
        if os.environ.get("VERIF_C01_SKIP_RUNS"):
            return []
        vs = []
        plan = self._plan(ctx)
        bins = {b: core.go_build("cmd/" + b, b) for b in BINARIES}
        # 1. start the real runs (they take the longest), as the Makefile does
        limit = 600 if ctx.tier == "quick" else 2400
        started = [self._start(ctx, bins, run) for run in plan]
        try:
            # 2. meanwhile: the oracle on the real corpus.  Patterns come from the real command-line parser.
            g, m = ctx.eval_both([["c01.patterns", open(run[5], "rb").read()] for run in plan], "kf")
            pats = []
            for run, gi, mi in zip(plan, g, m):
                if gi != mi:
                    vs.append(core.Violation("known-failing file %s: parsePatternFile and the model disagree" % run[5],
                                             "; impl : %s\n; model: %s\n%s\n" % (gi, mi, core.sx(["c01.patterns", 0, open(run[5], "rb").read()]))))
                pats.append([p for p in core.parse_sx(gi)])
            dump_in = os.path.join(ctx.work, "dump.in")
            with open(dump_in, "w") as f:
                for i, (run, ps) in enumerate(zip(plan, pats)):
                    f.write(core.sx(["dump", i, run[0], run[1], run[2], run[4], ps]) + "\n")
            dump_out = os.path.join(ctx.work, "real.cases")
            core.run_go(ctx.bin("cc"), self.packages["cc"], dump_in, dump_out, timeout=300, testname="TestVerifDump")
            cases = []
            for line in open(dump_out):
                c = core.parse_sx(line)
                cases.append([c[0].decode()] + c[2:])
            g, m = ctx.eval_both(cases, "real")
            preds = []
            for ri, (run, gi, mi) in enumerate(zip(plan, g, m)):
                mt = core.parse_sx(mi) if mi else None
                gt = core.parse_sx(gi) if gi else None
                ok_m = isinstance(mt, list) and mt and mt[0] == b"ok"
                if gi != mi:
                    detail = "impl : %s\nmodel: %s" % ((gi or "")[:300], (mi or "")[:300])
                    nm = None
                    if ok_m and isinstance(gt, list) and gt and gt[0] == b"ok":
                        gs, ms = collections.Counter(gt[1]), collections.Counter(mt[1])
                        only_g = sorted((gs - ms).elements())
                        only_m = sorted((ms - gs).elements())
                        detail = ("sent by the real planning code only (%d): %s\npredicted by the oracle only (%d): %s\n"
                                  "marked impl/model: %d/%d; library %s/%s; groups %s/%s; total %s/%s; patterns ok %s/%s" % (
                                      len(only_g), [x.decode() for x in only_g[:5]], len(only_m), [x.decode() for x in only_m[:5]],
                                      len(gt[2]), len(mt[2]), gt[3], mt[3], gt[4], mt[4], gt[5], mt[5], gt[6], mt[6]))
                        nm = (only_g + only_m + [None])[0]
                        nm = nm.decode() if nm else None
                    vs.append(self._violation(run, ["connectconformance", "--conf", run[3], "--mode", "server" if run[1] else "client",
                                                    "--known-failing", "@" + run[5], "--", run[6]],
                                              "oracle and real planning code (parseConfig/newTestCaseLibrary/gRPC filter/patterns) disagree",
                                              nm, detail))
                if ok_m:
                    preds.append(([x.decode() for x in mt[1]], [x.decode() for x in mt[2]]))
                    ctx.notes["oracle_" + run[0]] = {"names": len(mt[1]), "marked": len(mt[2]), "library": mt[3], "groups": mt[4],
                                                     "patterns": len(cases[ri][5]),
                                                     "patterns_ok": mt[6]}
                    if mt[6] != 1:
                        vs.append(self._violation(run, ["connectconformance", "--conf", run[3], "--mode", "server" if run[1] else "client",
                                                        "--known-failing", "@" + run[5], "--", run[6]],
                                                  "a pattern of the shipped known-failing list matches no permutation"))
                else:
                    preds.append(None)
                    vs.append(self._violation(run, ["connectconformance", "--conf", run[3], "--mode", "server" if run[1] else "client",
                                                    "--known-failing", "@" + run[5], "--", run[6]],
                                              "the oracle does not predict this run: %s" % (mi or "")[:200]))
            # the reference pair ships EMPTY lists
            for run, ps in zip(plan, pats):
                if run[0].startswith("reference") and ps:
                    vs.append(self._violation(run, ["connectconformance", "--conf", run[3], "--mode", "server" if run[1] else "client",
                                                    "--known-failing", "@" + run[5], "--", run[6]],
                                              "the known-failing list of a reference implementation is not empty: %s" % ps[:3]))
            # 3. wait for the runs and judge them
            while True:
                pending = [st for st in started if "rc" not in st]
                if not pending:
                    break
                for st in pending:
                    rc = st["proc"].poll()
                    if rc is None and time.time() - st["t0"] > limit:
                        st["proc"].kill()
                        st["proc"].wait()
                        rc = "timeout after %ds" % limit
                    if rc is not None:
                        st["rc"], st["dt"] = rc, time.time() - st["t0"]
                        st["so"].close()
                        st["se"].close()
                time.sleep(0.2)
            for st, pred in zip(started, preds):
                if pred is None:
                    continue
                vs.extend(self._judge(ctx, st, pred))
        finally:
            for st in started:
                if st["proc"].poll() is None:
                    st["proc"].kill()
                    st["proc"].wait()
        # 4. thorough: the timing-dependent pairing found on this property (gRPC reference server, gRPC-Web over
        #    HTTP/1.1, large half-duplex streams; fixed in /repo 9b5a7d5) is run again and again
        if ctx.tier == "thorough" and not vs:
            run = plan[1]
            reps, bad = 25, 0
            pattern = "Client Message Size/HTTPVersion:1/**/(grpc server impl)/**"
            rel = "./" + os.path.relpath(run[3], core.REPO) if run[3].startswith(core.REPO + os.sep) else run[3]
            cmd = [bins["connectconformance"], "-v", "--conf", rel, "--mode", "client", "--trace", "--run", pattern,
                   "--", bins["referenceclient"]]
            for i in range(reps):
                rc, log, _ = core.run_cmd(cmd, cwd=core.REPO, timeout=300, check=False)
                if rc != 0:
                    bad += 1
                    if bad == 1:
                        m = re.search(r"^FAILED: (.*?):$", log, re.M)
                        vs.append(self._violation(run, cmd[:1] + ["--conf", rel, "--mode", "client", "--known-failing", "@" + run[5], "--"] + cmd[-1:],
                                                  "repeated filtered run %d of %d failed" % (i + 1, reps), m.group(1) if m else None, log[-3000:]))
            ctx.notes["stress_grpcweb_http1"] = "%d repetitions, %d failed" % (reps, bad)
        ctx.notes["exhaustive"] = (ctx.tier == "thorough")
        ctx.notes["executed_permutations"] = sum(ctx.notes.get("run_" + r[0], {}).get("sent", 0) for r in plan)
        ctx.notes["runs"] = [r[0] + ("" if ctx.tier == "thorough" or not r[0].startswith("reference") else " (reduced config)") for r in plan]
        return vs


PROP = C01()
