"""./check --setup : build everything the checks need, offline, from files on disk."""
import os
import subprocess
import sys
from . import core


def run():
    ok, log = core.build_coq(keep_going=False)
    if not ok:
        print(log[-4000:])
        print("ERROR: Coq build failed")
        return 2
    core.build_model()
    # warm the Go build cache for every overlay package
    root = os.path.join(core.VERIF, "harness", "overlay")
    pkgs = []
    for d, _, files in os.walk(root):
        if any(f.endswith(".go") for f in files):
            pkgs.append(os.path.relpath(d, root))
    for p in sorted(pkgs):
        core.go_test_bin(p)
        print("built test binary for", p)
    print("setup ok")
    return 0


def coqchk():
    """Independent re-check of every compiled file with coqchk, listing axioms."""
    ok, log = core.build_coq(keep_going=False)
    if not ok:
        print("ERROR: Coq build failed")
        return 2
    mods = ["V." + os.path.basename(f)[:-2] for f in core.coq_files()]
    rc, out, dt = core.run_cmd(["coqchk", "-silent", "-o", "-Q", "theories", "V"] + mods, cwd=core.COQ, timeout=7200, check=False)
    os.makedirs(core.BUILD, exist_ok=True)
    with open(os.path.join(core.BUILD, "coqchk.log"), "w") as f:
        f.write(out)
    print(out[-3000:])
    print("coqchk rc=%d in %.0fs" % (rc, dt))
    return 0 if rc == 0 else 1
