"""./check --setup : build everything the checks need, offline, from files on disk."""
import os
import subprocess
import sys
from . import core


def run():
    ok, log = core.build_coq(keep_going=True)
    if not ok:
        # a broken proof is reported by the check of the property it belongs to; setup only needs
        # the shared base to exist
        print(log[-4000:])
        print("WARNING: some Coq files did not build (reported by the owning property's check)")
        if not core.vo_ok("Dispatch"):
            print("ERROR: Coq build failed")
            return 2
    import importlib
    for i in range(1, 21):
        pid = "c%02d" % i
        try:
            mod = importlib.import_module("vlib.props." + pid)
        except ModuleNotFoundError:
            continue
        prop = mod.PROP
        if getattr(prop, "not_applicable", None):
            continue
        try:
            core.build_model(prop)
            for tag, pkg in prop.packages.items():
                core.go_test_bin(prop, pkg)
            if hasattr(prop, "setup"):
                prop.setup()
            print("built model + test binaries for", prop.id)
        except core.HarnessError as ex:
            print("WARNING: %s: %s" % (prop.id, str(ex)[:2000]))
    print("setup ok")
    return 0


def coqchk():
    """Independent re-check of every compiled file with coqchk, listing axioms."""
    ok, log = core.build_coq(keep_going=False)
    if not ok:
        print("ERROR: Coq build failed")
        return 2
    mods = ["V." + os.path.basename(f)[:-2] for f in core.coq_files()]
    rc, out, dt = core.run_cmd(["coqchk", "-silent", "-o", "-Q", "theories", "V"] + mods, cwd=core.COQ, timeout=7200, check=False)
    os.makedirs(core.BUILD, exist_ok=True)
    with open(os.path.join(core.BUILD, "coqchk.log"), "w") as f:
        f.write(out)
    print(out[-3000:])
    print("coqchk rc=%d in %.0fs" % (rc, dt))
    return 0 if rc == 0 else 1
