"""Shared machinery of the /verif checks: building the Coq development, the
extracted model and the Go test binaries (from /repo's working tree, through
`go test -overlay`, nothing is written into /repo), running both sides on a
case file, comparing, shrinking, known findings, evidence."""
import fcntl
import hashlib
import json
import os
import random
import re
import shutil
import subprocess
import sys
import time

VERIF = os.path.dirname(os.path.dirname(os.path.abspath(__file__)))
REPO = os.environ.get("VERIF_REPO", "/repo")
BUILD = os.environ.get("VERIF_BUILD", os.path.join(VERIF, "build"))
SCRATCH = "VERIF_BUILD" in os.environ          # a run against a scratch worktree (seeded change, trial fix)
# A scratch run regenerates Cnn_Consts.v from the CHANGED code and rebuilds proofs against it: that must never
# touch the development under /verif/coq, so it works on a copy (timestamps kept: the build stays incremental).
COQ = os.path.join(BUILD, "coq") if SCRATCH else os.path.join(VERIF, "coq")
GOBIN = os.path.join(BUILD, "gobin")
EVID = os.environ.get("VERIF_EVID", os.path.join(VERIF, "evidence"))   # scratch runs (seeded changes) write elsewhere

GOENV = {
    "GOFLAGS": "-mod=mod",
    "GOPROXY": "off",
    "GOSUMDB": "off",
    "GOTOOLCHAIN": "local",
    "CGO_ENABLED": "0",
}


class HarnessError(Exception):
    """Our own apparatus failed (build error of the harness, time-out of our script).
    Reported as ERROR / exit 2, never as a violation."""


class CorrespondenceBroken(HarnessError):
    """The Go side of the correspondence check no longer BUILDS against /repo's working tree (the harness
    files live in the package under test and name its identifiers; setup has built them against the
    unchanged tree, so a compile error now comes from a change to the code: an identifier the model is
    tied to was renamed, removed or re-typed).  The property is then no longer shown to hold: reported as
    a violation naming the correspondence that no longer checks, ending in no-failing-input-found."""


def env(extra=None):
    e = dict(os.environ)
    e.update(GOENV)
    if extra:
        e.update(extra)
    return e


class Lock:
    def __init__(self, name):
        os.makedirs(BUILD, exist_ok=True)
        self.path = os.path.join(BUILD, "." + name + ".lock")

    def __enter__(self):
        self.f = open(self.path, "w")
        fcntl.flock(self.f, fcntl.LOCK_EX)
        return self

    def __exit__(self, *a):
        fcntl.flock(self.f, fcntl.LOCK_UN)
        self.f.close()


# --------------------------------------------------------------------------
# s-expressions
# --------------------------------------------------------------------------
_PRINTABLE = set(range(0x20, 0x7F)) - {0x22, 0x5C}


def sx(v):
    """python value -> case text.  int, bool, bytes/str, list/tuple."""
    if isinstance(v, bool):
        return "1" if v else "0"
    if isinstance(v, int):
        return str(v)
    if isinstance(v, str):
        v = v.encode("utf-8", "surrogateescape")
    if isinstance(v, (bytes, bytearray)):
        if len(v) > 0 and all(c in _PRINTABLE for c in v):
            return '"' + v.decode("ascii") + '"'
        return "#" + v.hex()
    if isinstance(v, (list, tuple)):
        return "(" + " ".join(sx(x) for x in v) + ")"
    if v is None:
        return "()"
    raise TypeError("cannot encode %r" % (v,))


def parse_sx(s):
    pos = 0
    n = len(s)

    def skip():
        nonlocal pos
        while pos < n and s[pos] in " \t\r\n":
            pos += 1

    def item():
        nonlocal pos
        skip()
        c = s[pos]
        if c == "(":
            pos += 1
            out = []
            while True:
                skip()
                if s[pos] == ")":
                    pos += 1
                    return out
                out.append(item())
        if c == "#":
            pos += 1
            st = pos
            while pos < n and s[pos] in "0123456789abcdefABCDEF":
                pos += 1
            return bytes.fromhex(s[st:pos])
        if c == '"':
            pos += 1
            st = pos
            while s[pos] != '"':
                pos += 1
            pos += 1
            return s[st:pos - 1].encode("ascii")
        st = pos
        while pos < n and s[pos] in "0123456789-+":
            pos += 1
        return int(s[st:pos])

    return item()


def pretty(v):
    """tree -> JSON-friendly structure for evidence samples."""
    if isinstance(v, (bytes, bytearray)):
        try:
            t = v.decode("ascii")
            if all(0x20 <= c < 0x7F for c in v):
                return t
        except UnicodeDecodeError:
            pass
        return "#" + v.hex()
    if isinstance(v, (list, tuple)):
        return [pretty(x) for x in v]
    return v


# --------------------------------------------------------------------------
# builds
# --------------------------------------------------------------------------
def run_cmd(cmd, cwd=None, timeout=1800, extra_env=None, check=True, capture=True):
    t0 = time.time()
    try:
        p = subprocess.run(cmd, cwd=cwd, env=env(extra_env), timeout=timeout,
                           stdout=subprocess.PIPE if capture else None,
                           stderr=subprocess.STDOUT if capture else None, text=True,
                           errors="replace")
    except subprocess.TimeoutExpired as ex:
        raise HarnessError("timeout after %ss: %s" % (timeout, " ".join(cmd))) from ex
    if check and p.returncode != 0:
        raise HarnessError("command failed (%d): %s\n%s" % (p.returncode, " ".join(cmd), (p.stdout or "")[-4000:]))
    return p.returncode, p.stdout or "", time.time() - t0


COQ_HEADER = ("-Q theories V\n"
              "-arg -w -arg -notation-overridden,-deprecated-hint-without-locality,-deprecated-syntactic-definition\n")


def coq_files():
    return sorted("theories/" + f for f in os.listdir(os.path.join(COQ, "theories")) if f.endswith(".v"))


def _sync_coqproject():
    """_CoqProject lists every theories/*.v (properties only add files)."""
    body = COQ_HEADER + "\n".join(coq_files()) + "\n"
    p = os.path.join(COQ, "_CoqProject")
    if not os.path.exists(p) or open(p).read() != body:
        with open(p, "w") as f:
            f.write(body)
        return True
    return False


def build_coq(keep_going=True, files=None):
    """Full .vo build (never -vos).  Returns (ok, log).  With keep_going, files that
    do not depend on a broken one are still built.  With `files` (module names), only those
    .vo files and what they depend on are (re)built, so one property's check neither waits
    for nor is broken by another property's proofs."""
    with Lock("coq"):
        changed = _sync_coqproject()
        if changed or not os.path.exists(os.path.join(COQ, "Makefile")):
            run_cmd(["coq_makefile", "-f", "_CoqProject", "-o", "Makefile"], cwd=COQ)
        cmd = ["timeout", "3000", "make", "-j16", "COQC=timeout 1500 coqc"] + (["-k"] if keep_going else [])
        if files:
            cmd += ["theories/%s.vo" % f for f in sorted(set(files) | {"Dispatch"})]
        rc, log, _ = run_cmd(cmd, cwd=COQ, timeout=3100, check=False)
        os.makedirs(BUILD, exist_ok=True)
        with open(os.path.join(BUILD, "coq-make.log"), "w") as f:
            f.write(log)
        return rc == 0, log


def vo_ok(name):
    """Is theories/<name>.vo present and at least as new as its source?"""
    v = os.path.join(COQ, "theories", name + ".v")
    vo = v + "o"
    return os.path.exists(vo) and os.path.getmtime(vo) >= os.path.getmtime(v)


def props_report(name):
    """Re-run coqc on theories/<name>.v (a Props file: only `exact` proofs) to capture the
    Print Assumptions output.  Returns (ok, theorems, assumptions_text)."""
    src = os.path.join(COQ, "theories", name + ".v")
    text = open(src).read()
    theorems = re.findall(r"^\s*Theorem\s+([A-Za-z0-9_']+)", text, re.M)
    with Lock("coq"):
        rc, out, _ = run_cmd(["timeout", "600", "coqc", "-Q", "theories", "V",
                              "-w", "-notation-overridden,-deprecated-hint-without-locality,-deprecated-syntactic-definition",
                              "theories/" + name + ".v"], cwd=COQ, timeout=700, check=False)
    return rc == 0, theorems, out


FORBIDDEN = re.compile(r"\b(Admitted|admit|Axiom|Axioms|Parameter|Parameters|Conjecture|Unset\s+Guard|bypass_check|"
                       r"Admit\s+Obligations|type-in-type|impredicative-set)\b")


def grep_forbidden(prefixes=None):
    """No Admitted/admit/Axiom/... anywhere in the development (comments included, to be blunt).
    With `prefixes` (e.g. ["C08"]) only the shared files and the files of those properties are
    searched, so that a property's check answers for its own files (and what it imports)."""
    hits = []
    files = coq_files()
    if prefixes:
        files = [f for f in files if not re.match(r"theories/C\d\d_", f) or any(os.path.basename(f).startswith(p + "_") for p in prefixes)]
    for f in files + ["Extract.v.tmpl"]:
        p = os.path.join(COQ, f)
        for i, l in enumerate(open(p), 1):
            # Variable/Hypothesis outside a section are checked by Print Assumptions instead.
            if FORBIDDEN.search(l):
                hits.append("%s:%d: %s" % (f, i, l.strip()))
    return hits


def build_model(prop):
    """Extract dispatch over the property's model tables and link it with ocaml/driver.ml
    -> build/<id>/modelrun."""
    with Lock("model." + prop.id):
        ex = os.path.join(BUILD, prop.id, "extract")
        os.makedirs(ex, exist_ok=True)
        models = list(prop.models)
        deps = [os.path.join(COQ, "theories", m + ".vo") for m in models + ["Dispatch"]] + [
            os.path.join(COQ, "Extract.v.tmpl"), os.path.join(VERIF, "ocaml", "driver.ml")]
        exe = os.path.join(BUILD, prop.id, "modelrun")
        for d in deps:
            if not os.path.exists(d) or (d.endswith(".vo") and os.path.getmtime(d) < os.path.getmtime(d[:-1])):
                raise HarnessError("%s missing or stale: the model itself does not compile (see build/coq-make.log)" % d)
        if os.path.exists(exe) and all(os.path.getmtime(exe) >= os.path.getmtime(d) for d in deps):
            return exe
        tmpl = open(os.path.join(COQ, "Extract.v.tmpl")).read()
        tables = " ++ ".join(m.split("_")[0].lower() + "_table" for m in models)
        with open(os.path.join(ex, "Extract.v"), "w") as f:
            f.write(tmpl.replace("IMPORTS", " ".join(models)).replace("TABLES", tables))
        shutil.copy(os.path.join(VERIF, "ocaml", "driver.ml"), os.path.join(ex, "driver.ml"))
        run_cmd(["timeout", "600", "coqc", "-Q", os.path.join(COQ, "theories"), "V", "Extract.v"], cwd=ex)
        run_cmd(["timeout", "600", "ocamlfind", "ocamlopt", "-O3", "-w", "-a", "model.mli", "model.ml", "driver.ml",
                 "-o", exe + ".tmp"], cwd=ex)
        os.replace(exe + ".tmp", exe)
        return exe


def _overlay(prop):
    """build/<id>/overlay.json: every file under harness/<id>/<pkg>/ plus an instantiated copy of
    the shared sx_test.go in each of those packages."""
    ov = {}
    root = os.path.join(VERIF, "harness", prop.id)
    gen = os.path.join(BUILD, prop.id, "gen")
    tmpl = open(os.path.join(VERIF, "harness", "common", "sx_test.go.tmpl")).read()
    for d, _, files in os.walk(root):
        gofiles = [f for f in files if f.endswith(".go")]
        if not gofiles:
            continue
        rel = os.path.relpath(d, root)
        pkgname = None
        for f in gofiles:
            if f.endswith("_test.go"):
                m = re.search(r"^package\s+(\w+)", open(os.path.join(d, f)).read(), re.M)
                if m:
                    pkgname = m.group(1)
            ov[os.path.join(REPO, rel, f)] = os.path.join(d, f)
        if pkgname is None:
            continue
        gd = os.path.join(gen, rel)
        os.makedirs(gd, exist_ok=True)
        gp = os.path.join(gd, "zz_verif_sx_test.go")
        body = tmpl.replace("package PACKAGE", "package " + pkgname)
        if not os.path.exists(gp) or open(gp).read() != body:
            with open(gp, "w") as f:
                f.write(body)
        ov[os.path.join(REPO, rel, "zz_verif_sx_test.go")] = gp
    path = os.path.join(BUILD, prop.id, "overlay.json")
    body = json.dumps({"Replace": ov}, indent=1, sort_keys=True)
    if not os.path.exists(path) or open(path).read() != body:
        with open(path, "w") as f:
            f.write(body)
    return path


def go_test_bin(prop, pkg, race=False):
    """Build the test binary of REPO/<pkg> from the current working tree with the property's
    verif overlay.  Always invoked (the Go build cache makes an unchanged rebuild cheap)."""
    name = pkg.strip("./").replace("/", "_") + (".race" if race else "") + ".test"
    gobin = os.path.join(BUILD, prop.id, "gobin")
    os.makedirs(gobin, exist_ok=True)
    out = os.path.join(gobin, name)
    with Lock("go." + prop.id + "." + name):
        ov = _overlay(prop)
        cmd = ["go", "test", "-c", "-tags", "verif", "-vet=off", "-overlay", ov, "-o", out]
        extra = None
        if race:
            cmd.insert(3, "-race")
            extra = {"CGO_ENABLED": "1"}
        cmd.append("./" + pkg.strip("./"))
        rc, log, _ = run_cmd(cmd, cwd=REPO, timeout=1500, check=False, extra_env=extra)
        if rc != 0:
            if re.search(r"\.go:\d+:\d+: ", log):          # compiler diagnostics (not a tool/IO failure)
                raise CorrespondenceBroken("go test -c failed for %s:\n%s" % (pkg, log[-6000:]))
            raise HarnessError("go test -c failed for %s:\n%s" % (pkg, log[-6000:]))
    return out


def go_build_overlay(prop, pkg, outname):
    """go build of a main package (possibly one that exists only in the overlay)."""
    bindir = os.path.join(BUILD, prop.id, "bin")
    os.makedirs(bindir, exist_ok=True)
    out = os.path.join(bindir, outname)
    with Lock("gobuild." + prop.id + "." + outname):
        run_cmd(["go", "build", "-tags", "verif", "-overlay", _overlay(prop), "-o", out, "./" + pkg.strip("./")],
                cwd=REPO, timeout=1500)
    return out


def go_build(pkg, outname):
    os.makedirs(os.path.join(BUILD, "bin"), exist_ok=True)
    out = os.path.join(BUILD, "bin", outname)
    with Lock("gobuild." + outname):
        run_cmd(["go", "build", "-o", out, "./" + pkg.strip("./")], cwd=REPO, timeout=1500)
    return out


def run_go(binpath, pkg, cases, out, timeout=900, extra_env=None, testname="TestVerifEval"):
    e = {"VERIF_CASES": cases, "VERIF_OUT": out}
    if extra_env:
        e.update(extra_env)
    if os.path.exists(out):
        os.remove(out)
    rc, log, dt = run_cmd([binpath, "-test.run", "^" + testname + "$", "-test.count=1",
                           "-test.timeout", "%ds" % timeout],
                          cwd=os.path.join(REPO, pkg.strip("./")), timeout=timeout + 30, extra_env=e, check=False)
    if rc != 0 or not os.path.exists(out):
        raise HarnessError("go side failed on %s (rc=%d):\n%s" % (cases, rc, log[-6000:]))
    return dt


def run_model(prop, cases, out, timeout=900):
    exe = os.path.join(BUILD, prop.id, "modelrun")
    rc, log, dt = run_cmd(["bash", "-c", "ulimit -s unlimited 2>/dev/null; exec timeout %d %s %s %s" % (timeout, exe, cases, out)],
                          timeout=timeout + 30, check=False)
    if rc != 0:
        raise HarnessError("model side failed on %s (rc=%d):\n%s" % (cases, rc, log[-4000:]))
    return dt


def read_results(path):
    """result file -> {id: line remainder}"""
    res = {}
    for line in open(path):
        line = line.rstrip("\n")
        if not line:
            continue
        # "(id rest...)": id is the first atom
        sp = line.index(" ") if " " in line else len(line) - 1
        res[line[1:sp]] = line[sp + 1:-1]
    return res


# --------------------------------------------------------------------------
# known findings
# --------------------------------------------------------------------------
def known_findings(pid):
    """KNOWN_FINDINGS.txt lines `known: property=Cnn class=<cls> <text>` -> {cls: text}"""
    out = {}
    p = os.path.join(VERIF, "KNOWN_FINDINGS.txt")
    if not os.path.exists(p):
        return out
    for l in open(p):
        m = re.match(r"known:\s+property=(\S+)\s+class=(\S+)\s+(.*)", l.strip())
        if m and m.group(1) == pid:
            out[m.group(2)] = m.group(3)
    return out


# --------------------------------------------------------------------------
# the generic differential check
# --------------------------------------------------------------------------
class Prop:
    """One property.  Subclasses fill in:
       id, props (Coq Props file name), coq_files (files whose .vo must build),
       packages {tag: repo-relative package dir}, kinds {case kind: package tag},
       generate(rng, tier) -> iterable of cases [kind, payload...]
       nontrivial(case, result_text) -> bool
       classify(case, go_res, model_res) -> known-finding class name or None
       extra(ctx) -> optional additional checks returning list of Violation
    """
    id = None
    props = None
    coq_files = ()
    packages = {}
    kinds = {}
    level = "proof"
    trusted_base = ()
    assumptions = ()
    rule = ""
    go_timeout = 900
    model_timeout = 900
    go_env = None
    consts = ()          # package tags whose TestVerifConsts regenerates <id>_Consts.v
    models = ()          # Coq model files whose cNN_table entries make up the extracted dispatch
    level_text = ""
    level_note = ""
    technique = ""

    def generate(self, rng, tier):
        return []

    def corpus(self):
        d = os.path.join(VERIF, "corpus", self.id)
        out = []
        if os.path.isdir(d):
            for f in sorted(os.listdir(d)):
                if f.endswith(".case"):
                    for line in open(os.path.join(d, f)):
                        line = line.strip()
                        if line and not line.startswith(";"):
                            c = parse_sx(line)
                            out.append([c[0].decode()] + c[2:])
        return out

    def nontrivial(self, case, res):
        return True

    def classify(self, case, go_res, model_res):
        return None

    def describe(self, case, go_res, model_res):
        return "implementation and proved model disagree"

    def extra(self, ctx):
        return []


def _scratch_coq():
    if SCRATCH and os.path.isdir(COQ):
        # a scratch build directory that is used again: bring its sources up to date with /verif/coq (a stale
        # copy would compare the current harness with an old model)
        with Lock("coq"):
            run_cmd(["rsync", "-a", "--include=*/", "--include=*.v", "--include=_CoqProject", "--include=Extract.v.tmpl",
                     "--exclude=*", os.path.join(VERIF, "coq") + "/", COQ + "/"], check=False)
    if SCRATCH and not os.path.isdir(COQ):
        os.makedirs(BUILD, exist_ok=True)
        with Lock("coq"):     # the scratch lock; the source tree is only read
            if not os.path.isdir(COQ):
                run_cmd(["cp", "-a", os.path.join(VERIF, "coq"), COQ + ".tmp"])
                os.rename(COQ + ".tmp", COQ)
                for f in ("Makefile", "Makefile.conf", ".Makefile.d"):
                    try:
                        os.remove(os.path.join(COQ, f))
                    except OSError:
                        pass


class Ctx:
    def __init__(self, prop, tier, seed):
        _scratch_coq()
        self.prop, self.tier, self.seed = prop, tier, seed
        self.work = os.path.join(BUILD, prop.id, "run")
        shutil.rmtree(self.work, ignore_errors=True)
        os.makedirs(self.work, exist_ok=True)
        self.bins = {}
        self.notes = {}
        self.go_unstable = False

    def bin(self, tag):
        if tag not in self.bins:
            self.bins[tag] = go_test_bin(self.prop, self.prop.packages[tag])
        return self.bins[tag]

    def _run_go_once(self, tag, lines, label, timeout):
        prop = self.prop
        cp = os.path.join(self.work, "%s.%s.cases" % (label, tag))
        with open(cp, "w") as f:
            f.write("\n".join(lines) + "\n")
        go = os.path.join(self.work, "%s.%s.go.out" % (label, tag))
        try:
            run_go(self.bin(tag), prop.packages[tag], cp, go, timeout=timeout, extra_env=prop.go_env)
        except HarnessError as ex:
            return None, str(ex)
        return read_results(go), None

    def _run_go_resilient(self, tag, lines, label):
        """Run the Go side on `lines`.  When the test binary dies or hangs as a whole (a panic in a goroutine
        the harness cannot recover, a deadlock, os.Exit), the culprit case is isolated by bisection, confirmed
        by running it alone twice, and answered `(crash)` -- which the model never answers, so it is reported
        as a disagreement with that case as the replay.  A failure that cannot be pinned on one reproducible
        case stays what it is: a failure of our own apparatus (ERROR)."""
        res, err = self._run_go_once(tag, lines, label, self.prop.go_timeout)
        if err is None:
            return res
        first_err = err
        short = min(self.prop.go_timeout, 150)
        out = {}
        remaining = list(lines)
        for _ in range(3):
            def isolate(ls):
                if len(ls) == 1:
                    r, e = self._run_go_once(tag, ls, label + ".iso", short)
                    if e is None:
                        return None
                    r, e = self._run_go_once(tag, ls, label + ".iso", short)
                    return ls[0] if e is not None else None
                a, b = ls[:len(ls) // 2], ls[len(ls) // 2:]
                r, e = self._run_go_once(tag, a, label + ".iso", short)
                if e is not None:
                    return isolate(a)
                r, e = self._run_go_once(tag, b, label + ".iso", short)
                if e is not None:
                    return isolate(b)
                return None
            bad = isolate(remaining)
            if bad is None:
                raise HarnessError(first_err)
            cid = bad.split(" ")[1].rstrip(")")           # ("kind" id payload...)
            out[cid] = "(#6372617368)"                    # = vCrash() of the Go harness / sx_crash of the model
            self.notes.setdefault("go_side_died_on", []).append(bad[:300])
            remaining = [l for l in remaining if l is not bad]
            if not remaining:
                return out
            res, err = self._run_go_once(tag, remaining, label, self.prop.go_timeout)
            if err is None:
                out.update(res)
                return out
        # more than three cases kill the binary: report the isolated ones; the rest of this batch stays
        # unevaluated (run_check does not count an unevaluated case as a disagreement in that situation)
        self.go_unstable = True
        self.notes["go_side_unstable"] = "more than 3 cases of one batch kill or hang the Go test binary; the batch was not evaluated completely"
        return out

    def eval_both(self, cases, label="batch"):
        """cases: list of [kind, payload...] -> (go_results, model_results) as lists of text"""
        prop = self.prop
        allp = os.path.join(self.work, label + ".cases")
        by_tag = {}
        with open(allp, "w") as f:
            for i, c in enumerate(cases):
                line = sx([c[0], i] + list(c[1:]))
                f.write(line + "\n")
                by_tag.setdefault(prop.kinds[c[0]], []).append(line)
        mo = os.path.join(self.work, label + ".model.out")
        tm = run_model(prop, allp, mo, timeout=prop.model_timeout)
        mres = read_results(mo)
        gres = {}
        tg = 0.0
        for tag, lines in by_tag.items():
            t1 = time.time()
            gres.update(self._run_go_resilient(tag, lines, label))
            tg += time.time() - t1
        self.notes["t_model_s"] = round(self.notes.get("t_model_s", 0) + tm, 2)
        self.notes["t_go_s"] = round(self.notes.get("t_go_s", 0) + tg, 2)
        g = [gres.get(str(i)) for i in range(len(cases))]
        m = [mres.get(str(i)) for i in range(len(cases))]
        return g, m


def regen_consts(ctx):
    """If the property names packages in `consts`, their TestVerifConsts prints Coq definitions of
    the constants/tables the compiled code uses; they become coq/theories/<id>_Consts.v (rewritten
    only when different, so an unchanged tree causes no rebuild)."""
    prop = ctx.prop
    if not prop.consts:
        return
    body = ("(* %s_Consts.v - REGENERATED on every run from the compiled Go code by TestVerifConsts\n"
            "   (harness/%s); do not edit. *)\nFrom Coq Require Import ZArith NArith List.\nImport ListNotations.\n" % (prop.id, prop.id))
    for tag in prop.consts:
        out = os.path.join(ctx.work, "consts.%s.out" % tag)
        run_go(ctx.bin(tag), prop.packages[tag], "/dev/null", out, timeout=120, testname="TestVerifConsts")
        body += open(out).read()
    p = os.path.join(COQ, "theories", prop.id + "_Consts.v")
    with Lock("coq"):
        if not os.path.exists(p) or open(p).read() != body:
            with open(p, "w") as f:
                f.write(body)


def _shrink_candidates(v):
    """smaller variants of a tree (lists lose elements, byte strings shrink, ints move to 0)"""
    if isinstance(v, (list, tuple)):
        v = list(v)
        for i in range(len(v)):
            yield v[:i] + v[i + 1:]
        for i in range(len(v)):
            for c in _shrink_candidates(v[i]):
                yield v[:i] + [c] + v[i + 1:]
    elif isinstance(v, (bytes, bytearray)):
        if len(v) > 0:
            yield v[:len(v) // 2]
            yield v[1:]
            yield v[:-1]
    elif isinstance(v, str):
        if len(v) > 0:
            yield v[:len(v) // 2]
            yield v[1:]
            yield v[:-1]
    elif isinstance(v, bool):
        return
    elif isinstance(v, int):
        if v != 0:
            yield 0
            if abs(v) > 1:
                yield v // 2
            yield v - 1 if v > 0 else v + 1


def shrink(ctx, case, still_fails, budget=40, width=200):
    """greedy delta debugging on the payload; still_fails(go, model) decides."""
    kind, payload = case[0], list(case[1:])
    rounds = 0
    while rounds < budget:
        rounds += 1
        cands = []
        seen = set()
        for c in _shrink_candidates(payload):
            k = sx(c)
            if k in seen:
                continue
            seen.add(k)
            cands.append(c)
            if len(cands) >= width:
                break
        if not cands:
            break
        try:
            g, m = ctx.eval_both([[kind] + c for c in cands], label="shrink")
        except HarnessError:
            break
        hit = None
        for c, gr, mr in zip(cands, g, m):
            if mr is not None and "6261642d63617365" in mr:  # "bad-case": ill-formed for the model
                continue
            if gr is not None and "6261642d63617365" in gr:
                continue
            if still_fails(gr, mr):
                hit = c
                break
        if hit is None:
            break
        payload = hit
    return [kind] + payload


class Violation:
    def __init__(self, text, replay_body, tail=""):
        self.text, self.replay_body, self.tail = text, replay_body, tail


def write_evidence(pid, ev):
    os.makedirs(EVID, exist_ok=True)
    with open(os.path.join(EVID, pid + ".json"), "w") as f:
        json.dump(ev, f, indent=1, sort_keys=True)
        f.write("\n")


def run_check(prop, tier, seed, replay=None):
    t0 = time.time()
    ctx = Ctx(prop, tier, seed)
    rng = random.Random(seed * 1000003 + int(hashlib.sha1(prop.id.encode()).hexdigest()[:6], 16))
    violations = []
    known_lines = []
    out_dir = os.path.join(BUILD, "replay")
    os.makedirs(out_dir, exist_ok=True)

    # 0. constants regenerated from the compiled Go code into coq/theories/<id>_Consts.v
    regen_consts(ctx)

    # 1. Coq: full build, forbidden-vernacular grep, property theorems + assumptions
    used = sorted({m.split("_")[0] for m in list(prop.coq_files) + list(prop.models) if re.match(r"C\d\d_", m)} | {prop.id})
    forb = grep_forbidden(used)
    coq_ok, coq_log = build_coq(files=list(prop.coq_files) + list(prop.models) + ([prop.props] if prop.props else []))
    props_ok, theorems, assumptions_out = (False, [], "")
    broken = [f for f in prop.coq_files if not vo_ok(f)]
    if not broken and prop.props:
        props_ok, theorems, assumptions_out = props_report(prop.props)
    closed = assumptions_out.count("Closed under the global context")
    axioms = sorted(set(re.findall(r"^([A-Za-z_][A-Za-z0-9_.']*)\s*:", assumptions_out.split("Axioms:", 1)[1], re.M))) \
        if "Axioms:" in assumptions_out else []
    build_model(prop)

    # 2. differential correspondence
    if replay:
        cases = []
        for line in open(replay):
            line = line.strip()
            if line and not line.startswith(";"):
                c = parse_sx(line)
                cases.append([c[0].decode()] + c[2:])
    else:
        cases = prop.corpus() + list(prop.generate(rng, tier))
    g, m = ctx.eval_both(cases, "main") if cases else ([], [])
    mism = [i for i in range(len(cases)) if g[i] != m[i] and not (g[i] is None and ctx.go_unstable)]
    if replay:
        for i, c in enumerate(cases):
            print("case   %s" % sx(c))
            print(" impl  %s" % g[i])
            print(" model %s" % m[i])
        print("replay: %d case(s), %d disagreement(s)" % (len(cases), len(mism)))
    kf = known_findings(prop.id)
    seen_classes = {}
    reported = 0
    for i in mism:
        cls = prop.classify(cases[i], g[i], m[i])
        if cls is not None and cls in kf:
            seen_classes.setdefault(cls, cases[i])
            continue
        if reported >= 3:
            reported += 1
            continue
        reported += 1
        gi, mi = g[i], m[i]
        small = cases[i]
        if not replay:
            small = shrink(ctx, cases[i], lambda gr, mr: gr != mr and prop.classify(cases[i], gr, mr) not in kf)
            (gs,), (ms,) = ctx.eval_both([small], "final")
            if gs != ms:
                gi, mi = gs, ms
            else:
                small = cases[i]
        body = "; %s: %s\n; impl : %s\n; model: %s\n; replay: ./check %s --replay <this file>\n%s\n" % (
            prop.id, prop.describe(small, gi, mi), gi, mi, prop.id, sx([small[0], 0] + list(small[1:])))
        text = "disagreement on %s" % sx(small)[:300]
        if not any(v.text == text for v in violations):
            violations.append(Violation(text, body))
    for cls, c in seen_classes.items():
        known_lines.append("KNOWN-FINDING: property=%s class=%s %s (e.g. %s)" % (prop.id, cls, kf[cls], sx(c)[:200]))

    # 3. property-specific extra checks (live runs etc.)
    for v in prop.extra(ctx):
        violations.append(v)

    # 4. proof obligations
    if forb:
        violations.append(Violation("forbidden vernacular in the development",
                                    "; forbidden vernacular:\n; " + "\n; ".join(forb) + "\n", "no-failing-input-found"))
    if (broken or not props_ok or (closed + (1 if axioms else 0)) < len(theorems)) and prop.props:
        if not violations:
            what = "broken: " + ", ".join(broken) if broken else "property theorems in %s.v no longer check" % prop.props
            tail = coq_log[-3000:] if broken else assumptions_out[-3000:]
            violations.append(Violation(what, "; %s: %s\n; %s\n" % (prop.id, what, tail.replace("\n", "\n; ")),
                                        "no-failing-input-found"))

    # evidence
    distinct = set()
    nontriv = 0
    for i, c in enumerate(cases):
        k = sx(c)
        if k in distinct:
            continue
        distinct.add(k)
        if g[i] is not None and prop.nontrivial(c, g[i]):
            nontriv += 1
    kinds_hist = {}
    for c in cases:
        kinds_hist[c[0]] = kinds_hist.get(c[0], 0) + 1
    samples = []
    step = max(1, len(cases) // 5)
    for i in range(0, len(cases), step):
        samples.append({"case": pretty(cases[i]), "impl": g[i], "model": m[i]})
        if len(samples) >= 6:
            break
    ev = {
        "property_id": prop.id,
        "tier": tier,
        "seed": seed,
        "level": prop.level,
        "coverage": {
            "obligations": len(theorems),
            "discharged": len(theorems) if (props_ok and not broken) else 0,
            "theorems": theorems,
            "checker_cmd": "make -C /verif/coq (coqc 8.16.1, full .vo build) && coqc theories/%s.v" % prop.props,
            "trusted_base": list(prop.trusted_base),
            "axioms_reported": axioms,
            "closed_under_global_context": closed,
            "evaluations": len(cases),
            "distinct_nontrivial": nontriv,
            "rule": prop.rule,
            "samples": samples or [{"note": "no cases"}],
            "traces_validated_against_impl": len(cases),
            "disagreements": len(mism),
            "case_kinds": kinds_hist,
            "known_finding_classes_reproduced": sorted(seen_classes),
        },
        "assumptions": list(prop.assumptions),
        "wall_s": round(time.time() - t0, 2),
        "violations": len(violations),
    }
    ev["coverage"].update(ctx.notes)
    if not replay:
        write_evidence(prop.id, ev)

    for l in known_lines:
        print(l)
    if violations:
        for n, v in enumerate(violations):
            rp = os.path.join(out_dir, "%s-%d.case" % (prop.id, n))
            with open(rp, "w") as f:
                f.write(v.replay_body)
            print("%s: %s" % (prop.id, v.text))
            print(("VIOLATION property=%s replay=%s %s" % (prop.id, rp, v.tail)).rstrip())
        return 1
    print("%s: ok  tier=%s cases=%d nontrivial=%d theorems=%d/%d wall=%.1fs" % (
        prop.id, tier, len(cases), nontriv, ev["coverage"]["discharged"], len(theorems), time.time() - t0))
    return 0
