(* driver.ml — trusted glue: tokenises one s-expression per line into the
   extracted Sx.sx type, calls the extracted Dispatch.dispatch, prints the
   result canonically (integers in decimal, byte strings always as #hex). *)
open Model

let rec pos_of_int n = if n = 1 then XH else if n land 1 = 0 then XO (pos_of_int (n lsr 1)) else XI (pos_of_int (n lsr 1))
let n_of_int n = if n = 0 then N0 else Npos (pos_of_int n)
let rec int_of_pos = function XH -> 1 | XO p -> 2 * int_of_pos p | XI p -> 2 * int_of_pos p + 1
let int_of_n = function N0 -> 0 | Npos p -> int_of_pos p

(* integers: small ones directly, anything else through the extracted decimal helpers *)
let z_of_string (s : Stdlib.String.t) : z =
  let len = Stdlib.String.length s in
  let neg = len > 0 && s.[0] = '-' in
  let start = if neg || (len > 0 && s.[0] = '+') then 1 else 0 in
  if len - start <= 17 then begin
    let v = int_of_string (Stdlib.String.sub s start (len - start)) in
    if v = 0 then Z0 else if neg then Zneg (pos_of_int v) else Zpos (pos_of_int v)
  end else begin
    let ds = ref [] in
    for i = len - 1 downto start do ds := n_of_int (Char.code s.[i] - 48) :: !ds done;
    z_of_dec neg !ds
  end

let string_of_z (v : z) : Stdlib.String.t =
  let (neg, ds) = dec_of_Z v in
  let b = Buffer.create 24 in
  if neg then Buffer.add_char b '-';
  List.iter (fun d -> Buffer.add_char b (Char.chr (48 + int_of_n d))) ds;
  Buffer.contents b

exception Parse of Stdlib.String.t

let parse (s : Stdlib.String.t) : sx =
  let n = Stdlib.String.length s in
  let i = ref 0 in
  let skip () = while !i < n && (s.[!i] = ' ' || s.[!i] = '\t' || s.[!i] = '\r' || s.[!i] = '\n') do incr i done in
  let hexv c = match c with
    | '0'..'9' -> Char.code c - 48 | 'a'..'f' -> Char.code c - 87 | 'A'..'F' -> Char.code c - 55
    | _ -> raise (Parse "hex") in
  let rec item () : sx =
    skip ();
    if !i >= n then raise (Parse "eof");
    match s.[!i] with
    | '(' ->
      incr i;
      let acc = ref [] in
      let fin = ref false in
      while not !fin do
        skip ();
        if !i >= n then raise (Parse "unclosed");
        if s.[!i] = ')' then (incr i; fin := true) else acc := item () :: !acc
      done;
      L (List.rev !acc)
    | '#' ->
      incr i;
      let acc = ref [] in
      while !i + 1 < n && (match s.[!i] with '0'..'9' | 'a'..'f' | 'A'..'F' -> true | _ -> false) do
        acc := n_of_int (hexv s.[!i] * 16 + hexv s.[!i+1]) :: !acc; i := !i + 2
      done;
      B (List.rev !acc)
    | '"' ->
      incr i;
      let acc = ref [] in
      while !i < n && s.[!i] <> '"' do acc := n_of_int (Char.code s.[!i]) :: !acc; incr i done;
      if !i >= n then raise (Parse "unclosed string");
      incr i;
      B (List.rev !acc)
    | _ ->
      let st = !i in
      while !i < n && (match s.[!i] with '0'..'9' | '-' | '+' -> true | _ -> false) do incr i done;
      if !i = st then raise (Parse ("atom at " ^ string_of_int st));
      I (z_of_string (Stdlib.String.sub s st (!i - st)))
  in
  item ()

let rec print buf (v : sx) =
  match v with
  | I z -> Buffer.add_string buf (string_of_z z)
  | B b ->
    Buffer.add_char buf '#';
    List.iter (fun x -> Buffer.add_string buf (Printf.sprintf "%02x" (int_of_n x))) b
  | L l ->
    Buffer.add_char buf '(';
    List.iteri (fun k x -> if k > 0 then Buffer.add_char buf ' '; print buf x) l;
    Buffer.add_char buf ')'

let () =
  let ic = if Array.length Sys.argv > 1 then open_in Sys.argv.(1) else stdin in
  let oc = if Array.length Sys.argv > 2 then open_out Sys.argv.(2) else stdout in
  let buf = Buffer.create 65536 in
  (try
    while true do
      let line = input_line ic in
      if Stdlib.String.length line > 0 then begin
        Buffer.clear buf;
        (match (try Some (parse line) with Parse _ -> None) with
         | Some c -> print buf (dispatch c)
         | None -> Buffer.add_string buf "(#6261642d6c696e65)");
        Buffer.add_char buf '\n';
        Buffer.output_buffer oc buf
      end
    done
  with End_of_file -> ());
  close_out oc
