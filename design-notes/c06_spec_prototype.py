import itertools, random
# enums: version 1..3, protocol 1..3 (1 connect,2 grpc,3 web), codec 1..3 (3=text), compression 1..6, stream 1..5 (4 half, 5 full)
class Err(Exception): pass

def resolve_features(F):
    r=dict(versions=list(F['versions']),protocols=list(F['protocols']),codecs=list(F['codecs']),compressions=list(F['compressions']),streams=list(F['streams']))
    def flag(name,default):
        v=F.get(name)
        return default if v is None else v
    r['h2c']=flag('h2c',True); r['tls']=flag('tls',True); r['certs']=flag('certs',False); r['trailers']=flag('trailers',True)
    r['half1']=flag('half1',False); r['get']=flag('get',True); r['limit']=flag('limit',True)
    if r['certs'] and not r['tls']: raise Err('certs w/o tls')
    if len(r['versions'])==0:
        r['versions']=[1,2] if (r['tls'] or r['h2c']) else [1]
    elif F.get('h2c') is True and 2 not in r['versions']:
        raise Err('h2c w/o http2')
    inc3=3 in r['versions']
    if inc3 and not r['tls']: raise Err('h3 w/o tls')
    inc2=2 in r['versions']
    can2=r['h2c'] or r['tls']
    if inc2 and not can2: raise Err('h2 w/o h2c/tls')
    incg=2 in r['protocols']
    if incg and not r['trailers']: raise Err('grpc w/o trailers')
    if incg and not inc2: raise Err('grpc w/o h2')
    cang=r['trailers'] and inc2
    if len(r['protocols'])==0:
        r['protocols']=[1,2,3] if cang else [1,3]
    if len(r['codecs'])==0: r['codecs']=[1,2]
    if len(r['compressions'])==0: r['compressions']=[1,2]
    incfull=5 in r['streams']
    only1=(not inc2) and (not inc3)
    if incfull and only1: raise Err('full w/ only h1')
    inchalf=4 in r['streams']
    if inchalf and only1 and not r['half1']: raise Err('half w/ only h1')
    if len(r['streams'])==0:
        if only1:
            r['streams']=[1,2,3,4] if r['half1'] else [1,2,3]
        else: r['streams']=[1,2,3,4,5]
    return r

def compute(f,tlsC,certC,limC):
    if not tlsC: tlsC=[False,True] if f['tls'] else [False]
    if not certC: certC=[False,True] if f['certs'] else [False]
    if not limC: limC=[False,True] if f['limit'] else [False]
    out=set()
    for v in f['versions']:
        for tls in tlsC:
            if (not tls) and (v==3 or (v==2 and not f['h2c'])): continue
            for cert in certC:
                if cert and not tls: continue
                for p in f['protocols']:
                    if p==2 and v!=2: continue
                    gets=[False,True] if (p==1 and f['get']) else [False]
                    for s in f['streams']:
                        if s==4 and (not f['half1']) and v==1: continue
                        if s==5 and v==1: continue
                        for c in f['codecs']:
                            if c==3: continue
                            for z in f['compressions']:
                                for g in gets:
                                    for l in limC:
                                        out.add((v,p,c,z,s,tls,cert,g,l))
    return out

def only(l,x): return len(l)>0 and all(e==x for e in l)

def resolve_case(f,e):
    imp=dict(f)
    if e['version']!=0:
        usingTLS=(e['tls'] is True) or (e['tls'] is None and f['tls'])
        if e['version']==2:
            if (not usingTLS) and (not f['h2c']): raise Err('case h2 no tls no h2c')
        elif e['version']==3:
            if not usingTLS: raise Err('case h3 no tls')
        imp['versions']=[e['version']]
    if e['protocol']!=0:
        if e['protocol']==2 and 2 not in imp['versions']: raise Err('case grpc no h2')
        imp['protocols']=[e['protocol']]
    if e['codec']!=0: imp['codecs']=[e['codec']]
    if e['compression']!=0: imp['compressions']=[e['compression']]
    if e['stream']!=0:
        if e['stream']==4:
            if (not f['half1']) and only(imp['versions'],1): raise Err('case half only h1')
        elif e['stream']==5:
            if only(imp['versions'],1): raise Err('case full only h1')
        imp['streams']=[e['stream']]
    tlsC=[];certC=[];limC=[]
    if e['tls'] is not None: tlsC=[e['tls']]
    if e['certs'] is not None:
        if e['tls'] is False: raise Err('case certs but not tls')
        if (True not in tlsC) and not f['tls']: raise Err('case certs tls unsupported')
        certC=[e['certs']]
    if e['limit'] is not None: limC=[e['limit']]
    return compute(imp,tlsC,certC,limC)

def parse(cfg):
    f=resolve_features(cfg['features'])
    cases=compute(f,[],[],[])
    for e in cfg['include']: cases|=resolve_case(f,e)
    for e in cfg['exclude']: cases-=resolve_case(f,e)
    if not cases: raise Err('zero')
    return cases

# ---------------- declarative spec ----------------
UNIVERSE=[(v,p,c,z,s,tls,cert,g,l) for v in (1,2,3) for p in (1,2,3) for c in (1,2) for z in range(1,7) for s in range(1,6)
          for tls in (False,True) for cert in (False,True) for g in (False,True) for l in (False,True)]

def valid_case(f,c):
    v,p,cc,z,s,tls,cert,g,l=c
    return ((p!=2 or v==2) and (v!=3 or tls) and (not (v==2 and not tls) or f['h2c']) and (not cert or tls)
            and (s!=5 or v!=1) and (not (s==4 and v==1) or f['half1']) and (not g or (p==1 and f['get'])))

def in_features(f,c):
    v,p,cc,z,s,tls,cert,g,l=c
    return (v in f['versions'] and p in f['protocols'] and cc in f['codecs'] and z in f['compressions'] and s in f['streams']
            and (not tls or f['tls']) and (not cert or f['certs']) and (not l or f['limit']) and valid_case(f,c))

def matches(f,e,c):
    v,p,cc,z,s,tls,cert,g,l=c
    def ax(field,val,sup): return (val==e[field]) if e[field]!=0 else (val in sup)
    def fl(field,val,sup): return (val==e[field]) if e[field] is not None else ((not val) or sup)
    return (ax('version',v,f['versions']) and ax('protocol',p,f['protocols']) and ax('codec',cc,f['codecs'])
            and ax('compression',z,f['compressions']) and ax('stream',s,f['streams'])
            and fl('tls',tls,f['tls']) and fl('certs',cert,f['certs']) and fl('limit',l,f['limit']) and valid_case(f,c))

def feat_contradictory(F):
    def flag(name,default):
        v=F.get(name); return default if v is None else v
    h2c=flag('h2c',True); tls=flag('tls',True); certs=flag('certs',False); trailers=flag('trailers',True); half1=flag('half1',False)
    vers=F['versions'] if F['versions'] else ([1,2] if (tls or h2c) else [1])
    if certs and not tls: return True
    if F['versions'] and F.get('h2c') is True and 2 not in vers: return True
    if 3 in vers and not tls: return True
    if 2 in vers and not (h2c or tls): return True
    if 2 in F['protocols'] and (not trailers or 2 not in vers): return True
    only1 = 2 not in vers and 3 not in vers
    if 5 in F['streams'] and only1: return True
    if 4 in F['streams'] and only1 and not half1: return True
    return False

def entry_contradictory(f,e):
    usingTLS=(e['tls'] is True) or (e['tls'] is None and f['tls'])
    vers=[e['version']] if e['version']!=0 else f['versions']
    if e['version']==2 and not usingTLS and not f['h2c']: return True
    if e['version']==3 and not usingTLS: return True
    if e['protocol']==2 and 2 not in vers: return True
    if e['stream']==4 and not f['half1'] and only(vers,1): return True
    if e['stream']==5 and only(vers,1): return True
    if e['certs'] is not None and e['tls'] is False: return True
    if e['certs'] is not None and e['tls'] is not True and not f['tls']: return True
    return False

def spec(cfg):
    if feat_contradictory(cfg['features']): return 'err'
    f=resolve_features(cfg['features'])   # defaults only (no error possible now)
    if any(entry_contradictory(f,e) for e in cfg['include']+cfg['exclude']): return 'err'
    S={c for c in UNIVERSE if (in_features(f,c) or any(matches(f,e,c) for e in cfg['include'])) and not any(matches(f,e,c) for e in cfg['exclude'])}
    return S if S else 'err'

def rnd_list(rng,vals):
    k=rng.choice([0,0,1,1,2,len(vals)])
    return rng.sample(vals,min(k,len(vals)))
def rnd_flag(rng): return rng.choice([None,None,True,False])
def rnd_cfg(rng):
    F=dict(versions=rnd_list(rng,[1,2,3]),protocols=rnd_list(rng,[1,2,3]),codecs=rnd_list(rng,[1,2,3]),compressions=rnd_list(rng,[1,2,3,4,5,6]),streams=rnd_list(rng,[1,2,3,4,5]))
    for n in ['h2c','tls','certs','trailers','half1','get','limit']: F[n]=rnd_flag(rng)
    def ent():
        return dict(version=rng.choice([0,0,1,2,3]),protocol=rng.choice([0,0,1,2,3]),codec=rng.choice([0,0,1,2,3]),compression=rng.choice([0,0,0,1,2,5]),stream=rng.choice([0,0,1,4,5]),tls=rnd_flag(rng),certs=rnd_flag(rng),limit=rnd_flag(rng))
    return dict(features=F,include=[ent() for _ in range(rng.choice([0,0,1,2]))],exclude=[ent() for _ in range(rng.choice([0,0,1,2]))])

if __name__=='__main__':
    rng=random.Random(7)
    bad=0; n=0; errs=0
    for i in range(40000):
        cfg=rnd_cfg(rng)
        try: got=parse(cfg)
        except Err as e: got='err'
        want=spec(cfg)
        n+=1
        if got=='err': errs+=1
        if got!=want:
            bad+=1
            if bad<=6:
                print("MISMATCH",cfg)
                if got=='err' or want=='err': print("  got",got if got=='err' else len(got),"want",want if want=='err' else len(want))
                else:
                    print("  extra in code",sorted(got-want)[:4],"missing",sorted(want-got)[:4])
    print("n",n,"errs",errs,"mismatch",bad)
