From Coq Require Import List Bool Lia.
Import ListNotations.

Section S.
Variable comp : Type.
Variable ceqb : comp -> comp -> bool.
Hypothesis ceqb_spec : forall a b, reflect (a = b) (ceqb a b).
Variables star dstar : comp.
Hypothesis star_neq : star <> dstar.

Inductive trie := Node : bool -> list (comp * trie) -> trie.

(* lookup of a child, returning the partially applied matcher *)
Fixpoint tmatch (t : trie) (cs : list comp) {struct t} : bool :=
  match t with
  | Node present children =>
    let find := fix find (l : list (comp*trie)) (k : comp) : option (list comp -> bool) :=
      match l with
      | [] => None
      | (k', c) :: l' => if ceqb k k' then Some (tmatch c) else find l' k
      end in
    match cs with
    | [] => present || match find children dstar with Some m => m [] | None => false end
    | first :: rest =>
      (match find children first with Some m => m rest | None => false end)
      || (match find children star with Some m => m rest | None => false end)
      || (match find children dstar with
          | None => false
          | Some m =>
            (fix loop (l : list comp) : bool :=
               m l || match l with [] => false | _ :: l' => loop l' end) cs
          end)
    end
  end.

(* first-match lookup as a separate function, for stating lemmas *)
Fixpoint lookup (l : list (comp*trie)) (k : comp) : option trie :=
  match l with
  | [] => None
  | (k', c) :: l' => if ceqb k k' then Some c else lookup l' k
  end.

Fixpoint suffix_any (m : list comp -> bool) (l : list comp) : bool :=
  m l || match l with [] => false | _ :: l' => suffix_any m l' end.

Definition child_match (ch : list (comp*trie)) (k : comp) (cs : list comp) : bool :=
  match lookup ch k with Some c => tmatch c cs | None => false end.

Lemma tmatch_unfold present ch cs :
  tmatch (Node present ch) cs =
  match cs with
  | [] => present || child_match ch dstar []
  | first :: rest =>
      child_match ch first rest || child_match ch star rest ||
      match lookup ch dstar with None => false | Some c => suffix_any (tmatch c) cs end
  end.
Proof.
  unfold child_match.
  assert (H : forall l k,
    (fix find (l : list (comp*trie)) (k : comp) : option (list comp -> bool) :=
      match l with
      | [] => None
      | (k', c) :: l' => if ceqb k k' then Some (tmatch c) else find l' k
      end) l k = option_map tmatch (lookup l k)).
  { induction l as [|[k' c] l IH]; intros k; simpl; [reflexivity|].
    destruct (ceqb k k'); [reflexivity|apply IH]. }
  assert (L : forall (m : list comp -> bool) l,
    (fix loop (l : list comp) : bool :=
       m l || match l with [] => false | _ :: l' => loop l' end) l = suffix_any m l).
  { intros m l; induction l as [|x l IHl]; cbn [suffix_any]; [reflexivity|rewrite IHl; reflexivity]. }
  destruct cs as [|first rest]; cbn [tmatch]; rewrite !H.
  - destruct (lookup ch dstar); reflexivity.
  - destruct (lookup ch first), (lookup ch star), (lookup ch dstar); cbn [option_map];
      rewrite ?L; reflexivity.
Qed.

(* the glob relation on raw components: star / dstar are the two wildcard components *)
Inductive glob : list comp -> list comp -> Prop :=
| g_nil : glob [] []
| g_lit c p n : glob p n -> glob (c :: p) (c :: n)        (* literal equality; also covers name comps equal to star/dstar *)
| g_star p c n : glob p n -> glob (star :: p) (c :: n)
| g_dstar0 p n : glob p n -> glob (dstar :: p) n
| g_dstar1 p c n : glob (dstar :: p) n -> glob (dstar :: p) (c :: n).

(* patterns stored in a trie (first-match children only: shadowed duplicates are unreachable) *)
Inductive stored : trie -> list comp -> Prop :=
| st_here ch : stored (Node true ch) []
| st_child b ch k c p : lookup ch k = Some c -> stored c p -> stored (Node b ch) (k :: p).

Lemma trie_ind' (P : trie -> Prop) :
  (forall b ch, Forall (fun kc => P (snd kc)) ch -> P (Node b ch)) -> forall t, P t.
Proof.
  intros H. fix IH 1. intros [b ch]. apply H.
  induction ch as [|[k c] ch IHch]; constructor; [apply IH|apply IHch].
Qed.

Lemma lookup_In ch k c : lookup ch k = Some c -> In (k, c) ch \/ exists k', In (k', c) ch.
Proof.
  induction ch as [|[k' c'] ch IH]; simpl; [discriminate|].
  destruct (ceqb_spec k k'); intros E.
  - inversion E; subst. left; left; reflexivity.
  - destruct (IH E) as [?|[k'' ?]]; [left; right; assumption|right; exists k''; right; assumption].
Qed.

Lemma suffix_any_true m l : suffix_any m l = true <-> exists l1 l2, l = l1 ++ l2 /\ m l2 = true.
Proof.
  induction l as [|x l IH]; cbn [suffix_any].
  - rewrite orb_false_r. split.
    + intros H; exists [], []; auto.
    + intros (l1 & l2 & E & H). symmetry in E. apply app_eq_nil in E as [-> ->]. exact H.
  - rewrite orb_true_iff, IH. split.
    + intros [H|(l1 & l2 & -> & H)]; [exists [], (x::l); auto|exists (x::l1), l2; auto].
    + intros (l1 & l2 & E & H). destruct l1 as [|y l1]; simpl in E.
      * subst; left; exact H.
      * inversion E; subst. right. exists l1, l2; auto.
Qed.

Lemma glob_dstar_skip p l1 l2 : glob (dstar :: p) l2 -> glob (dstar :: p) (l1 ++ l2).
Proof. induction l1; simpl; intros; [assumption|apply g_dstar1; auto]. Qed.

Theorem tmatch_sound : forall t cs, tmatch t cs = true -> exists p, stored t p /\ glob p cs.
Proof.
  induction t as [b ch IH] using trie_ind'. intros cs. rewrite tmatch_unfold.
  assert (CH : forall k c, lookup ch k = Some c -> forall cs', tmatch c cs' = true -> exists p, stored c p /\ glob p cs').
  { intros k c L. rewrite Forall_forall in IH.
    destruct (lookup_In _ _ _ L) as [HI|[k' HI]]; apply (IH _ HI). }
  destruct cs as [|first rest].
  - rewrite orb_true_iff. intros [->|H].
    + exists []; split; constructor.
    + unfold child_match in H. destruct (lookup ch dstar) as [c|] eqn:L; [|discriminate].
      destruct (CH _ _ L _ H) as (p & Hs & Hg).
      exists (dstar :: p); split; [econstructor; eauto|apply g_dstar0; exact Hg].
  - rewrite !orb_true_iff. unfold child_match. intros [[H|H]|H].
    + destruct (lookup ch first) as [c|] eqn:L; [|discriminate].
      destruct (CH _ _ L _ H) as (p & Hs & Hg).
      exists (first :: p); split; [econstructor; eauto|apply g_lit; exact Hg].
    + destruct (lookup ch star) as [c|] eqn:L; [|discriminate].
      destruct (CH _ _ L _ H) as (p & Hs & Hg).
      exists (star :: p); split; [econstructor; eauto|apply g_star; exact Hg].
    + destruct (lookup ch dstar) as [c|] eqn:L; [|discriminate].
      apply suffix_any_true in H as (l1 & l2 & E & H).
      destruct (CH _ _ L _ H) as (p & Hs & Hg).
      exists (dstar :: p); split; [econstructor; eauto|].
      rewrite E. apply glob_dstar_skip, g_dstar0, Hg.
Qed.

Lemma glob_dstar_inv p cs : glob (dstar :: p) cs -> exists l1 l2, cs = l1 ++ l2 /\ glob p l2.
Proof.
  remember (dstar :: p) as q eqn:Eq. intros H; revert p Eq.
  induction H as [|c p' n Hg IH|p' c n Hg IH|p' n Hg IH|p' c n Hg IH]; intros p0 Eq; try discriminate.
  - (* literal: the name component is dstar itself *)
    inversion Eq; subst. exists [dstar], n; split; [reflexivity|exact Hg].
  - (* star = dstar impossible *)
    inversion Eq as [[E1 E2]]. exfalso; apply star_neq; exact E1.
  - inversion Eq; subst. exists [], n; split; [reflexivity|exact Hg].
  - inversion Eq; subst. destruct (IH _ eq_refl) as (l1 & l2 & -> & G).
    exists (c :: l1), l2; split; [reflexivity|exact G].
Qed.

Theorem tmatch_complete : forall p t cs, stored t p -> glob p cs -> tmatch t cs = true.
Proof.
  induction p as [|k p IH]; intros t cs Hs Hg.
  - inversion Hg; subst. inversion Hs; subst. rewrite tmatch_unfold. reflexivity.
  - inversion Hs as [|b ch k' c' p' L Hs']; subst. rewrite tmatch_unfold.
    destruct (ceqb_spec k dstar) as [->|Hnd].
    + destruct (glob_dstar_inv _ _ Hg) as (l1 & l2 & -> & G).
      pose proof (IH _ _ Hs' G) as M.
      destruct (l1 ++ l2) as [|x l] eqn:E.
      * apply app_eq_nil in E as [-> ->]. unfold child_match. rewrite L, M. apply orb_true_r.
      * rewrite L. rewrite <- E.
        assert (SA : suffix_any (tmatch c') (l1 ++ l2) = true)
          by (apply suffix_any_true; exists l1, l2; auto).
        rewrite SA. apply orb_true_r.
    + inversion Hg as [|c q n G|q c n G|q n G|q c n G]; subst; try (exfalso; apply Hnd; reflexivity).
      * unfold child_match. rewrite L, (IH _ _ Hs' G). reflexivity.
      * unfold child_match. rewrite L, (IH _ _ Hs' G). rewrite orb_true_r. reflexivity.
Qed.

Theorem tmatch_iff t cs : tmatch t cs = true <-> exists p, stored t p /\ glob p cs.
Proof. split; [apply tmatch_sound|intros (p & Hs & Hg); eapply tmatch_complete; eauto]. Qed.
End S.
Print Assumptions tmatch_iff.
