"""Throw-away explicit-state exploration of the C10 transition system of
DESIGN.md appendix D.1 (round 0). Explores every interleaving for small
configurations and checks invariants I1-I3 and exactly-once at quiescence.
X = value stored by the whenDone notice (False on the pinned tree).
Not part of the verification machinery."""
import sys
from collections import deque

def explore(names, client_script, X):
    """names: request i has test name names[i] (one sender actor per request).
    client_script: list of client steps consumed in order by the environment:
       ('read',)          client consumes the request currently being written (enables WriteOk)
       ('resp', n)        client writes a valid response for name n
       ('bad', k)         client writes garbage of kind k
       ('eof',)           client closes stdout cleanly and exits 0
    """
    n = len(names)
    # state tuple
    init = dict(err=None, closed=False, term=False, reader='run', mu=None, pending=(), phase=tuple(['idle']*n),
                fired=(), cpos=0, proc='alive', stdin=True, out=(), reason=None, cl=0, readable=())
    def freeze(s): return tuple(sorted(s.items()))
    seen = set(); q = deque([init]); terminals = []; violations = []
    def check(s):
        pn = [p[0] for p in s['pending']]
        if len(pn) != len(set(pn)): violations.append(('I1', s))
        for i in range(n):
            ph = s['phase'][i]; inp = any(p[1] == i for p in s['pending']); f = sum(1 for x in s['fired'] if x[0] == i)
            if ph in ('idle', 'checked') or (isinstance(ph, tuple) and ph[0] == 'err'):
                if inp or f: violations.append(('I2a', i, s))
            else:
                if not ((inp and f == 0) or (not inp and f == 1)): violations.append(('I2b', i, s))
        if s['reader'] == 'done' and (s['pending'] or not s['closed']): violations.append(('I3', s))
    while q:
        s = q.popleft(); k = freeze(s)
        if k in seen: continue
        seen.add(k); check(s)
        succ = []
        def upd(**kw):
            t = dict(s); t.update(kw); succ.append(t)
        ph = s['phase']
        def setph(i, v):
            l = list(ph); l[i] = v; return tuple(l)
        for i in range(n):
            if ph[i] == 'idle':
                if s['err'] is not None: upd(phase=setph(i, ('err', s['err'])))
                else: upd(phase=setph(i, 'checked'))
            elif ph[i] == 'checked' and s['mu'] is None:
                if s['closed']: upd(phase=setph(i, ('err', 'closed')))
                elif any(p[0] == names[i] for p in s['pending']): upd(phase=setph(i, ('err', 'dup')))
                else: upd(phase=setph(i, 'writing'), mu=i, pending=s['pending'] + ((names[i], i),))
            elif ph[i] == 'writing':
                if i in s['readable']:
                    upd(phase=setph(i, 'ok'), mu=None, readable=tuple(x for x in s['readable'] if x != i))
                if not s['stdin']:
                    if (names[i], i) in s['pending']:
                        upd(phase=setph(i, ('err', 'closed')), mu=None, pending=tuple(p for p in s['pending'] if p != (names[i], i)),
                            err=s['err'] or 'closed')
                    else:
                        upd(phase=setph(i, 'ok'), mu=None)
        # environment: client script
        if s['proc'] == 'alive' and s['cpos'] < len(client_script):
            st = client_script[s['cpos']]
            if st[0] == 'read':          # the client consumes whichever request is being written
                if s['mu'] is not None and s['mu'] not in s['readable']:
                    upd(readable=s['readable'] + (s['mu'],), cpos=s['cpos'] + 1)
            elif st[0] in ('resp', 'bad'):
                upd(out=s['out'] + (st,), cpos=s['cpos'] + 1)
            elif st[0] == 'eof':
                upd(out=s['out'] + (st,), cpos=s['cpos'] + 1, proc='exited', stdin=False)
        # exit notice
        if s['proc'] == 'exited' and s['term'] != X and not s.get('noticed'):
            upd(term=X, noticed=True)
        # reader
        if s['reader'] == 'run' and s['reason'] is None and s['out']:
            m = s['out'][0]; rest = s['out'][1:]
            if m[0] == 'resp':
                hit = [p for p in s['pending'] if p[0] == m[1]]
                if hit:
                    upd(out=rest, pending=tuple(p for p in s['pending'] if p != hit[0]), fired=s['fired'] + ((hit[0][1], 'resp', m[1]),))
                else: upd(out=rest, reason='unknown')
            elif m[0] == 'bad': upd(out=rest, reason='bad')
            else: upd(out=rest, reason='eof')
        if s['reader'] == 'run' and s['reason'] is not None:
            if s['cl'] == 0:
                if s['reason'] != 'eof': upd(cl=1, err=s['err'] or s['reason'], term=True, proc='exited', stdin=False)
                else: upd(cl=1)
            elif s['cl'] == 1 and s['mu'] is None:
                upd(cl=2, closed=True, stdin=False)
            elif s['cl'] == 2:
                upd(cl=3, pending=(), fired=s['fired'] + tuple((p[1], 'fail') for p in s['pending']), reader='done')
        if not succ:
            terminals.append(s)
        for t in succ: q.append(t)
    return seen, terminals, violations

def report(label, names, script, X):
    seen, terms, viol = explore(names, script, X)
    # a writer may only be stuck when the client is alive and has stopped reading (environment stall);
    # with the client gone or the reader finished it must have been released
    writing = [t for t in terms if 'writing' in t['phase'] and (t['proc'] != 'alive' or t['reader'] == 'done')]
    running_after_exit = [t for t in terms if t['reader'] == 'done' and not t['term']]
    # exactly once at quiescent terminals
    bad = 0
    for t in terms:
        if t['reader'] == 'done' and 'writing' not in t['phase']:
            for i in range(len(names)):
                f = sum(1 for x in t['fired'] if x[0] == i)
                if (t['phase'][i] == 'ok') != (f == 1): bad += 1
    print(f"{label}: states={len(seen)} terminals={len(terms)} invariant-violations={len(viol)} "
          f"deadlocked-writers={len(writing)} exactly-once-failures={bad} terminals-with-isRunning-true-after-reader-done={len(running_after_exit)}")
    if viol: print('   first violation', viol[0][:2])

if __name__ == '__main__':
    for X in (False, True):
        print('--- whenDone stores', X)
        report('in-order', ['a', 'b'], [('read',), ('resp', 'a'), ('read',), ('resp', 'b'), ('eof',)], X)
        report('answer-before-read', ['a', 'b'], [('resp', 'a'), ('read',), ('read',), ('resp', 'b'), ('eof',)], X)
        report('early-clean-exit', ['a', 'b'], [('read',), ('resp', 'a'), ('eof',)], X)
        report('unknown-name', ['a', 'b'], [('read',), ('resp', 'zz'), ('read',)], X)
        report('duplicate-answer', ['a', 'b'], [('read',), ('resp', 'a'), ('resp', 'a'), ('read',)], X)
        report('garbage', ['a', 'b', 'c'], [('read',), ('read',), ('bad', 'g'), ('read',)], X)
        report('same-name-twice', ['a', 'a'], [('read',), ('resp', 'a'), ('read',), ('resp', 'a'), ('eof',)], X)
