From Coq Require Import ZArith Lia Bool.
Open Scope Z_scope.

(* varint length for 0 <= n < 2^35, as thresholds *)
Definition vl (n : Z) : Z :=
  if n <? 128 then 1 else if n <? 16384 then 2 else if n <? 2097152 then 3
  else if n <? 268435456 then 4 else 5.
Definition h (n : Z) : Z := if n =? 0 then 0 else 1 + vl n.
Definition fsize (n : Z) : Z := n + h n.          (* wire size of the padding field *)

(* one adjustment of the repaired loop: n' = max 0 (n + (t - fsize n)) *)
Definition adj (t n : Z) : Z := Z.max 0 (n + (t - fsize n)).

Inductive res := Ok (n : Z) | Err.
Definition expand (t n0 : Z) : res :=
  if fsize n0 =? t then Ok n0 else
  let n1 := adj t n0 in if fsize n1 =? t then Ok n1 else
  let n2 := adj t n1 in if fsize n2 =? t then Ok n2 else
  let n3 := adj t n2 in if fsize n3 =? t then Ok n3 else Err.

Ltac crush :=
  unfold fsize, h, vl in *;
  repeat match goal with
  | |- context [if ?b then _ else _] => let E := fresh "E" in destruct b eqn:E
  | H : context [if ?b then _ else _] |- _ => let E := fresh "E" in destruct b eqn:E
  end; try lia.

Theorem expand_exact t n0 n : expand t n0 = Ok n -> fsize n = t.
Proof.
  unfold expand.
  destruct (fsize n0 =? t) eqn:E0; [intros [= <-]; lia|].
  destruct (fsize (adj t n0) =? t) eqn:E1; [intros [= <-]; lia|].
  destruct (fsize (adj t (adj t n0)) =? t) eqn:E2; [intros [= <-]; lia|].
  destruct (fsize (adj t (adj t (adj t n0))) =? t) eqn:E3; [intros [= <-]; lia|discriminate].
Qed.

(* key facts about one adjustment *)
Lemma adj_val t n : 0 <= n -> adj t n = Z.max 0 (t - h n).
Proof. intros; unfold adj, fsize; lia. Qed.

Lemma h_range n : 0 <= n -> 0 <= h n <= 6.
Proof. intros; crush. Qed.

Theorem expand_complete t n0 m :
  0 <= n0 < 2^32 -> 0 <= t < 2^32 -> 0 <= m -> fsize m = t -> expand t n0 <> Err.
Proof.
  intros Hn Ht Hm Hf. unfold expand.
  destruct (fsize n0 =? t) eqn:E0; [discriminate|].
  set (n1 := adj t n0). destruct (fsize n1 =? t) eqn:E1; [discriminate|].
  set (n2 := adj t n1). destruct (fsize n2 =? t) eqn:E2; [discriminate|].
  set (n3 := adj t n2). destruct (fsize n3 =? t) eqn:E3; [discriminate|].
  exfalso.
  assert (H1 : n1 = Z.max 0 (t - h n0)) by (apply adj_val; lia).
  assert (N1 : 0 <= n1) by lia.
  assert (H2 : n2 = Z.max 0 (t - h n1)) by (apply adj_val; lia).
  assert (N2 : 0 <= n2) by lia.
  assert (H3 : n3 = Z.max 0 (t - h n2)) by (apply adj_val; lia).
  apply Z.eqb_neq in E1, E2, E3.
  clearbody n1 n2 n3. clear E0.
  (* everything is now linear arithmetic over threshold case splits *)
  unfold fsize in *.
  pose proof (h_range n0 ltac:(lia)). pose proof (h_range n1 N1). pose proof (h_range n2 N2).
  pose proof (h_range m Hm).
  unfold h, vl in *.
  repeat match goal with
  | H : context [if ?b then _ else _] |- _ => let E := fresh "E" in destruct b eqn:E
  end; lia.
Qed.
Print Assumptions expand_complete.
