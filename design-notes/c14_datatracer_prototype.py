"""Throw-away transcription of tracer.dataTracer (reader.go) and of the
declarative body parser DESIGN.md proposes as its spec (round 0).
decompress is identity-or-fail on a toy 'compression' (payload prefixed by b'Z').
Not part of the verification machinery."""
import itertools, random

PREFIX = 5

def toy_decompress(b):
    return b[1:] if b[:1] == b'Z' else None     # None = error

class DT:
    def __init__(s, is_request, stream, has_decomp, flag_aware):
        s.is_request, s.stream, s.has_decomp, s.flag_aware = is_request, stream, has_decomp, flag_aware
        s.prefix = b''; s.env = None; s.expecting = 0; s.actual = 0; s.end = None; s.ev = []
    def trace(s, data):
        if not s.stream:
            s.actual += len(data); return
        while True:
            if not data: return
            if s.expecting == 0:
                need = PREFIX - len(s.prefix)
                if len(data) < need:
                    s.prefix += data; return
                s.prefix += data[:need]
                s.env = (s.prefix[0], int.from_bytes(s.prefix[1:], 'big'))
                s.expecting = s.env[1]; s.prefix = b''
                if s.expecting == 0:
                    s.ev.append(('data', s.env, 0)); s.env = None
                elif (not s.is_request) and (s.env[0] & 0x82):
                    s.end = b''
                data = data[need:]; continue
            need = s.expecting - s.actual
            if len(data) < need:
                s.actual += len(data)
                if s.end is not None: s.end += data
                return
            s.ev.append(('data', s.env, s.expecting))
            if s.end is not None:
                s.end += data[:need]
                if s.flag_aware:                      # planned repair #8
                    content = toy_decompress(s.end) if (s.env[0] & 1) and s.has_decomp else (s.end if not (s.env[0] & 1) else None)
                else:                                 # pinned tree
                    content = s.end if not s.has_decomp else toy_decompress(s.end)
                if content:
                    s.ev.append(('eos', content))
                s.end = None
            s.env = None; s.expecting = 0; s.actual = 0
            data = data[need:]
    def unfinished(s):
        if s.expecting == 0 and len(s.prefix) > 0: u = len(s.prefix)
        else: u = s.actual
        if u > 0: s.ev.append(('data', s.env, u))
        s.end = None; s.env = None; s.expecting = 0; s.actual = 0; s.prefix = b''

def spec(body, is_request, stream, has_decomp, flag_aware):
    """greedy parse of the whole byte string"""
    ev = []
    if not stream:
        return [('data', None, len(body))] if body else []
    i = 0
    while i < len(body):
        if len(body) - i < PREFIX:
            ev.append(('data', None, len(body) - i)); break
        flags, ln = body[i], int.from_bytes(body[i+1:i+5], 'big'); i += PREFIX
        avail = len(body) - i
        if avail < ln:
            if avail > 0: ev.append(('data', (flags, ln), avail))
            break
        payload = body[i:i+ln]; i += ln
        ev.append(('data', (flags, ln), ln))
        if ln > 0 and (not is_request) and (flags & 0x82):
            if flag_aware:
                content = (toy_decompress(payload) if has_decomp else None) if flags & 1 else payload
            else:
                content = toy_decompress(payload) if has_decomp else payload
            if content: ev.append(('eos', content))
    return ev

def compositions(n):
    for bits in itertools.product([0, 1], repeat=max(0, n - 1)):
        parts, cur = [], 1
        for b in bits:
            if b: parts.append(cur); cur = 1
            else: cur += 1
        if n: parts.append(cur)
        yield parts

if __name__ == '__main__':
    rng = random.Random(3)
    bad = n = 0
    for _ in range(3000):
        msgs = b''
        for _ in range(rng.randint(0, 3)):
            flags = rng.choice([0, 1, 2, 3, 0x80, 0x81])
            ln = rng.choice([0, 1, 2, 3])
            payload = bytes(rng.choice(b'Zab') for _ in range(ln))
            declared = ln if rng.random() < 0.85 else ln + rng.choice([1, 2])
            msgs += bytes([flags]) + declared.to_bytes(4, 'big') + payload
        body = msgs[:rng.randint(0, len(msgs))] if rng.random() < 0.4 else msgs
        body = body[:13]
        for is_request in (True, False):
            for has_decomp in (False, True):
                for flag_aware in (False, True):
                    want = spec(body, is_request, True, has_decomp, flag_aware)
                    for parts in compositions(len(body)):
                        d = DT(is_request, True, has_decomp, flag_aware)
                        i = 0
                        for p in parts:
                            d.trace(body[i:i+p]); i += p
                        d.unfinished()
                        n += 1
                        if d.ev != want:
                            bad += 1
                            if bad < 5: print('MISMATCH', body, parts, d.ev, want)
    print('runs', n, 'mismatches', bad)
