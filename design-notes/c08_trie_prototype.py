"""Throw-away transcription of testTrie.match and of the glob relation (round 0).
fixed=False is the pinned tree; fixed=True recurses into the "**" child on an
empty remainder (planned repair #2). Not part of the verification machinery."""
import itertools, random

class T:
    def __init__(s):
        s.present = False
        s.ch = {}

def add(t, cs):
    if not cs:
        t.present = True
        return
    c = t.ch.get(cs[0])
    if c is None:
        c = T()
        t.ch[cs[0]] = c
    add(c, cs[1:])

def match(t, cs, fixed):
    if not cs:
        if t.present:
            return True
        c = t.ch.get("**")
        if fixed:
            return c is not None and match(c, cs, fixed)
        return c is not None and c.present
    first, rest = cs[0], cs[1:]
    c = t.ch.get(first)
    if c is not None and match(c, rest, fixed):
        return True
    c = t.ch.get("*")
    if c is not None and match(c, rest, fixed):
        return True
    c = t.ch.get("**")
    if c is None:
        return False
    while True:
        if match(c, cs, fixed):
            return True
        if not cs:
            return c.present
        cs = cs[1:]

def glob(p, n):
    if not p:
        return not n
    h = p[0]
    if h == "**":
        return glob(p[1:], n) or (bool(n) and glob(p, n[1:]))
    if not n:
        return False
    if h == "*":
        return glob(p[1:], n[1:])
    return h == n[0] and glob(p[1:], n[1:])

if __name__ == '__main__':
    alpha = ["a", "b", "*", "**"]
    names = [list(x) for k in range(1, 5) for x in itertools.product(["a", "b"], repeat=k)]
    names += [["*"], ["**"], ["a", "*"], ["**", "a"]]
    pats = [list(x) for k in range(1, 5) for x in itertools.product(alpha, repeat=k)]
    for fixed in (False, True):
        bad = []
        for p in pats:
            t = T()
            add(t, p)
            for n in names:
                if match(t, n, fixed) != glob(p, n):
                    bad.append((p, n))
        print('fixed', fixed, 'single-pattern mismatches', len(bad), bad[:3])
    random.seed(1)
    bad = 0
    for _ in range(20000):
        ps = [random.choice(pats) for _ in range(random.randint(1, 4))]
        t = T()
        for p in ps:
            add(t, p)
        for n in random.sample(names, 8):
            if match(t, n, True) != any(glob(p, n) for p in ps):
                bad += 1
    print('multi-pattern mismatches after repair', bad)
