"""Throw-away transcription of expandRequestData's padding loop (round 0).
Used only to test the C19 theorem statements before writing them down.
Not part of the verification machinery."""

def vl(n):
    c = 1
    while n >= 128:
        n >>= 7
        c += 1
    return c

def f(n):                      # wire size of the padding field with n bytes
    return 0 if n == 0 else 1 + vl(n) + n

def expand_as_coded(base, n0, T):
    """pinned tree: two adjustments, negative slice bound panics"""
    n, adj = n0, 0
    while True:
        size = base + f(n)
        d = T - size
        if d == 0:
            return ('ok', n)
        if adj >= 2:
            return ('err', size)
        if d < 0 and n + d < 0:
            return ('crash', n + d)
        n += d
        adj += 1

def expand_repaired(base, n0, T, maxadj=3):
    """planned repair: clamp at 0, third adjustment"""
    n, adj = n0, 0
    while True:
        size = base + f(n)
        d = T - size
        if d == 0:
            return ('ok', n)
        if adj >= maxadj:
            return ('err', size)
        n = max(0, n + d)
        adj += 1

if __name__ == '__main__':
    n0s = [0, 1, 2, 3, 126, 127, 128, 129, 130, 16382, 16383, 16384, 16385, 16386, 16390, 20000,
           2097150, 2097151, 2097152, 2097153]
    Ts = list(range(0, 400)) + list(range(16300, 16500)) + list(range(2097100, 2097200))
    for name, fn in (('as coded', expand_as_coded), ('repaired', expand_repaired)):
        rejected_reachable = crashes = 0
        for base in (0, 7):
            reachable = set(base + f(n) for n in range(0, 2200000))
            for n0 in n0s:
                for T in Ts:
                    r = fn(base, n0, T)
                    if r[0] == 'ok':
                        assert base + f(r[1]) == T
                    elif r[0] == 'err' and T in reachable:
                        rejected_reachable += 1
                    elif r[0] == 'crash':
                        crashes += 1
        print(name, 'reachable-but-rejected', rejected_reachable, 'crashes', crashes)
